(* Executable model of /repo/sliceOps/sliceOps.go (after fix F10).  Definitions only.

   A Go slice whose pointer is at the start of its backing array is [(b, len)]: [b] the whole backing
   array (length = capacity), the visible elements are [firstn len b].
   Functions return [None] exactly where the property's quantifier stops (i <= j <= len violated;
   Go panics or produces an over-extended slice there).
   Go maps used as sets are membership tests on lists ([mem]); where the Go result order comes from a
   map iteration the model returns first-insertion order and theorems are stated up to [Permutation]. *)
From Coq Require Import List Arith Bool.
Import ListNotations.

Section SliceOps.
  Context {A : Type}.
  Variable eqb : A -> A -> bool.
  Variable zero : A.

  (* builtin copy(dst[off:], src): memmove semantics, copies min(len(dst)-off, len(src)) elements *)
  Definition go_copy (dst : list A) (off : nat) (src : list A) : list A :=
    let k := Nat.min (length dst - off) (length src) in
    firstn off dst ++ firstn k src ++ skipn (off + k) dst.

  Fixpoint set_nth (l : list A) (i : nat) (x : A) : list A :=
    match l, i with
    | [], _ => []
    | _ :: t, 0 => x :: t
    | h :: t, S i' => h :: set_nth t i' x
    end.

  (* for k := from; k < from+cnt; k++ { a[k] = zero } *)
  Fixpoint zero_range (a : list A) (from cnt : nat) : list A :=
    match cnt with
    | 0 => a
    | S c => zero_range (set_nth a from zero) (S from) c
    end.

  (* Remove(s, i, j): result = (new backing array, new len) *)
  Definition remove (b : list A) (len i j : nat) : option (list A * nat) :=
    if (i <=? j) && (j <=? len) && (len <=? length b) then
      let original := firstn len b in
      let o1 := go_copy original i (skipn j original) in
      let o2 := zero_range o1 (len - j + i) (len - (len - j + i)) in
      Some (o2 ++ skipn len b, len - j + i)
    else None.

  (* Cut(s, i, j): (returned fresh slice, new backing, new len) *)
  Definition cut (b : list A) (len i j : nat) : option (list A * list A * nat) :=
    match remove b len i j with
    | Some (b', len') => Some (firstn (j - i) (skipn i (firstn len b)), b', len')
    | None => None
    end.

  (* Insert(s, i, v...) : visible result only *)
  Definition insert (s : list A) (i : nat) (v : list A) : option (list A) :=
    if i <=? length s then Some (firstn i s ++ (v ++ skipn i s)) else None.

  (* FilterInPlace: the loop reads a[idx] from the array as it is at that moment *)
  Fixpoint filter_loop (keep : A -> bool) (a : list A) (idx w : nat) (fuel : nat) : list A * nat :=
    match fuel with
    | 0 => (a, w)
    | S f =>
        match nth_error a idx with
        | Some e => if keep e then filter_loop keep (set_nth a w e) (S idx) (S w) f
                    else filter_loop keep a (S idx) w f
        | None => (a, w)
        end
    end.

  Definition filter_in_place (keep : A -> bool) (b : list A) (len : nat) : option (list A * nat) :=
    if len <=? length b then
      let '(a1, w) := filter_loop keep (firstn len b) 0 0 len in
      Some (zero_range a1 w (len - w) ++ skipn len b, w)
    else None.

  (* FilterInPlace with a predicate that has state of its own (a Go closure): the state is threaded through
     the calls, one call per element, in index order.  [filter_in_place] is the case of a state-less one. *)
  Fixpoint filter_loop_st {St : Type} (keep : St -> A -> bool * St) (st : St) (a : list A) (idx w : nat) (fuel : nat)
    : list A * nat * St :=
    match fuel with
    | 0 => (a, w, st)
    | S f =>
        match nth_error a idx with
        | Some e => let '(k, st') := keep st e in
                    if k then filter_loop_st keep st' (set_nth a w e) (S idx) (S w) f
                    else filter_loop_st keep st' a (S idx) w f
        | None => (a, w, st)
        end
    end.

  Definition filter_in_place_st {St : Type} (keep : St -> A -> bool * St) (st : St) (b : list A) (len : nat)
    : option (list A * nat * St) :=
    if len <=? length b then
      let '(a1, w, st') := filter_loop_st keep st (firstn len b) 0 0 len in
      Some (zero_range a1 w (len - w) ++ skipn len b, w, st')
    else None.

  (* its specification: one pass over the list, in order, each element offered to the predicate exactly once *)
  Fixpoint filter_st {St : Type} (keep : St -> A -> bool * St) (st : St) (l : list A) : list A * St :=
    match l with
    | [] => ([], st)
    | e :: t => let '(k, st1) := keep st e in
                let '(r, st2) := filter_st keep st1 t in
                ((if k then e :: r else r), st2)
    end.

  (* Push(s, v...) : new visible slice, in a fresh array; the old backing array is not written *)
  Definition push (s v : list A) : list A := v ++ s.

  (* Pop(s): (result, new backing, new len) *)
  Definition pop (b : list A) (len : nat) : option (A * list A * nat) :=
    if len <=? length b then
      match len with
      | 0 => Some (zero, b, 0)
      | _ => match nth_error b 0, remove b len 0 1 with
             | Some x, Some (b', len') => Some (x, b', len')
             | _, _ => None
             end
      end
    else None.

  (* ---- set functions ---- *)
  Fixpoint mem (x : A) (l : list A) : bool :=
    match l with [] => false | y :: t => eqb x y || mem x t end.

  (* the loop body shared by Distinct and Union: acc is the result so far (also plays the map) *)
  Definition add_distinct (acc : list A) (e : A) : list A :=
    if mem e acc then acc else acc ++ [e].

  Definition distinct (s : list A) : list A := fold_left add_distinct s [].

  Definition union (ss : list (list A)) : list A :=
    fold_left (fun acc s => fold_left add_distinct s acc) ss [].

  (* Intersection: intersectionMap as an association list in first-insertion order;
     each slice contributes at most 1 per element (fix F10: per-slice [seen] set). *)
  Fixpoint incr (cnt : list (A * nat)) (e : A) : list (A * nat) :=
    match cnt with
    | [] => [(e, 1)]
    | (k, n) :: t => if eqb e k then (k, S n) :: t else (k, n) :: incr t e
    end.

  Definition count_slice (cnt : list (A * nat)) (s : list A) : list (A * nat) :=
    fst (fold_left (fun '(cnt, seen) e =>
                      if mem e seen then (cnt, seen) else (incr cnt e, e :: seen))
                   s (cnt, [])).

  Definition intersection (ss : list (list A)) : list A :=
    map fst (filter (fun kv => snd kv =? length ss) (fold_left count_slice ss [])).

  (* Difference(s1, s2) after fix F10: an element already emitted is added to the exclusion map *)
  Definition difference (s1 s2 : list A) : list A :=
    fst (fold_left (fun '(res, excl) e =>
                      if mem e excl then (res, excl) else (res ++ [e], e :: excl))
                   s1 ([], s2)).

  (* Disjoin after fix F10 (result starts as Distinct(slices[0])) *)
  Definition disjoin_step (st : list A * list A) (s : list A) : list A * list A :=
    let '(result, removed) := st in
    let r1 := difference result s in
    let r2 := difference s result in
    let result1 := union [r1; r2] in
    let removed' := removed ++ distinct (difference s result1) in
    (difference result1 removed', removed').

  Definition disjoin (ss : list (list A)) : list A :=
    match ss with
    | [] => []
    | s0 :: rest => fst (fold_left disjoin_step rest (distinct s0, []))
    end.
End SliceOps.
