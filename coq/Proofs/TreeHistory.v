(* AddAncestryChain at the level of the Tree (possibly empty) and for whole histories of calls. *)
From Coq Require Import List Bool Arith Lia.
From TC.Model Require Import Tree.
From TC.Proofs Require Import TreeProofs.
Import ListNotations.

Section TreeHistory.
  Context {A : Type}.
  Variable eqb : A -> A -> bool.
  Hypothesis eqb_spec : forall x y, reflect (x = y) (eqb x y).
  Notation rtree := (rtree A).
  Notation tree := (tree A).
  Notation ins := (ins eqb).
  Notation add_chain := (add_chain eqb).

  Definition tpath (p : list A) (t : tree) : Prop := match t with None => False | Some r => has_path p r end.
  Definition tnodup (t : tree) : Prop := match t with None => True | Some r => nodup_sib r end.

  (* the error case, exactly *)
  Lemma add_chain_error (t : tree) anc :
    add_chain t anc = None <->
    exists root, t = Some root /\ (anc = [] \/ exists a r, anc = a :: r /\ value root <> a).
  Proof using eqb_spec.
    destruct t as [root|]; [|simpl].
    - rewrite (add_chain_ins eqb root anc).
      pose proof (ins_None eqb eqb_spec root anc) as H. destruct (ins root anc) eqn:E.
      + split; [discriminate|]. intros [r' [[= <-] H']]. apply H in H'. discriminate.
      + split; [|reflexivity]. intros _. exists root. split; [reflexivity|]. apply H. reflexivity.
    - split; [discriminate|]. intros [root [E _]]. discriminate.
  Qed.

  Lemma ne_prefix_nil (p : list A) : ~ ne_prefix p [].
  Proof. intros [N P]. apply prefix_of_nil in P. contradiction. Qed.

  Lemma add_chain_paths (t t' : tree) anc :
    add_chain t anc = Some t' -> forall p, tpath p t' <-> tpath p t \/ ne_prefix p anc.
  Proof using eqb_spec.
    destruct t as [root|].
    - rewrite (add_chain_ins eqb root anc). destruct (ins root anc) as [r'|] eqn:E; [|discriminate].
      intros [= <-] p. simpl. apply (ins_paths eqb eqb_spec root anc r' E).
    - simpl. intros [= <-] p. destruct anc as [|a r]; simpl.
      + split; [tauto|]. intros [[] | H]. exact (ne_prefix_nil p H).
      + rewrite chain_paths. tauto.
  Qed.

  Lemma add_chain_nodup (t t' : tree) anc : add_chain t anc = Some t' -> (tnodup t' <-> tnodup t).
  Proof.
    destruct t as [root|].
    - rewrite (add_chain_ins eqb root anc). destruct (ins root anc) as [r'|] eqn:E; [|discriminate].
      intros [= <-]. simpl. apply (ins_nodup eqb eqb_spec root anc r' E).
    - simpl. intros [= <-]. destruct anc as [|a r]; simpl; [tauto|].
      split; [auto|]. intros _. apply chain_nodup.
  Qed.

  (* the root never changes once it exists *)
  Lemma add_chain_root (root : rtree) (t' : tree) anc :
    add_chain (Some root) anc = Some t' -> exists r', t' = Some r' /\ value r' = value root.
  Proof.
    rewrite (add_chain_ins eqb root anc). destruct (ins root anc) as [r'|] eqn:E; [|discriminate].
    intros [= <-]. exists r'. split; [reflexivity|]. apply (ins_value eqb root anc r' E).
  Qed.

  (* adding a chain a second time changes nothing *)
  Lemma chain_ins_self d ds : ins (chain d ds) (d :: ds) = Some (chain d ds).
  Proof using eqb_spec.
    revert d. induction ds as [|b r IH]; intros d; simpl; rewrite (eqb_refl eqb eqb_spec); [reflexivity|].
    rewrite IH. reflexivity.
  Qed.

  Lemma ins_idem node : forall anc node', ins node anc = Some node' -> ins node' anc = Some node'.
  Proof using eqb_spec.
    induction node as [v cs IH] using rtree_ind'. intros anc node' E.
    destruct anc as [|cur desc]; simpl in E; [discriminate|].
    destruct (eqb v cur) eqn:Ev; [|discriminate].
    destruct desc as [|d ds]; injection E as <-; simpl; rewrite Ev; [reflexivity|].
    do 2 f_equal. induction cs as [|c t IHt]; simpl.
    - rewrite chain_ins_self. reflexivity.
    - inversion IH as [|? ? Hc Ht]; subst. destruct (ins c (d :: ds)) as [c'|] eqn:E; simpl.
      + rewrite (Hc _ _ E). reflexivity.
      + rewrite E. f_equal. apply IHt, Ht.
  Qed.

  Lemma add_chain_idem (t t' : tree) anc : add_chain t anc = Some t' -> add_chain t' anc = Some t'.
  Proof using eqb_spec.
    destruct t as [root|].
    - rewrite (add_chain_ins eqb root anc). destruct (ins root anc) as [r'|] eqn:E; [|discriminate].
      intros [= <-]. rewrite (add_chain_ins eqb r' anc), (ins_idem root anc r' E). reflexivity.
    - simpl. intros [= <-]. destruct anc as [|a r]; [reflexivity|].
      rewrite (add_chain_ins eqb (chain a r) (a :: r)), chain_ins_self. reflexivity.
  Qed.

  (* ---- histories ---- *)
  Definition accepted (chains : list (list A)) (errs : list bool) : list (list A) :=
    map fst (filter (fun ce => negb (snd ce)) (combine chains errs)).

  Lemma run_spec chains : forall (t : tree),
    let t' := fst (run eqb t chains) in
    let errs := snd (run eqb t chains) in
    length errs = length chains
    /\ (tnodup t' <-> tnodup t)
    /\ (forall p, tpath p t' <-> tpath p t \/ exists c, In c (accepted chains errs) /\ ne_prefix p c).
  Proof using eqb_spec.
    induction chains as [|c rest IH]; intros t; simpl.
    - split; [reflexivity|]. split; [tauto|]. intros p. split; [auto|]. intros [H | [c [[] _]]]. exact H.
    - destruct (add_chain t c) as [t1|] eqn:E.
      + specialize (IH t1). destruct (run eqb t1 rest) as [t2 errs]. simpl in *.
        destruct IH as [I1 [I2 I3]]. split; [lia|]. split.
        * rewrite I2. apply (add_chain_nodup t t1 c E).
        * intros p. rewrite I3, (add_chain_paths t t1 c E p). unfold accepted. simpl. split.
          -- intros [[H | H] | [x [Hx H]]]; [auto| |].
             ++ right. exists c. auto.
             ++ right. exists x. auto.
          -- intros [H | [x [[<- | Hx] H]]]; [auto|auto|]. right. exists x. auto.
      + specialize (IH t). destruct (run eqb t rest) as [t2 errs]. simpl in *.
        destruct IH as [I1 [I2 I3]]. split; [lia|]. split; [exact I2|]. intros p. rewrite I3. unfold accepted. simpl. tauto.
  Qed.
End TreeHistory.
