(* C05: every dispatch decision of the (fixed) work-queue model pops the minimum by (effective priority,
   arrival number) of the waiting items, having consulted every waiting adjust function; arrival numbers are
   the order of arrival at the dispatcher. *)
From Coq Require Import List Arith ZArith Bool Lia Permutation.
From TC.Lib Require Import GoHeap GoHeapProofs.
From TC.Model Require Import WQ.
From TC.Proofs Require Import WQHeap WQInv.
Import ListNotations.

(* the item y as it competes at a decision with adjust values vals *)
Definition competing (vals : avals) (y : item) : item := set_prio (eff vals y) y.

Definition decision_ok (before : list item) (vals : avals) (cs : list nat) (x : item) : Prop :=
  cs = consults before /\
  (exists y, In y before /\ ikey x = ikey (competing vals y)) /\
  (forall y, In y before -> lexle (iprio x) (iseq x) (eff vals y) (iseq y)).

Definition decisions_ok (tr : list event) : Prop :=
  forall b v c x, In (EvDecide b v c x) tr -> decision_ok b v c x.

Lemma decide_ok vals s x s1 :
  decide fixed vals s = Some (x, s1) -> decision_ok (heap s) vals (consults (heap s)) x.
Proof.
  intros H. apply decide_spec in H. destruct H as (h2 & Hpop & _).
  pose proof (adjust_ok vals (heap s)) as Ha.
  destruct (w_pop_ok _ _ _ Ha Hpop) as (_ & Pp & Hmin).
  pose proof (adjust_perm vals (heap s)) as Pa.
  split; [reflexivity|]. split.
  - assert (Hin : In (ikey x) (map ikey (adjust_all vals (heap s)))).
    { eapply Permutation_in; [exact Pa|]. eapply Permutation_in; [exact Pp|]. left. reflexivity. }
    unfold adjust_all in Hin. rewrite map_map in Hin. apply in_map_iff in Hin.
    destruct Hin as (y & E & Hy). exists y. split; [exact Hy|]. symmetry. exact E.
  - intros y Hy.
    assert (Hin : In (competing vals y) (adjust_all vals (heap s))).
    { unfold adjust_all. apply in_map_iff. exists y. split; [reflexivity|exact Hy]. }
    destruct (perm_key_in _ _ _ (Permutation_sym Pa) Hin) as (y' & Hy' & E).
    specialize (Hmin y' Hy'). apply wle_iff in Hmin.
    assert (E1 : iprio y' = eff vals y) by (apply (f_equal iprio) in E; exact E).
    assert (E2 : iseq y' = iseq y) by (apply (f_equal iseq) in E; exact E).
    rewrite E1, E2 in Hmin. exact Hmin.
Qed.

Lemma decisions_ok_cons e tr :
  decisions_ok tr -> (forall b v c x, e = EvDecide b v c x -> decision_ok b v c x) -> decisions_ok (e :: tr).
Proof.
  intros H He b v c x [E|Hin]; [apply He; exact E|apply H; exact Hin].
Qed.

Ltac not_decide := apply decisions_ok_cons; [|intros ? ? ? ? E; discriminate E].

Lemma decisions_step s l s' : decisions_ok (trace s) -> step fixed s l = Some s' -> decisions_ok (trace s').
Proof.
  intros Hd H. step_inv H; cbn; try assumption; repeat not_decide; try assumption.
  all: match goal with D : decide _ _ _ = Some _ |- _ =>
         pose proof (decide_ok _ _ _ _ D) as Hok; apply decide_spec in D; destruct D as (h2 & _ & ->) end.
  all: cbn; apply decisions_ok_cons; [assumption|].
  all: intros b v c x E; injection E as <- <- <- <-; exact Hok.
Qed.

Theorem decisions_reach s : reach fixed s -> decisions_ok (trace s).
Proof.
  induction 1; [intros b v c x []|eapply decisions_step; eauto].
Qed.

(* ---- arrival numbers ---- *)
(* arrival events, oldest first, of a trace given newest first *)
Fixpoint arrivals_rev (tr : list event) : list (nat * nat) :=
  match tr with
  | [] => []
  | EvArrive id q :: r => (id, q) :: arrivals_rev r
  | _ :: r => arrivals_rev r
  end.
Definition arrivals (tr : list event) : list (nat * nat) := rev (arrivals_rev tr).

(* items that have arrived at the dispatcher and are still on its side *)
Definition arrived_waiting (s : state) : list item := held (disp s) ++ heap s.

Definition seqinv (s : state) : Prop :=
  map snd (arrivals (trace s)) = seq 0 (nextseq s) /\
  (forall x, In x (arrived_waiting s) -> In (iid x, iseq x) (arrivals (trace s))).

Definition idseq (x : item) : nat * nat := (iid x, iseq x).

Lemma perm_key_idseq l l' :
  Permutation (map ikey l) (map ikey l') -> Permutation (map idseq l) (map idseq l').
Proof.
  intros P. apply (Permutation_map idseq) in P. rewrite !map_map in P. exact P.
Qed.

Lemma adjust_idseq vals l : Permutation (map idseq (fst (adjust fixed vals l))) (map idseq l).
Proof.
  etransitivity; [apply perm_key_idseq, adjust_perm|].
  unfold adjust_all. rewrite map_map. apply Permutation_refl.
Qed.

Lemma in_idseq x l : In x l -> In (idseq x) (map idseq l).
Proof. apply in_map. Qed.

Lemma arrivals_cons_other e tr :
  (forall id q, e <> EvArrive id q) -> arrivals (e :: tr) = arrivals tr.
Proof.
  intros H. unfold arrivals. destruct e; try reflexivity. exfalso. eapply H. reflexivity.
Qed.

Lemma perm_incl {A} (a b c : list A) : Permutation a b -> incl b c -> incl a c.
Proof. intros P H x Hx. apply H. eapply Permutation_in; eauto. Qed.

Lemma push_idseq_incl l w A :
  incl (map idseq l) A -> In (idseq w) A -> incl (map idseq (h_push wlt set_pos l w)) A.
Proof.
  intros Hl Hw. eapply perm_incl; [apply (perm_key_idseq _ (w :: l)), w_push_perm|].
  intros z [<-|Hz]; [exact Hw|apply Hl; exact Hz].
Qed.

Lemma pop_idseq l x l' :
  h_pop wlt set_pos l = Some (x, l') -> Permutation (idseq x :: map idseq l') (map idseq l).
Proof.
  intros H. apply w_pop_perm in H. apply (perm_key_idseq (x :: l') l). exact H.
Qed.
Lemma remove_idseq l i x l' :
  h_remove wlt set_pos l i = Some (x, l') -> Permutation (idseq x :: map idseq l') (map idseq l).
Proof.
  intros H. apply w_remove_perm in H. apply (perm_key_idseq (x :: l') l). exact H.
Qed.

Lemma adjust_idseq_incl vals l A : incl (map idseq l) A -> incl (map idseq (fst (adjust fixed vals l))) A.
Proof. intros H. eapply perm_incl; [apply adjust_idseq|exact H]. Qed.

Lemma decide_idseq vals s x s1 A :
  decide fixed vals s = Some (x, s1) -> incl (map idseq (heap s)) A ->
  In (idseq x) A /\ incl (map idseq (heap s1)) A /\ trace s1 = EvDecide (heap s) vals (consults (heap s)) x :: trace s
  /\ disp s1 = disp s /\ nextseq s1 = nextseq s.
Proof.
  intros D H. apply decide_spec in D. destruct D as (h2 & Hpop & ->). cbn.
  apply pop_idseq in Hpop.
  assert (Hi : incl (idseq x :: map idseq h2) A).
  { eapply perm_incl; [exact Hpop|]. apply adjust_idseq_incl, H. }
  split; [apply Hi; left; reflexivity|]. split; [|auto].
  intros z Hz. apply Hi. right. exact Hz.
Qed.

Lemma seqinv_init W L : seqinv (init W L).
Proof. split; [reflexivity|intros x []]. Qed.

Lemma seqinv_alt s :
  seqinv s <-> map snd (arrivals (trace s)) = seq 0 (nextseq s) /\
               incl (map idseq (held (disp s)) ++ map idseq (heap s)) (arrivals (trace s)).
Proof.
  unfold seqinv, arrived_waiting. split; intros [H1 H2]; (split; [exact H1|]).
  - intros z Hz. rewrite <- map_app in Hz. apply in_map_iff in Hz. destruct Hz as (x & <- & Hx). apply H2, Hx.
  - intros x Hx. apply H2. rewrite <- map_app. apply (in_map idseq), Hx.
Qed.

Ltac incl_by H :=
  let z := fresh "z" in let Hz := fresh "Hz" in
  intros z Hz; apply H; cbn in *; rewrite ?in_app_iff in *; cbn in *; tauto.

Lemma seqinv_step s l s' : seqinv s -> step fixed s l = Some s' -> seqinv s'.
Proof.
  intros Hs H. apply seqinv_alt in Hs. destruct Hs as [H1 H2]. apply seqinv_alt.
  step_inv H; cbn [trace disp heap nextseq ev set_trace set_disp set_heap set_nextseq set_producers set_buffer set_tokens
                   set_workitems set_removed set_dropped set_nextid set_running set_idle set_senderr set_deleting
                   set_mon set_done set_posting set_wexited set_subs set_nextsub set_sL set_stopped set_cancelled
                   set_breaked set_sem_closed set_wch_closed set_err_closed set_work_closed set_panicked];
    rewrite ?arrivals_cons_other by (intros; discriminate);
    try match goal with E : disp s = _ |- _ => rewrite ?E in * end;
    try (split; assumption).
  - (* Dequeue *)
    split; [exact H1|]. apply incl_app; [eapply incl_tran; [|exact H2]; apply incl_appl, incl_refl|].
    assert (E : l1 = fst (adjust fixed vals l0)) by (rewrite Heqp1; reflexivity). subst l1.
    apply adjust_idseq_incl.
    assert (Hh : incl (map idseq (heap s)) (arrivals (trace s))).
    { eapply incl_tran; [|exact H2]. apply incl_appr, incl_refl. }
    destruct (0 <=? ipos i)%Z.
    + destruct (h_remove wlt set_pos (heap s) (Z.to_nat (ipos i))) as [[x h']|] eqn:Er; [|discriminate].
      injection Heqo0 as <- <-. apply remove_idseq in Er.
      eapply incl_tran; [|exact Hh]. intros z Hz. eapply Permutation_in; [exact Er|]. right. exact Hz.
    + injection Heqo0 as <- <-. exact Hh.
  - (* SetPrio *)
    split; [exact H1|]. apply incl_app; [eapply incl_tran; [|exact H2]; apply incl_appl, incl_refl|].
    match goal with E : adjust fixed vals ?h = (l, _) |- _ =>
      assert (E' : l = fst (adjust fixed vals h)) by (rewrite E; reflexivity) end. subst l.
    apply adjust_idseq_incl. eapply perm_incl; [apply perm_key_idseq, w_fix_perm|].
    rewrite map_map. erewrite map_ext; [eapply incl_tran; [|exact H2]; apply incl_appr, incl_refl|].
    intros x. cbn. destruct (iid x =? id); reflexivity.
  - (* DRecv *)
    unfold arrivals in *. cbn [arrivals_rev]. cbn [rev]. split.
    + rewrite map_app, H1, seq_S. reflexivity.
    + cbn [held map app]. intros z [<-|Hz].
      * apply in_or_app. right. left. unfold idseq. cbn.
        match goal with E : take_item id _ = Some _ |- _ => clear - E end.
        assert (iid i = id); [|subst; reflexivity].
        revert i l Heqo. induction (producers s) as [|a t IH]; cbn; [discriminate|].
        intros i l. destruct (iid a =? id) eqn:Ea.
        -- intros H. injection H as <- <-. apply Nat.eqb_eq, Ea.
        -- destruct (take_item id t) as [[y t']|]; [|discriminate]. intros H. injection H as <- <-.
           eapply IH. reflexivity.
      * apply in_or_app. left. apply H2. exact Hz.
  - (* DHandoff *) split; [exact H1|]. incl_by H2.
  - (* DPush *)
    split; [exact H1|]. cbn [held map app]. apply push_idseq_incl.
    + eapply incl_tran; [|exact H2]. apply incl_appr, incl_refl.
    + apply H2. left. reflexivity.
  - (* DFullTok *)
    match goal with D : decide _ _ _ = Some _ |- _ =>
      eapply (decide_idseq _ _ _ _ (arrivals (trace s))) in D;
        [destruct D as (Hx & Hh & -> & _ & ->)|] end.
    + rewrite arrivals_cons_other by (intros; discriminate). split; [exact H1|].
      cbn [held map app]. intros z [<-|[<-|Hz]]; [exact Hx|apply H2; left; reflexivity|apply Hh, Hz].
    + cbn. eapply incl_tran; [|exact H2]. apply incl_appr, incl_refl.
  - (* DFullSend *)
    split; [exact H1|]. cbn [held map app]. apply push_idseq_incl.
    + eapply incl_tran; [|exact H2]. apply incl_appr, incl_refl.
    + apply H2. right. left. reflexivity.
  - split; [exact H1|]. rewrite ?Heql in *. incl_by H2.
  - (* DTok *)
    match goal with D : decide _ _ _ = Some _ |- _ =>
      eapply (decide_idseq _ _ _ _ (arrivals (trace s))) in D;
        [destruct D as (Hx & Hh & -> & _ & ->)|] end.
    + rewrite arrivals_cons_other by (intros; discriminate). split; [exact H1|].
      cbn [held map app]. intros z [<-|Hz]; [exact Hx|apply Hh, Hz].
    + cbn. rewrite Heql. eapply incl_tran; [|exact H2]. apply incl_appr, incl_refl.
  - split; [exact H1|]. rewrite ?Heql in *. incl_by H2.
  - split; [exact H1|]. incl_by H2.
  - (* DCancel *) split; [exact H1|]. cbn. rewrite app_nil_r. incl_by H2.
  - split; [exact H1|]. incl_by H2.
  - split; [exact H1|]. incl_by H2.
Qed.

Theorem seqinv_reach s : reach fixed s -> seqinv s.
Proof. induction 1; [apply seqinv_init|eapply seqinv_step; eauto]. Qed.

(* the arrival number of a waiting item is its index in the sequence of arrivals *)
Lemma arrival_index_gen (A : list (nat * nat)) n id q :
  map snd A = seq 0 n -> In (id, q) A -> nth_error A q = Some (id, q).
Proof.
  intros Hs Hin. apply In_nth_error in Hin. destruct Hin as (k & Hk).
  assert (Hq : nth_error (map snd A) k = Some q) by (rewrite nth_error_map, Hk; reflexivity).
  rewrite Hs in Hq.
  assert (Hlt : k < n).
  { assert (Hne : nth_error (seq 0 n) k <> None) by congruence.
    apply nth_error_Some in Hne. rewrite seq_length in Hne. exact Hne. }
  rewrite (nth_error_nth' _ 0) in Hq by (rewrite seq_length; exact Hlt).
  rewrite seq_nth in Hq by exact Hlt. injection Hq as <-. exact Hk.
Qed.

Lemma arrival_index s x :
  seqinv s -> In x (arrived_waiting s) -> nth_error (arrivals (trace s)) (iseq x) = Some (iid x, iseq x).
Proof. intros [H1 H2] Hx. eapply arrival_index_gen; [exact H1|apply H2, Hx]. Qed.

(* arrivals only grow at the end *)
Lemma arrivals_cons e tr : exists suffix, arrivals (e :: tr) = arrivals tr ++ suffix.
Proof.
  unfold arrivals. destruct e; try (exists []; rewrite app_nil_r; reflexivity).
  eexists. cbn. reflexivity.
Qed.

Lemma nth_error_app_keep {A} (l l' : list A) k v : nth_error l k = Some v -> nth_error (l ++ l') k = Some v.
Proof.
  intros H. rewrite nth_error_app1; [exact H|]. apply nth_error_Some. congruence.
Qed.

(* trace invariant: at every past decision, the arrival number of each waiting item is its arrival index *)
Definition decided_seq_ok (tr : list event) : Prop :=
  forall b v c x, In (EvDecide b v c x) tr ->
    forall y, In y b -> nth_error (arrivals tr) (iseq y) = Some (iid y, iseq y).

Lemma decided_seq_cons e tr :
  decided_seq_ok tr ->
  (forall b v c x, e = EvDecide b v c x -> forall y, In y b -> nth_error (arrivals tr) (iseq y) = Some (iid y, iseq y)) ->
  decided_seq_ok (e :: tr).
Proof.
  intros H He b v c x Hin y Hy. destruct (arrivals_cons e tr) as (suf & ->).
  apply nth_error_app_keep. destruct Hin as [E|Hin]; [eapply He; eauto|eapply H; eauto].
Qed.

Lemma decided_seq_step s l s' :
  seqinv s -> decided_seq_ok (trace s) -> step fixed s l = Some s' -> decided_seq_ok (trace s').
Proof.
  intros Hs Hd H. step_inv H; cbn; try assumption;
    repeat (apply decided_seq_cons; [|intros ? ? ? ? E; discriminate E]); try assumption.
  all: match goal with D : decide _ _ _ = Some _ |- _ => apply decide_spec in D; destruct D as (h2 & _ & ->) end.
  all: cbn; apply decided_seq_cons; [assumption|].
  all: intros b v c x E y Hy; injection E as <- <- <- <-.
  all: apply arrival_index; [exact Hs|]. 
  all: unfold arrived_waiting; apply in_or_app; right; exact Hy.
Qed.

Theorem decided_seq_reach s : reach fixed s -> decided_seq_ok (trace s).
Proof.
  induction 1 as [|s l s' R IH H]; [intros b v c x []|].
  eapply decided_seq_step; eauto. apply seqinv_reach, R.
Qed.
