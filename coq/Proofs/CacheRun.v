(* Invariants along whole histories (including Resize), the ideal-map theorem, Resize and Clear. *)
From Coq Require Import List Arith Bool Lia.
From TC.Lib Require Import ListAux Assoc AssocProofs.
From TC.Model Require Import Cache CacheGhost.
From TC.Proofs Require Import CacheInv CacheViews CacheFifo.
Import ListNotations.

Section CacheRun.
  Context {K V : Type}.
  Variable keqb : K -> K -> bool.
  Hypothesis keqb_spec : forall x y, reflect (x = y) (keqb x y).

  Notation state := (@state K V).
  Notation ghost := (@ghost K).
  Notation label := (@label K V).
  Notation amap := (@amap K).
  Notation lookup := (lookup keqb).
  Notation upsert := (upsert keqb).
  Notation set := (set keqb).
  Notation delete := (delete keqb).
  Notation get := (get keqb).
  Notation Inv := (Inv keqb).
  Notation GInv := (GInv keqb).
  Notation gset := (gset keqb).
  Notation gexec := (gexec keqb).
  Notation grun := (grun keqb).
  Notation exec := (exec keqb).
  Notation run := (run keqb).
  Notation resize := (resize keqb).
  Notation replay := (replay keqb).
  Notation greplay := (greplay keqb).
  Notation greplay_part := (greplay_part keqb).
  Ltac sproj := cbn [parts next cur index P C with_parts with_index open_part sweep
                     born clock n_ins ins_cur tick ghost0].

  Definition lvalid (l : label) : Prop :=
    match l with LResize (p, c) _ => 1 <= p /\ 1 <= c | _ => True end.

  (* P and C are only changed by Resize *)
  Lemma set_PC (s : state) k v : P (set s k v) = P s /\ C (set s k v) = C s.
  Proof.
    unfold Cache.set, Cache.fresh.
    destruct (lookup k (index s)) as [id|]; [destruct (peek id (parts s))|]; try (split; reflexivity);
      destruct (room s); sproj;
      match goal with |- context [peek ?a ?b] => destruct (peek a b) end; split; reflexivity.
  Qed.

  (* ---- the ghost does not influence the state ---- *)
  Lemma greplay_part_fst (sg : state * ghost) (old : amap V) ks :
    fst (greplay_part sg old ks) = replay_part keqb (fst sg) old ks.
  Proof.
    unfold CacheGhost.greplay_part, replay_part.
    assert (Hf : forall ks sg,
               fst (fold_left (fun '(s, g) k => match lookup k old with
                                                | Some v => (set s k v, gset s g k)
                                                | None => (s, g) end) ks sg)
               = fold_left (fun s k => match lookup k old with Some v => set s k v | None => s end) ks (fst sg)).
    { clear. induction ks as [|k t IH]; intros [s g]; simpl; [reflexivity|].
      rewrite IH. destruct (lookup k old); reflexivity. }
    specialize (Hf ks sg).
    destruct (fold_left _ ks sg) as [s1 g1]. simpl in *. rewrite Hf. reflexivity.
  Qed.

  Lemma greplay_fst (olds : list (nat * amap V)) : forall (sg : state * ghost) order, fst (greplay sg olds order) = replay (fst sg) olds order.
  Proof.
    induction olds as [|[i old] t IH]; intros sg order; simpl; [destruct order; reflexivity|].
    destruct order as [|ks order']; rewrite IH, greplay_part_fst; reflexivity.
  Qed.

  Lemma gexec_fst (s : state) (g : ghost) (l : label) : fst (gexec (s, g) l) = exec s l.
  Proof.
    destruct l as [k v|k|k|k| | | | | | |[p c] order]; try reflexivity.
    unfold Cache.exec. simpl. unfold Cache.resize.
    destruct ((p =? P s) && (c =? C s)); [reflexivity|]. apply greplay_fst.
  Qed.

  Lemma grun_fst (h : list label) : forall (s : state) (g : ghost), fst (grun (s, g) h) = run s h.
  Proof.
    induction h as [|l t IH]; intros s g; [reflexivity|].
    change (grun (s, g) (l :: t)) with (grun (gexec (s, g) l) t).
    change (run s (l :: t)) with (run (exec s l) t).
    rewrite <- (gexec_fst s g l). destruct (gexec (s, g) l) as [s' g']. apply IH.
  Qed.

  (* ---- both invariants along every history ---- *)
  Definition Both (sg : state * ghost) : Prop := Inv (fst sg) /\ GInv (fst sg) (snd sg).

  Lemma Both_set (s : state) (g : ghost) k v : Both (s, g) -> Both (set s k v, gset s g k).
  Proof. intros [H G]. split; simpl; [apply Inv_set|apply GInv_set]; assumption. Qed.

  Lemma Both_sweep (s : state) (g : ghost) : Both (s, g) -> Both (sweep s, tick g).
  Proof. intros [H G]. split; simpl; [apply Inv_sweep|apply GInv_sweep]; assumption. Qed.

  Lemma Both_replay_part (sg : state * ghost) (old : amap V) ks : Both sg -> Both (greplay_part sg old ks).
  Proof.
    intros HB. unfold CacheGhost.greplay_part.
    assert (Hf : forall ks sg, Both sg ->
               Both (fold_left (fun '(s, g) k => match lookup k old with
                                                 | Some v => (set s k v, gset s g k)
                                                 | None => (s, g) end) ks sg)).
    { clear ks sg HB. induction ks as [|k t IH]; intros [s g] HB; simpl; [exact HB|].
      apply IH. destruct (lookup k old); [apply Both_set|]; exact HB. }
    specialize (Hf ks sg HB). destruct (fold_left _ ks sg) as [s1 g1]. apply Both_sweep. exact Hf.
  Qed.

  Lemma Both_replay (olds : list (nat * amap V)) : forall (sg : state * ghost) order, Both sg -> Both (greplay sg olds order).
  Proof.
    induction olds as [|[i old] t IH]; intros sg order HB; simpl; [destruct order; exact HB|].
    destruct order as [|ks order']; apply IH, Both_replay_part; exact HB.
  Qed.

  Lemma Both_gexec (s : state) (g : ghost) (l : label) : Both (s, g) -> lvalid l -> Both (gexec (s, g) l).
  Proof.
    intros [H G] Hv. simpl in H, G.
    destruct l as [k v|k|k|k| | | | | | |[p c] order]; simpl;
      try (split; simpl; [exact H|apply GInv_tick; exact G]).
    - apply Both_set. split; assumption.
    - split; simpl; [apply Inv_delete|apply GInv_delete]; assumption.
    - apply Both_sweep. split; assumption.
    - split; simpl; [apply Inv_clear; exact H|]. destruct (inv_pc keqb s H). apply GInv_clear_with. assumption.
    - destruct ((p =? P s) && (c =? C s)); [split; simpl; [exact H|apply GInv_tick; exact G]|].
      destruct Hv as [Hp Hc]. apply Both_replay. split; simpl; [apply Inv_clear_with|apply GInv_clear_with]; assumption.
  Qed.

  Lemma Both_grun (h : list label) : forall (sg : state * ghost), Both sg -> Forall lvalid h -> Both (grun sg h).
  Proof.
    induction h as [|l t IH]; intros [s g] HB Hv; [exact HB|].
    change (grun (s, g) (l :: t)) with (grun (gexec (s, g) l) t).
    inversion Hv; subst. apply IH; [apply Both_gexec|]; assumption.
  Qed.

  Theorem Inv_run p c (h : list label) : 1 <= p -> 1 <= c -> Forall lvalid h -> Inv (run (init p c) h).
  Proof.
    intros Hp Hc Hv. rewrite <- (grun_fst h (init p c) (ghost0 0)).
    apply (Both_grun h (init p c, ghost0 0)); [|exact Hv].
    split; simpl; [apply Inv_init; assumption|apply GInv_init].
  Qed.

  (* ---- Inv through a replay (no ghost needed) ---- *)
  Lemma Inv_replay_part (t : state) (old : amap V) ks : Inv t -> Inv (replay_part keqb t old ks).
  Proof.
    intros H. unfold replay_part. apply Inv_sweep.
    revert t H. induction ks as [|k r IH]; intros t H; simpl; [exact H|].
    apply IH. destruct (lookup k old); [apply Inv_set|]; assumption.
  Qed.

  Lemma Inv_replay (olds : list (nat * amap V)) : forall (t : state) order, Inv t -> Inv (replay t olds order).
  Proof.
    induction olds as [|[i old] r IH]; intros t order H; simpl; [destruct order; exact H|].
    destruct order as [|ks order']; apply IH, Inv_replay_part; exact H.
  Qed.

  Lemma Inv_exec (s : state) (l : label) : Inv s -> lvalid l -> Inv (exec s l).
  Proof.
    intros H Hv. destruct l as [k v|k|k|k| | | | | | |[p c] order]; unfold Cache.exec; simpl; try exact H.
    - apply Inv_set; assumption.
    - apply Inv_delete; assumption.
    - apply Inv_sweep; assumption.
    - apply Inv_clear; assumption.
    - unfold Cache.resize. destruct ((p =? P s) && (c =? C s)); [exact H|].
      destruct Hv. apply Inv_replay, Inv_clear_with; assumption.
  Qed.

  (* ---- everything visible after a replay was replayed with its old value ---- *)
  Lemma get_replay_part (Q : K -> V -> Prop) (t : state) (old : amap V) ks :
    Inv t ->
    (forall k v, lookup k old = Some v -> Q k v) ->
    (forall k v, get t k = Some v -> Q k v) ->
    forall k v, get (replay_part keqb t old ks) k = Some v -> Q k v.
  Proof.
    intros H Hold Ht k v Hg. unfold replay_part in Hg.
    assert (Hf : forall ks t, Inv t -> (forall k v, get t k = Some v -> Q k v) ->
              let t' := fold_left (fun s k => match lookup k old with Some v => set s k v | None => s end) ks t in
              Inv t' /\ forall k v, get t' k = Some v -> Q k v).
    { clear ks t H Ht k v Hg. induction ks as [|k0 r IH]; intros t H Ht; simpl; [auto|].
      apply IH.
      - destruct (lookup k0 old); [apply Inv_set|]; assumption.
      - destruct (lookup k0 old) as [v0|] eqn:E; [|exact Ht].
        intros k v. rewrite get_set by assumption.
        destruct (keqb_spec k k0) as [->|Hne]; [intros [= <-]; apply Hold; exact E|apply Ht]. }
    destruct (Hf ks t H Ht) as [H' Ht']. apply Ht'. apply get_sweep; assumption.
  Qed.

  Lemma get_replay (Q : K -> V -> Prop) (olds : list (nat * amap V)) :
    forall (t : state) order, Inv t ->
    (forall i old k v, In (i, old) olds -> lookup k old = Some v -> Q k v) ->
    (forall k v, get t k = Some v -> Q k v) ->
    forall k v, get (replay t olds order) k = Some v -> Q k v.
  Proof.
    induction olds as [|[i old] r IH]; intros t order H Hold Ht; simpl; [destruct order; exact Ht|].
    assert (Hold' : forall i0 old0 k v, In (i0, old0) r -> lookup k old0 = Some v -> Q k v)
      by (intros i0 old0 k v Hin; apply (Hold i0 old0 k v); right; exact Hin).
    assert (Hthis : forall k v, lookup k old = Some v -> Q k v)
      by (intros k v; apply (Hold i old k v); left; reflexivity).
    destruct order as [|ks order']; (apply IH; [apply Inv_replay_part; exact H|exact Hold'|]);
      apply get_replay_part; assumption.
  Qed.

  Lemma part_get (s : state) i old k v : Inv s -> In (i, old) (parts s) -> lookup k old = Some v -> get s k = Some v.
  Proof.
    intros H Hin Hl. apply In_peek in Hin; [|apply (Inv_nodup_ids keqb s H)].
    unfold Cache.get. rewrite (inv_idx keqb s H _ _ k Hin) by (eapply lookup_In_keys; eauto).
    rewrite Hin. exact Hl.
  Qed.

  (* C13: every entry that survives a Resize keeps its value; no entry appears from nowhere *)
  Theorem get_resize_sub (s : state) p c order k v :
    Inv s -> 1 <= p -> 1 <= c -> get (resize s (p, c) order) k = Some v -> get s k = Some v.
  Proof.
    intros H Hp Hc. unfold Cache.resize. destruct ((p =? P s) && (c =? C s)) eqn:E; [auto|].
    apply (get_replay (fun k v => get s k = Some v) (parts s) (clear_with p c) order).
    - apply Inv_clear_with; assumption.
    - intros i old k0 v0. apply part_get. exact H.
    - intros k0 v0. discriminate.
  Qed.

  (* ---- C01: the cache is a map that may forget ---- *)
  Definition ideal_step (f : K -> option V) (l : label) : K -> option V :=
    match l with
    | LSet k v => fun k' => if keqb k' k then Some v else f k'
    | LDelete k => fun k' => if keqb k' k then None else f k'
    | LClear => fun _ => None
    | _ => f
    end.
  Definition ideal (h : list label) : K -> option V := fold_left ideal_step h (fun _ => None).

  Lemma forgetful_step (s : state) (f : K -> option V) (l : label) :
    Inv s -> lvalid l ->
    (forall k v, get s k = Some v -> f k = Some v) ->
    forall k v, get (exec s l) k = Some v -> ideal_step f l k = Some v.
  Proof.
    intros H Hv Hf k v.
    destruct l as [k0 v0|k0|k0|k0| | | | | | |[p c] order]; unfold Cache.exec; simpl; try apply Hf.
    - rewrite get_set by assumption. destruct (keqb k k0); [auto|apply Hf].
    - rewrite get_delete by assumption. destruct (keqb k k0); [discriminate|apply Hf].
    - intros Hg. apply Hf. apply get_sweep; assumption.
    - discriminate.
    - intros Hg. apply Hf. destruct Hv as [Hp Hc]. exact (get_resize_sub s p c order k v H Hp Hc Hg).
  Qed.

  Theorem forgetful_map p c (h : list label) :
    1 <= p -> 1 <= c -> Forall lvalid h ->
    forall k v, get (run (init p c) h) k = Some v -> ideal h k = Some v.
  Proof.
    intros Hp Hc. unfold ideal, Cache.run.
    assert (Hgen : forall h (s : state) f, Inv s -> (forall k v, get s k = Some v -> f k = Some v) -> Forall lvalid h ->
               forall k v, get (fold_left exec h s) k = Some v -> fold_left ideal_step h f k = Some v).
    { clear h. induction h as [|l t IH]; intros s f H Hf Hv; simpl; [exact Hf|].
      inversion Hv; subst. apply IH; [apply Inv_exec; assumption| |assumption].
      apply forgetful_step; assumption. }
    intros Hv. apply Hgen; [apply Inv_init; assumption| |exact Hv]. intros k v. discriminate.
  Qed.

  (* a key that is absent stays absent until it is Set again *)
  Theorem absent_stays (s : state) (l : label) k :
    Inv s -> lvalid l -> (forall v, l <> LSet k v) -> get s k = None -> get (exec s l) k = None.
  Proof.
    intros H Hv Hns Hg.
    destruct l as [k0 v0|k0|k0|k0| | | | | | |[p c] order]; unfold Cache.exec; simpl; try exact Hg.
    - rewrite get_set by assumption. destruct (keqb_spec k k0) as [->|Hne]; [|exact Hg].
      exfalso. apply (Hns v0). reflexivity.
    - rewrite get_delete by assumption. destruct (keqb k k0); [reflexivity|exact Hg].
    - destruct (get (sweep s) k) as [v|] eqn:E; [|reflexivity].
      apply get_sweep in E; [congruence|assumption].
    - reflexivity.
    - change (get (resize s (p, c) order) k = None).
      destruct (get (resize s (p, c) order) k) as [v|] eqn:E; [|reflexivity].
      destruct Hv as [Hp Hc]. pose proof (get_resize_sub s p c order k v H Hp Hc E). congruence.
  Qed.

End CacheRun.
