(* Proofs about Model/SafeMap.v: the sequential model is a map (agrees with the reference function
   K -> option V on every operation sequence); the concurrent object is linearisable w.r.t. the sequential
   model (fixed linearisation points); GetOrAdd has one winner per key; the object respects its declared
   section structure. *)
From Coq Require Import List Bool Arith Lia String.
From TC.Lib Require Import Conc.
From TC.Model Require Import SafeMap.
Import ListNotations.

Section SafeMapProofs.
  Context {K V D : Type}.
  Variable keqb : K -> K -> bool.
  Hypothesis keqb_spec : forall x y, reflect (x = y) (keqb x y).
  Variable zero : V.

  Notation lookup := (@SafeMap.lookup K V keqb).
  Notation remove := (@SafeMap.remove K V keqb).
  Notation set := (@SafeMap.set K V keqb).
  Notation smap := (@smap K V).
  Notation op := (op K V D).
  Notation ret := (ret K V D).
  Notation step := (@step K V D keqb zero).
  Notation run := (@run K V D keqb zero).
  Notation ref_step := (@ref_step K V D keqb).
  Notation ret_ok := (@ret_ok K V D zero).
  Notation ref_run := (@ref_run K V D keqb zero).

  Lemma keqb_refl k : keqb k k = true.
  Proof. destruct (keqb_spec k k); [reflexivity|contradiction]. Qed.
  Lemma keqb_neq a b : a <> b -> keqb a b = false.
  Proof. intros H. destruct (keqb_spec a b); [contradiction|reflexivity]. Qed.

  Definition wf (m : smap) : Prop := NoDup (map fst m).
  Definition abs (m : smap) : @fmap K V := fun k => lookup k m.

  Lemma lookup_remove_same k m : lookup k (remove k m) = None.
  Proof.
    induction m as [|[k' v] t IH]; simpl; [reflexivity|].
    destruct (keqb k k') eqn:E; [exact IH|]. simpl. now rewrite E.
  Qed.
  Lemma lookup_remove_other k k' m : k' <> k -> lookup k' (remove k m) = lookup k' m.
  Proof.
    intros Hn. induction m as [|[k2 v] t IH]; simpl; [reflexivity|].
    destruct (keqb_spec k k2) as [<-|N].
    - rewrite IH. now rewrite keqb_neq.
    - simpl. now rewrite IH.
  Qed.
  Lemma lookup_remove k k' m : lookup k' (remove k m) = if keqb k' k then None else lookup k' m.
  Proof.
    destruct (keqb_spec k' k) as [->|N]; [apply lookup_remove_same|now apply lookup_remove_other].
  Qed.
  Lemma lookup_set k v k' m : lookup k' (set k v m) = if keqb k' k then Some v else lookup k' m.
  Proof.
    unfold SafeMap.set. simpl. destruct (keqb_spec k' k) as [->|N]; [reflexivity|now apply lookup_remove_other].
  Qed.

  Lemma In_remove x k m : In x (remove k m) -> In x m.
  Proof.
    induction m as [|[k' v] t IH]; simpl; [auto|]. destruct (keqb k k'); [auto|]. intros [H|H]; auto.
  Qed.
  Lemma In_keys_remove x k m : In x (map fst (remove k m)) -> In x (map fst m) /\ x <> k.
  Proof.
    induction m as [|[k' v] t IH]; simpl; [tauto|].
    destruct (keqb_spec k k') as [<-|N]; simpl.
    - intros H. destruct (IH H). auto.
    - intros [<-|H]; [split; auto|]. destruct (IH H). auto.
  Qed.
  Lemma wf_remove k m : wf m -> wf (remove k m).
  Proof.
    unfold wf. induction m as [|[k' v] t IH]; simpl; [auto|]. intros H. inversion H as [|? ? Hn Ht]; subst.
    destruct (keqb k k'); [auto|]. simpl. constructor; [|auto]. intros Hin. apply In_keys_remove in Hin. tauto.
  Qed.
  Lemma wf_set k v m : wf m -> wf (set k v m).
  Proof.
    intros H. unfold wf, SafeMap.set. simpl. constructor; [|now apply wf_remove].
    intros Hin. apply In_keys_remove in Hin. tauto.
  Qed.

  Lemma lookup_In k v m : lookup k m = Some v -> In (k, v) m.
  Proof.
    induction m as [|[k' v'] t IH]; simpl; [discriminate|].
    destruct (keqb_spec k k') as [<-|N]; [intros [= ->]; now left|auto].
  Qed.
  Lemma In_lookup k v m : wf m -> In (k, v) m -> lookup k m = Some v.
  Proof.
    unfold wf. induction m as [|[k' v'] t IH]; simpl; [contradiction|]. intros H. inversion H as [|? ? Hn Ht]; subst.
    intros [[= -> ->]|Hin]; [now rewrite keqb_refl|].
    destruct (keqb_spec k k') as [<-|N]; [|auto]. exfalso. apply Hn. apply (in_map fst) in Hin. exact Hin.
  Qed.
  Lemma keys_lookup k m : In k (map fst m) <-> lookup k m <> None.
  Proof.
    induction m as [|[k' v'] t IH]; simpl; [tauto|].
    destruct (keqb_spec k k') as [<-|N]; [split; [discriminate|auto]|].
    rewrite <- IH. split; [intros [E|H]; [congruence|exact H]|auto].
  Qed.

  Lemma dom_abs m : wf m -> dom_of (abs m) (map fst m).
  Proof. intros H. split; [exact H|]. intros k. apply keys_lookup. Qed.

  Lemma vals_abs m : wf m -> Forall2 (fun k v => abs m k = Some v) (map fst m) (map snd m).
  Proof.
    intros H. assert (G : forall l, (forall x, In x l -> In x m) ->
                 Forall2 (fun k v => abs m k = Some v) (map fst l) (map snd l)).
    { induction l as [|[k v] t IH]; intros Hs; simpl; constructor.
      - apply In_lookup; [exact H|]. apply Hs. now left.
      - apply IH. intros x Hx. apply Hs. now right. }
    apply G. auto.
  Qed.

  (* one step: well-formedness is kept, the abstraction follows the reference map, the result is right *)
  Lemma seq_step_ok m o :
    wf m ->
    wf (fst (step m o)) /\ (forall k, abs (fst (step m o)) k = ref_step (abs m) o k)
    /\ ret_ok (abs m) o (snd (step m o)).
  Proof.
    intros Hw. destruct o; simpl; unfold abs; try (split; [assumption|split; [reflexivity|reflexivity]]).
    - (* GetOrAdd *)
      destruct (lookup k m) as [x|] eqn:E; simpl.
      + split; [assumption|]. split; [|reflexivity]. reflexivity.
      + split; [now apply wf_set|]. split; [|reflexivity]. intros k'. apply lookup_set.
    - split; [now apply wf_set|]. split; [|reflexivity]. intros k'. apply lookup_set.
    - split; [now apply wf_remove|]. split; [|reflexivity]. intros k'. apply lookup_remove.
    - split; [constructor|]. split; reflexivity.
    - split; [constructor|]. split; reflexivity.
    - (* Len *) split; [assumption|]. split; [reflexivity|]. exists (map fst m). split; [now apply dom_abs|].
      now rewrite map_length.
    - (* Keys *) split; [assumption|]. split; [reflexivity|]. exists (map fst m). split; [now apply dom_abs|reflexivity].
    - (* Values *) split; [assumption|]. split; [reflexivity|]. exists (map fst m), (map snd m).
      split; [now apply dom_abs|]. split; [now apply vals_abs|reflexivity].
    - (* CopyToMap *) split; [assumption|]. split; [reflexivity|]. exists m. split; [exact Hw|]. split; [|reflexivity].
      intros k v. split; [now apply In_lookup|apply lookup_In].
    - (* TranslateToMapOf *) split; [assumption|]. split; [reflexivity|].
      exists (map (fun kv => (fst kv, f (snd kv))) m). split; [|split; [|reflexivity]].
      + rewrite map_map. simpl. exact Hw.
      + intros k d. rewrite in_map_iff. split.
        * intros ([k' v] & [= <- <-] & Hin). exists v. split; [now apply In_lookup|reflexivity].
        * intros (v & Hl & ->). exists (k, v). split; [reflexivity|now apply lookup_In].
  Qed.

  Lemma run_is_map ops : forall m, wf m -> ref_run (abs m) ops (run m ops).
  Proof.
    induction ops as [|o t IH]; intros m Hw; simpl; [constructor|].
    destruct (seq_step_ok m o Hw) as (Hw' & Habs & Hret).
    destruct (step m o) as [m' r] eqn:E. simpl in *.
    econstructor; [exact Hret|exact Habs|]. now apply IH.
  Qed.

  Theorem safemap_is_map_proof ops : ref_run (fun _ => None) ops (run [] ops).
  Proof. apply (run_is_map ops []). constructor. Qed.

  (* ------------------------------------------------------------------ *)
  (* the concurrent object                                               *)
  (* ------------------------------------------------------------------ *)
  Notation obj := (@safemap_obj K V D keqb zero).
  Notation cstep := (@SafeMap.cstep K V D keqb zero).

  Definition no_lp : Op obj -> Loc obj -> option (Ret obj) := fun _ _ => None.
  Definition local_inv (o : Op obj) (l : Loc obj) : Prop := op_of_local l = o.

  Lemma safemap_step_ok (s : St obj) (o : Op obj) (l : Loc obj) :
    True -> local_inv o l ->
    Conc.step_ok obj smap (fun m o => step m o) (fun m => m) no_lp (fun _ => True) local_inv s o l.
  Proof.
    intros _ HL. unfold Conc.step_ok, no_lp, local_inv in *. simpl in *.
    destruct l as [o'|k v]; simpl in HL; subst o.
    - destruct o'; simpl; try (split; [exact I|reflexivity]).
      (* GetOrAdd, first section *)
      destruct (lookup k s) as [x|] eqn:E; simpl.
      + split; [exact I|]. reflexivity.
      + split; [exact I|]. split; [reflexivity|]. left. split; reflexivity.
    - simpl. destruct (lookup k s) as [x|] eqn:E; simpl; (split; [exact I|]); reflexivity.
  Qed.

  Theorem safemap_linearizable_proof (m0 : smap) :
    linearizable obj smap (fun m o => step m o) m0 m0.
  Proof.
    apply (fixed_lp_linearizable obj smap (fun m o => step m o) (fun m => m) no_lp (fun _ => True) local_inv).
    - intros o. split; reflexivity.
    - intros s o l HI HL. now apply safemap_step_ok.
    - exact I.
  Qed.

  (* running one call alone is the sequential step: at most two sections *)
  Lemma solo_is_step (m : smap) (o : op) (t : tid) :
    exists n, n <= 2 /\
      Conc.run obj (m, []) (@Call obj t o :: repeat (@Step obj t) n)
      = Some ((fst (step m o), []), [Inv t o; Res t o (snd (step m o))]).
  Proof.
    destruct o; try (exists 1; split; [lia|]; simpl; repeat (rewrite Nat.eqb_refl; simpl); reflexivity).
    simpl. destruct (lookup k m) as [x|] eqn:E.
    - exists 1. split; [lia|]. simpl. repeat (rewrite ?Nat.eqb_refl, ?E; simpl). reflexivity.
    - exists 2. split; [lia|]. simpl. repeat (rewrite ?Nat.eqb_refl, ?E; simpl). reflexivity.
  Qed.

  (* the object respects the declared section structure [sections_of]: the i-th step of an invocation
     exists in the declaration; a section declared non-writing leaves the shared state unchanged; the outcome
     (result or continuation) of a section declared non-reading does not depend on the shared state; a step that
     continues moves to the next declared section of the same operation *)
  Lemma model_respects_sections (m : smap) (l : local K V D) :
    exists md rd w, nth_error (sections_of (op_of_local l)) (section_index l) = Some (md, rd, w)
      /\ (w = false -> fst (cstep m l) = m)
      /\ (rd = false -> forall m2, snd (cstep m2 l) = snd (cstep m l))
      /\ (md = Rd <-> w = false)
      /\ (forall l', snd (cstep m l) = inl l' ->
            op_of_local l' = op_of_local l /\ section_index l' = S (section_index l)).
  Proof.
    destruct l as [o|k v]; simpl.
    - destruct o; simpl;
        try (eexists _, _, _; split; [reflexivity|]; split; [intros _; reflexivity|]; split; [discriminate|];
             split; [tauto|]; intros l'; discriminate);
        try (eexists _, _, _; split; [reflexivity|]; split; [discriminate|]; split; [intros _ m2; reflexivity|];
             split; [split; discriminate|]; intros l'; discriminate).
      eexists _, _, _. split; [reflexivity|]. split; [|split; [discriminate|split; [tauto|]]].
      + intros _. destruct (lookup k m); reflexivity.
      + intros l'. destruct (lookup k m); [discriminate|]. intros [= <-]. split; reflexivity.
    - eexists _, _, _. split; [reflexivity|]. split; [discriminate|]. split; [discriminate|]. split; [split; discriminate|].
      intros l'. destruct (lookup k m); discriminate.
  Qed.

  (* ------------------------------------------------------------------ *)
  (* GetOrAdd: one winner per key                                        *)
  (* ------------------------------------------------------------------ *)
  (* operations that can remove or replace the value stored under k *)
  Definition touches (k : K) (o : op) : bool :=
    match o with
    | OSet k' _ | ODelete k' => keqb k' k
    | OClear | OClearAndResize _ => true
    | _ => false
    end.

  Lemma In_pupdate {X} t (x : X) p e : In e (pupdate t x p) -> e = (t, x) \/ In e p.
  Proof.
    induction p as [|[t' y] q IH]; simpl; [tauto|].
    destruct (Nat.eqb t t'); simpl; intros [H|H]; auto. destruct (IH H); auto.
  Qed.
  Lemma In_premove {X} t p (e : tid * X) : In e (premove t p) -> In e p.
  Proof.
    induction p as [|[t' y] q IH]; simpl; [tauto|].
    destruct (Nat.eqb t t'); simpl; [auto|]. intros [H|H]; auto.
  Qed.

  Section OneWinner.
    Variable m0 : smap.
    Variable k : K.

    Definition offered (evs : list (event op ret)) (w : V) : Prop :=
      lookup k m0 = Some w \/ exists t, In (Inv t (OGetOrAdd k w)) evs.

    Definition winner_inv (c : conf obj) (evs : list (event op ret)) : Prop :=
      (forall t o l, In (t, (o, l)) (snd c) -> In (Inv t o) evs /\ op_of_local l = o) /\
      match lookup k (fst c) with
      | Some w => (forall t v r, In (Res t (OGetOrAdd k v) r) evs -> r = RVal w) /\ offered evs w
      | None => forall t v r, ~ In (Res t (OGetOrAdd k v) r) evs
      end.

    Definition quiet (evs : list (event op ret)) : Prop :=
      forall t o, In (Inv t o) evs -> touches k o = false.

    Lemma untouched_step m o : touches k o = false -> (forall k' v, o <> OGetOrAdd k' v) ->
      lookup k (fst (step m o)) = lookup k m.
    Proof.
      intros Ht Hn. destruct o; simpl in *; try reflexivity.
      - exfalso. eapply Hn. reflexivity.
      - destruct (keqb_spec k k0) as [->|N]; [now rewrite keqb_refl in Ht|now apply lookup_remove_other].
      - rewrite lookup_remove. destruct (keqb_spec k k0) as [->|N]; [now rewrite keqb_refl in Ht|reflexivity].
      - discriminate.
      - discriminate.
    Qed.

    Lemma offered_mono evs e w : offered evs w -> offered (evs ++ e) w.
    Proof. intros [H|(t & H)]; [now left|right; exists t; apply in_or_app; now left]. Qed.

    Lemma goa_dec (o : op) : (exists v, o = OGetOrAdd k v) \/ (forall v, o <> OGetOrAdd k v).
    Proof.
      destruct o; try (right; intros; discriminate).
      destruct (keqb_spec k k0) as [<-|N]; [left; eauto|right; intros v' [= E _]; congruence].
    Qed.

    (* what one atomic step of an invocation that does not "touch" k can do to the entry of k *)
    Lemma cstep_k (s : smap) (l : local K V D) :
      touches k (op_of_local l) = false ->
      (forall l', snd (cstep s l) = inl l' -> fst (cstep s l) = s /\ op_of_local l' = op_of_local l) /\
      (forall r v, snd (cstep s l) = inr r -> op_of_local l = OGetOrAdd k v ->
         exists w, r = RVal w /\ lookup k (fst (cstep s l)) = Some w /\
                   (lookup k s = Some w \/ (lookup k s = None /\ w = v))) /\
      (forall r, snd (cstep s l) = inr r -> (forall v, op_of_local l <> OGetOrAdd k v) ->
         lookup k (fst (cstep s l)) = lookup k s).
    Proof.
      intros Ht. destruct l as [o|k0 v0]; simpl in Ht.
      - destruct (match o with OGetOrAdd _ _ => true | _ => false end) eqn:Eg.
        + destruct o; try discriminate. simpl. destruct (lookup k0 s) as [x|] eqn:E0; simpl.
          * split; [intros; discriminate|]. split.
            -- intros r v1 [= <-] [= -> ->]. exists x. auto.
            -- reflexivity.
          * split; [intros l' [= <-]; auto|]. split; intros; discriminate.
        + assert (Hne : forall k' v, o <> OGetOrAdd k' v) by (intros k' v ->; discriminate).
          assert (Hc : cstep s (LStart o) = (fst (step s o), inr (snd (step s o)))).
          { destruct o; try discriminate; reflexivity. }
          rewrite Hc. simpl. split; [intros; discriminate|]. split.
          * intros r v _ E. exfalso. eapply Hne. exact E.
          * intros r _ _. now apply untouched_step.
      - simpl. destruct (lookup k0 s) as [x|] eqn:E0; simpl.
        + split; [intros; discriminate|]. split.
          * intros r v1 [= <-] [= -> ->]. exists x. auto.
          * reflexivity.
        + split; [intros; discriminate|]. split.
          * intros r v1 [= <-] [= -> ->]. exists v1. split; [reflexivity|]. split; [|now right].
            now rewrite keqb_refl.
          * intros r _ Hne. destruct (keqb_spec k k0) as [<-|N]; [|now apply lookup_remove_other].
            exfalso. eapply Hne. reflexivity.
    Qed.

    Lemma winner_step c evs lab c' e :
      (quiet (evs ++ e) -> quiet evs -> winner_inv c evs) ->
      Conc.cstep obj c lab = Some (c', e) -> quiet (evs ++ e) -> winner_inv c' (evs ++ e).
    Proof.
      intros Hinv Hs Hq.
      assert (Hq0 : quiet evs) by (intros t o Hin; apply (Hq t o); apply in_or_app; now left).
      specialize (Hinv Hq Hq0). destruct c as [s pool]. destruct Hinv as [Hpool Hk]. simpl in Hpool, Hk.
      destruct lab as [t o|t].
      - (* Call *)
        apply cstep_call_inv in Hs as (Hnone & -> & ->). split; simpl.
        + intros t' o' l' [[= <- <- <-]|Hin].
          * split; [apply in_or_app; right; now left|reflexivity].
          * destruct (Hpool _ _ _ Hin). split; [apply in_or_app; now left|assumption].
        + destruct (lookup k s) as [w|].
          * destruct Hk as [Hr Ho]. split; [|now apply offered_mono].
            intros t' v r Hin. apply in_app_or in Hin as [Hin|[Hin|[]]]; [eauto|discriminate].
          * intros t' v r Hin. apply in_app_or in Hin as [Hin|[Hin|[]]]; [eapply Hk; eauto|discriminate].
      - (* Step *)
        apply cstep_step_inv in Hs as (o & l & El & Hcase).
        apply plookup_In in El. destruct (Hpool _ _ _ El) as [Hinv_o Hop].
        pose proof (Hq0 _ _ Hinv_o) as Hto. rewrite <- Hop in Hto.
        destruct (cstep_k s l Hto) as (F1 & F2 & F3).
        destruct c' as [s' pool']. simpl in Hcase.
        change (ostep obj s l) with (cstep s l) in Hcase.
        destruct Hcase as [(l' & Hst & [= ->] & ->)|(r & Hst & [= ->] & ->)].
        + (* continues: nothing visible happens *)
          rewrite Hst in F1. simpl in F1. destruct (F1 l' eq_refl) as [-> Hop'].
          rewrite app_nil_r. split; simpl; [|exact Hk].
          intros t' o' l2 Hin. apply In_pupdate in Hin as [[= <- <- <-]|Hin]; [|exact (Hpool _ _ _ Hin)].
          split; [assumption|congruence].
        + (* returns *)
          rewrite Hst in F2, F3. simpl in F2, F3. split; simpl.
          * intros t' o' l2 Hin. apply In_premove in Hin. destruct (Hpool _ _ _ Hin).
            split; [apply in_or_app; now left|assumption].
          * destruct (goa_dec o) as [(v & ->)|Hne].
            -- destruct (F2 r v eq_refl Hop) as (w & -> & Hl' & Hold). rewrite Hl'.
               destruct Hold as [Hold|[Hold ->]]; rewrite Hold in Hk.
               ++ destruct Hk as [Hr Ho]. split; [|now apply offered_mono].
                  intros t' v' r' Hin. apply in_app_or in Hin as [Hin|[Hin|[]]]; [eauto|].
                  injection Hin as _ _ <-. reflexivity.
               ++ split.
                  ** intros t' v' r' Hin. apply in_app_or in Hin as [Hin|[Hin|[]]]; [exfalso; eapply Hk; eauto|].
                     injection Hin as _ _ <-. reflexivity.
                  ** right. exists t. apply in_or_app. now left.
            -- rewrite (F3 r eq_refl) by (rewrite Hop; exact Hne).
               destruct (lookup k s) as [w|].
               ++ destruct Hk as [Hr Ho]. split; [|now apply offered_mono].
                  intros t' v r' Hin. apply in_app_or in Hin as [Hin|[Hin|[]]]; [eauto|].
                  injection Hin as _ E _. exfalso. eapply Hne. exact E.
               ++ intros t' v r' Hin. apply in_app_or in Hin as [Hin|[Hin|[]]]; [eapply Hk; eauto|].
                  injection Hin as _ E _. eapply Hne. exact E.
    Qed.

    Lemma winner_run labels c evs :
      Conc.run obj (m0, []) labels = Some (c, evs) -> quiet evs -> winner_inv c evs.
    Proof.
      intros Hr.
      assert (Hstep : forall c evs lab c' e, (quiet evs -> winner_inv c evs) ->
                Conc.cstep obj c lab = Some (c', e) -> quiet (evs ++ e) -> winner_inv c' (evs ++ e)).
      { intros c0 evs0 lab c1 e HP Hs Hq. eapply winner_step; eauto. }
      assert (Hinit : quiet [] -> winner_inv (m0, []) []).
      { intros _. split; simpl; [contradiction|].
        destruct (lookup k m0) as [w|] eqn:E; [split; [contradiction|now left]|auto]. }
      exact (run_invariant obj (fun c evs => quiet evs -> winner_inv c evs) Hstep labels (m0, []) [] c evs Hinit Hr).
    Qed.

    (* If no Set/Delete/Clear/ClearAndResize touches k anywhere in the history, then under EVERY schedule
       all completed GetOrAdd(k, .) calls return one and the same value, and that value is the one the map
       held initially or one of the offered ones. *)
    Theorem getoradd_one_winner_proof labels c evs :
      Conc.run obj (m0, []) labels = Some (c, evs) -> quiet evs ->
      (forall t1 v1 r1 t2 v2 r2, In (Res t1 (OGetOrAdd k v1) r1) evs -> In (Res t2 (OGetOrAdd k v2) r2) evs -> r1 = r2)
      /\ (forall t v r, In (Res t (OGetOrAdd k v) r) evs -> exists w, r = RVal w /\ offered evs w).
    Proof.
      intros Hr Hq. destruct (winner_run labels c evs Hr Hq) as [_ Hk].
      destruct (lookup k (fst c)) as [w|].
      - destruct Hk as [Hres Ho]. split.
        + intros. rewrite (Hres _ _ _ H), (Hres _ _ _ H0). reflexivity.
        + intros t v r Hin. exists w. split; [eauto|exact Ho].
      - split; intros; exfalso; eapply Hk; eauto.
    Qed.
  End OneWinner.
End SafeMapProofs.
