(* Proofs for Model/Rank.v. *)
From Coq Require Import List Bool ZArith QArith Arith Lia Sorted Permutation.
From TC.Lib Require Import Assoc AssocProofs.
From TC.Model Require Import MapOps Rank.
From TC.Proofs Require Import MapOpsProofs.
Import ListNotations.
Local Open Scope Z_scope.

Lemma Zltb_asym' x y : Z.ltb x y = true -> Z.ltb y x = false.
Proof. rewrite Z.ltb_lt, Z.ltb_ge. lia. Qed.
Lemma Zltb_ntrans' x y z : Z.ltb y x = false -> Z.ltb z y = false -> Z.ltb z x = false.
Proof. rewrite !Z.ltb_ge. lia. Qed.

(* ---------- arithmetic of the two percentile formulas ---------- *)

Lemma Zpos_of_nat_succ n : Zpos (Pos.of_nat (n + 1)) = Z.of_nat (n + 1).
Proof. rewrite Nat.add_1_r, <- Pos.of_nat_succ, Zpos_P_of_succ_nat. lia. Qed.

(* value-based *)
Lemma pct_value_pos v mx : 0 < mx -> pct_value v mx = PQ (Qmake (100 * v) (Z.to_pos mx)).
Proof. intros H. unfold pct_value. destruct (Z.eqb_spec mx 0); [lia|reflexivity]. Qed.

Lemma value_range v mx : 0 <= v <= mx -> 0 < mx ->
  (0 <= Qmake (100 * v) (Z.to_pos mx))%Q /\ (Qmake (100 * v) (Z.to_pos mx) <= 100)%Q.
Proof. intros Hv Hm. unfold Qle. cbn [Qnum Qden]. rewrite Z2Pos.id by lia. lia. Qed.

Lemma value_max mx : 0 < mx -> (Qmake (100 * mx) (Z.to_pos mx) == 100)%Q.
Proof. intros Hm. unfold Qeq. cbn [Qnum Qden]. rewrite Z2Pos.id by lia. lia. Qed.

Lemma value_mono v1 v2 mx : 0 < mx ->
  (v1 <= v2 <-> (Qmake (100 * v1) (Z.to_pos mx) <= Qmake (100 * v2) (Z.to_pos mx))%Q)
  /\ (v1 < v2 <-> (Qmake (100 * v1) (Z.to_pos mx) < Qmake (100 * v2) (Z.to_pos mx))%Q).
Proof. intros Hm. unfold Qle, Qlt. cbn [Qnum Qden]. rewrite Z2Pos.id by lia. split; split; nia. Qed.

(* positional: everything over the common denominator n+1 *)
Definition pos_num (n i : nat) : Z :=
  if Nat.eqb i 0 then 0
  else if Nat.eqb i (n - 1) then 100 * Z.of_nat (n + 1)
  else 100 * Z.of_nat (i + 1).

Lemma pct_pos_eq n i : (pct_pos n i == Qmake (pos_num n i) (Pos.of_nat (n + 1)))%Q.
Proof.
  unfold pct_pos, pos_num. destruct (Nat.eqb i 0); [reflexivity|].
  destruct (Nat.eqb i (n - 1)); [|reflexivity].
  unfold Qeq. cbn [Qnum Qden]. rewrite Zpos_of_nat_succ. lia.
Qed.

Lemma pos_num_range n i : (i < n)%nat -> 0 <= pos_num n i <= 100 * Z.of_nat (n + 1).
Proof.
  intros H. unfold pos_num. destruct (Nat.eqb_spec i 0); [lia|]. destruct (Nat.eqb_spec i (n - 1)); lia.
Qed.

Lemma pos_num_strict n i j : (i < j)%nat -> (j < n)%nat -> pos_num n i < pos_num n j.
Proof.
  intros Hij Hj. unfold pos_num.
  destruct (Nat.eqb_spec i 0); destruct (Nat.eqb_spec j 0); destruct (Nat.eqb_spec i (n - 1));
    destruct (Nat.eqb_spec j (n - 1)); lia.
Qed.

Lemma pct_pos_range n i : (i < n)%nat -> (0 <= pct_pos n i)%Q /\ (pct_pos n i <= 100)%Q.
Proof.
  intros H. rewrite pct_pos_eq. pose proof (pos_num_range n i H). unfold Qle. cbn [Qnum Qden].
  rewrite Zpos_of_nat_succ. lia.
Qed.

Lemma pct_pos_strict n i j : (i < j)%nat -> (j < n)%nat -> (pct_pos n i < pct_pos n j)%Q.
Proof.
  intros Hij Hj. rewrite !pct_pos_eq. pose proof (pos_num_strict n i j Hij Hj). unfold Qlt. cbn [Qnum Qden].
  rewrite Zpos_of_nat_succ. nia.
Qed.

Lemma pct_pos_first n : pct_pos n 0 = 0%Q.
Proof. reflexivity. Qed.

Lemma pct_pos_last n : (2 <= n)%nat -> pct_pos n (n - 1) = 100%Q.
Proof.
  intros H. unfold pct_pos. destruct (Nat.eqb_spec (n - 1) 0); [lia|]. rewrite Nat.eqb_refl. reflexivity.
Qed.

Lemma pct_pos_middle n i : (0 < i)%nat -> (i < n - 1)%nat ->
  pct_pos n i = Qmake (100 * Z.of_nat (i + 1)) (Pos.of_nat (n + 1)).
Proof.
  intros H1 H2. unfold pct_pos. destruct (Nat.eqb_spec i 0); [lia|]. destruct (Nat.eqb_spec i (n - 1)); [lia|reflexivity].
Qed.

Section RankProofs.
  Context {K : Type}.
  Variable keqb : K -> K -> bool.
  Hypothesis keqb_spec : forall x y, reflect (x = y) (keqb x y).
  Notation counts := (@counts K).

  (* ---------- maxV ---------- *)
  Lemma fold_max_ge (it : counts) : forall a,
    a <= fold_left (fun mx e => if mx <? snd e then snd e else mx) it a
    /\ (forall e, In e it -> snd e <= fold_left (fun mx e => if mx <? snd e then snd e else mx) it a)
    /\ (fold_left (fun mx e => if mx <? snd e then snd e else mx) it a = a
        \/ exists e, In e it /\ snd e = fold_left (fun mx e => if mx <? snd e then snd e else mx) it a).
  Proof.
    induction it as [|x t IH]; intros a; simpl.
    - split; [lia|]. split; [intros e []|left; reflexivity].
    - destruct (IH (if a <? snd x then snd x else a)) as [I1 [I2 I3]].
      destruct (Z.ltb_spec a (snd x)) as [L | L].
      + split; [lia|]. split.
        * intros e [<- | He]; [exact I1|apply I2, He].
        * destruct I3 as [E | [e [He E]]]; right; [exists x; auto|exists e; auto].
      + split; [lia|]. split.
        * intros e [<- | He]; [lia|apply I2, He].
        * destruct I3 as [E | [e [He E]]]; [left; exact E|right; exists e; auto].
  Qed.

  Lemma max_count_spec (it : counts) :
    0 <= max_count it
    /\ (forall e, In e it -> snd e <= max_count it)
    /\ (max_count it = 0 \/ exists e, In e it /\ snd e = max_count it).
  Proof. unfold max_count. apply fold_max_ge. Qed.

  (* the maximum does not depend on the iteration order *)
  Lemma max_count_perm (m it : counts) : Permutation m it -> max_count it = max_count m.
  Proof.
    intros P. destruct (max_count_spec it) as [A1 [A2 A3]]. destruct (max_count_spec m) as [B1 [B2 B3]].
    apply Z.le_antisymm.
    - destruct A3 as [E | [e [He E]]]; [lia|]. rewrite <- E. apply B2. apply (Permutation_in _ (Permutation_sym P)), He.
    - destruct B3 as [E | [e [He E]]]; [lia|]. rewrite <- E. apply A2. apply (Permutation_in _ P), He.
  Qed.

  Lemma max_count_positive (m : counts) : (exists e, In e m /\ 0 < snd e) -> 0 < max_count m.
  Proof. intros [e [He Hp]]. destruct (max_count_spec m) as [_ [B2 _]]. specialize (B2 e He). lia. Qed.

  Lemma max_count_zero (m : counts) : (forall e, In e m -> snd e <= 0) -> max_count m = 0.
  Proof.
    intros H. destruct (max_count_spec m) as [B1 [_ [E | [e [He E]]]]]; [exact E|]. specialize (H e He). lia.
  Qed.

  (* ---------- value-based ranking: the result map is exactly k |-> 100 * v_k / max ---------- *)
  Lemma count_of_In (it : counts) k v : NoDup (keys it) -> In (k, v) it -> count_of keqb it k = v.
  Proof. intros Hnd Hin. unfold count_of. rewrite (In_lookup keqb keqb_spec k v it Hnd Hin). reflexivity. Qed.

  Lemma rank_value_perm (m it : counts) sorter :
    NoDup (keys m) -> Permutation m it -> sort_contract (pair_less Z.ltb) sorter -> m <> [] ->
    Permutation (rank_with keqb sorter false it)
                (map (fun e => (fst e, pct_value (snd e) (max_count m))) m).
  Proof.
    intros Hnd P C Hne.
    assert (Hit : it <> []) by (intros ->; apply Permutation_sym, Permutation_nil in P; contradiction).
    assert (Hndit : NoDup (keys it)).
    { eapply Permutation_NoDup; [|exact Hnd]. apply Permutation_map, P. }
    unfold rank_with. destruct it as [|x t] eqn:Eit; [congruence|]. rewrite <- Eit in *. clear Eit x t.
    unfold rank_value_on, sort_keys_with. destruct (C it) as [Ps _].
    rewrite (max_count_perm m it P), map_map.
    eapply Permutation_trans; [|apply Permutation_map, Permutation_sym, P].
    eapply Permutation_trans; [|apply Permutation_map, Ps].
    apply Permutation_refl'. apply map_ext_in. intros [k v] Hin. simpl. f_equal. f_equal.
    apply count_of_In; [exact Hndit|]. apply (Permutation_in _ Ps), Hin.
  Qed.

  (* ---------- positional ranking ---------- *)
  Lemma rank_pos_from_fst n i (l : list K) : map fst (rank_pos_from n i l) = l.
  Proof. revert i. induction l as [|k t IH]; intros i; simpl; [reflexivity|]. rewrite IH. reflexivity. Qed.

  Lemma rank_pos_from_snd n i (l : list K) :
    map snd (rank_pos_from n i l) = map (fun j => PQ (pct_pos n j)) (seq i (length l)).
  Proof. revert i. induction l as [|k t IH]; intros i; simpl; [reflexivity|]. rewrite IH. reflexivity. Qed.

  Lemma rank_pos_from_nth n i (l : list K) j k :
    nth_error l j = Some k -> nth_error (rank_pos_from n i l) j = Some (k, PQ (pct_pos n (i + j))).
  Proof.
    revert i j. induction l as [|x t IH]; intros i j; [destruct j; discriminate|].
    destruct j; simpl.
    - intros [= ->]. rewrite Nat.add_0_r. reflexivity.
    - intros H. rewrite (IH (S i) j H). replace (i + S j)%nat with (S i + j)%nat by lia. reflexivity.
  Qed.

  Lemma rank_pos_from_In n i (l : list K) k p :
    In (k, p) (rank_pos_from n i l) -> exists j, nth_error l j = Some k /\ p = PQ (pct_pos n (i + j)).
  Proof.
    revert i. induction l as [|x t IH]; intros i; simpl; [tauto|]. intros [[= <- <-] | H].
    - exists 0%nat. rewrite Nat.add_0_r. auto.
    - destruct (IH (S i) H) as [j [Hj ->]]. exists (S j). split; [exact Hj|].
      replace (i + S j)%nat with (S i + j)%nat by lia. reflexivity.
  Qed.

  Lemma NoDup_nth_inj {X} (l : list X) i j x : NoDup l -> nth_error l i = Some x -> nth_error l j = Some x -> i = j.
  Proof.
    intros Hnd Hi Hj. apply (proj1 (NoDup_nth_error l) Hnd); [apply nth_error_Some; congruence|congruence].
  Qed.

  (* keys with a strictly smaller count get a strictly smaller percentile, whatever admissible order was produced *)
  Lemma positional_respects_counts (m : counts) out a b va vb qa qb :
    NoDup (keys m) -> admissible (le_asc Z.ltb) m out ->
    lookup keqb a m = Some va -> lookup keqb b m = Some vb -> va < vb ->
    In (a, PQ qa) (rank_pos_on out) -> In (b, PQ qb) (rank_pos_on out) -> (qa < qb)%Q.
  Proof.
    intros Hnd Ha La Lb Hlt Ia Ib. unfold rank_pos_on in *.
    destruct (rank_pos_from_In _ _ _ _ _ Ia) as [i [Hi Ea]].
    destruct (rank_pos_from_In _ _ _ _ _ Ib) as [j [Hj Eb]].
    simpl in Ea, Eb. injection Ea as ->. injection Eb as ->.
    assert (Hndo : NoDup out).
    { destruct (admissible_keys _ m out Ha) as [P _]. eapply Permutation_NoDup; [apply Permutation_sym, P|exact Hnd]. }
    assert (Hjn : (j < length out)%nat) by (apply nth_error_Some; congruence).
    destruct (Nat.lt_trichotomy i j) as [L | [E | L]].
    - apply pct_pos_strict; assumption.
    - subst j. rewrite Hi in Hj. injection Hj as <-. rewrite La in Lb. injection Lb as <-. lia.
    - exfalso. pose proof (admissible_values keqb keqb_spec _ m out Hnd Ha j i b a vb va L Hj Hi Lb La) as H.
      unfold le_asc in H. apply Z.ltb_ge in H. lia.
  Qed.

  (* ---------- the calculator ---------- *)
  Lemma new_calc_entries (opts : list (@copt K)) : forall c : @calc K, entries (fold_left apply_opt opts c) = entries c.
  Proof. induction opts as [|o t IH]; intros c; simpl; [reflexivity|]. rewrite IH. destruct o; reflexivity. Qed.

  Lemma new_calc_snoc (opts : list (@copt K)) o : new_calc (opts ++ [o]) = apply_opt (new_calc opts) o.
  Proof. unfold new_calc. rewrite fold_left_app. reflexivity. Qed.

  (* counts = number of occurrences since the last Reset *)
  Definition cnt (k : K) (l : list K) : Z := Z.of_nat (length (filter (keqb k) l)).

  Definition represents (it : counts) (l : list K) : Prop :=
    NoDup (keys it) /\ forall k, lookup keqb k it = if cnt k l =? 0 then None else Some (cnt k l).

  Lemma cnt_snoc k l e : cnt k (l ++ [e]) = cnt k l + (if keqb k e then 1 else 0).
  Proof.
    unfold cnt. rewrite filter_app, app_length. simpl. destruct (keqb k e); simpl; lia.
  Qed.

  Lemma cnt_nonneg k l : 0 <= cnt k l.
  Proof. unfold cnt. lia. Qed.

  Lemma accumulate_represents (c : @calc K) l e :
    represents (entries c) l -> represents (entries (accumulate keqb e c)) (l ++ [e]).
  Proof.
    intros [Hnd Hl]. simpl. split; [apply (NoDup_upsert keqb keqb_spec), Hnd|].
    intros k. rewrite cnt_snoc. pose proof (cnt_nonneg k l) as Hk. destruct (keqb_spec k e) as [-> | Hne].
    - rewrite (lookup_upsert_eq keqb keqb_spec). unfold count_of. rewrite (Hl e).
      pose proof (cnt_nonneg e l). destruct (Z.eqb_spec (cnt e l) 0) as [E | E].
      + rewrite E. reflexivity.
      + destruct (Z.eqb_spec (cnt e l + 1) 0); [lia|reflexivity].
    - rewrite (lookup_upsert_neq keqb keqb_spec) by exact Hne. rewrite Z.add_0_r. apply Hl.
  Qed.

  Lemma represents_nil : represents ([] : counts) [].
  Proof. split; [constructor|]. intros k. reflexivity. Qed.

  Fixpoint live (acc : list K) (evs : list (@event K)) : list K :=
    match evs with
    | [] => acc
    | EAccumulate e :: t => live (acc ++ [e]) t
    | EReset :: t => live [] t
    | ECalculate :: t => live acc t
    end.

  Lemma run_represents evs : forall (c : @calc K) acc,
    represents (entries c) acc ->
    represents (entries (fst (run keqb c evs))) (live acc evs) /\ rk (fst (run keqb c evs)) = rk c.
  Proof.
    induction evs as [|ev t IH]; intros c acc H; simpl; [auto|]. destruct ev.
    - destruct (IH (accumulate keqb e c) (acc ++ [e]) (accumulate_represents c acc e H)) as [I1 I2]. auto.
    - destruct (IH (reset c) [] represents_nil) as [I1 I2]. auto.
    - specialize (IH c acc H). destruct (run keqb c t). simpl in *. exact IH.
  Qed.

  (* the answer of a Calculate is computed from the state reached by the events before it *)
  Lemma run_calculate evs1 : forall (c : @calc K) evs2,
    snd (run keqb c (evs1 ++ ECalculate :: evs2)) =
      snd (run keqb c evs1) ++ calculate keqb (fst (run keqb c evs1)) :: snd (run keqb (fst (run keqb c evs1)) evs2).
  Proof.
    induction evs1 as [|ev t IH]; intros c evs2; simpl.
    - destruct (run keqb c evs2). reflexivity.
    - destruct ev; try apply IH. specialize (IH c evs2).
      destruct (run keqb c (t ++ ECalculate :: evs2)). destruct (run keqb c t). simpl in *. rewrite IH. reflexivity.
  Qed.

  Lemma represents_counts_positive it l e : represents it l -> In e it -> 1 <= snd e.
  Proof.
    intros [Hnd Hl] Hin. destruct e as [k v]. pose proof (In_lookup keqb keqb_spec k v it Hnd Hin) as L.
    rewrite Hl in L. pose proof (cnt_nonneg k l). destruct (Z.eqb_spec (cnt k l) 0); [discriminate|].
    injection L as <-. simpl. lia.
  Qed.
End RankProofs.
