(* Proofs for Model/OrderedMap.v: the key-sorted association list refines the finite-map specification
   (observed through [get]) for every operation and every history; range iterations visit exactly the
   keys in range, in order, stopping when the callback returns false. *)
From Coq Require Import List Bool ZArith Arith Sorted Permutation Lia.
From TC.Lib Require Import Assoc AssocProofs.
From TC.Model Require Import OrderedMap.
Import ListNotations.
Local Open Scope Z_scope.

(* generic facts about StronglySorted *)
Lemma SS_app_intro {A} (R : A -> A -> Prop) l1 l2 :
  StronglySorted R l1 -> StronglySorted R l2 -> (forall a b, In a l1 -> In b l2 -> R a b) ->
  StronglySorted R (l1 ++ l2).
Proof.
  induction l1 as [|x t IH]; simpl; intros H1 H2 H; [exact H2|].
  inversion H1 as [|? ? Hs Hf]; subst. constructor.
  - apply IH; auto.
  - rewrite Forall_forall in *. intros y Hy. apply in_app_or in Hy. destruct Hy; auto.
Qed.

Lemma SS_app_inv {A} (R : A -> A -> Prop) l1 l2 :
  StronglySorted R (l1 ++ l2) ->
  StronglySorted R l1 /\ StronglySorted R l2 /\ forall a b, In a l1 -> In b l2 -> R a b.
Proof.
  induction l1 as [|x t IH]; simpl; intros H.
  - split; [constructor|]. split; [exact H|]. intros a b [].
  - inversion H as [|? ? Hs Hf]; subst. destruct (IH Hs) as [I1 [I2 I3]].
    rewrite Forall_forall in Hf. split; [|split].
    + constructor; [exact I1|]. rewrite Forall_forall. intros y Hy. apply Hf, in_or_app. auto.
    + exact I2.
    + intros a b [<- | Ha] Hb; [apply Hf, in_or_app; auto|auto].
Qed.

Lemma SS_rev {A} (R : A -> A -> Prop) l :
  StronglySorted R l -> StronglySorted (fun a b => R b a) (rev l).
Proof.
  induction 1 as [|x t Hs IH Hf]; simpl; [constructor|].
  apply SS_app_intro; [exact IH|repeat constructor|].
  intros a b Ha [<- | []]. rewrite Forall_forall in Hf. apply Hf, in_rev, Ha.
Qed.

Lemma SS_filter {A} (R : A -> A -> Prop) (p : A -> bool) l :
  StronglySorted R l -> StronglySorted R (filter p l).
Proof.
  induction 1 as [|x t Hs IH Hf]; simpl; [constructor|].
  destruct (p x); [|exact IH]. constructor; [exact IH|].
  rewrite Forall_forall in *. intros y Hy. apply filter_In in Hy. apply Hf, Hy.
Qed.

Lemma nth_error_firstn' {A} (l : list A) n i :
  nth_error (firstn n l) i = if (i <? n)%nat then nth_error l i else None.
Proof.
  revert n i. induction l as [|x t IH]; intros n i.
  - rewrite firstn_nil. destruct i; destruct (_ <? _)%nat; reflexivity.
  - destruct n; simpl; [destruct i; reflexivity|]. destruct i; simpl; [reflexivity|]. rewrite IH. reflexivity.
Qed.

Section OrderedMap.
  Context {V : Type}.
  Variable vnil : V.
  Notation omap := (@omap V).

  Definition sorted (m : omap) : Prop := StronglySorted Z.lt (map fst m).

  Lemma Zeqb_spec' : forall x y : Z, reflect (x = y) (x =? y).
  Proof. exact Z.eqb_spec. Qed.

  Lemma sorted_NoDup m : sorted m -> NoDup (keys m).
  Proof.
    unfold sorted, keys. induction 1 as [|x t Hs IH Hf]; constructor; [|exact IH].
    intros Hin. rewrite Forall_forall in Hf. specialize (Hf x Hin). lia.
  Qed.

  Lemma sorted_tail e m : sorted (e :: m) -> sorted m.
  Proof. intros H. inversion H; assumption. Qed.

  Lemma sorted_head_lt k v m k' : sorted ((k, v) :: m) -> In k' (keys m) -> k < k'.
  Proof. intros H Hin. inversion H as [|? ? _ Hf]; subst. rewrite Forall_forall in Hf. apply Hf, Hin. Qed.

  (* get: a key is bound iff it is among the keys *)
  Lemma get_Some_In k (m : omap) v : get k m = Some v -> In (k, v) m.
  Proof. apply (lookup_In Z.eqb Zeqb_spec'). Qed.

  Lemma In_get k v (m : omap) : sorted m -> In (k, v) m -> get k m = Some v.
  Proof. intros H. apply (In_lookup Z.eqb Zeqb_spec'), sorted_NoDup, H. Qed.

  Lemma get_None_iff k (m : omap) : get k m = None <-> ~ In k (keys m).
  Proof. apply (lookup_None Z.eqb Zeqb_spec'). Qed.

  Lemma get_bound_iff k (m : omap) : get k m <> None <-> In k (keys m).
  Proof.
    rewrite get_None_iff. split; [|tauto]. intros H.
    destruct (in_dec Z.eq_dec k (keys m)); tauto.
  Qed.

  (* ---- Set ---- *)
  Lemma get_set k v (m : omap) k' : get k' (set k v m) = if k' =? k then Some v else get k' m.
  Proof.
    unfold get. induction m as [|[k0 v0] t IH]; simpl.
    - destruct (k' =? k); reflexivity.
    - destruct (k <? k0) eqn:E1; simpl.
      + destruct (k' =? k); reflexivity.
      + destruct (k =? k0) eqn:E2; simpl.
        * apply Z.eqb_eq in E2. subst k0. destruct (k' =? k); reflexivity.
        * rewrite IH. destruct (k' =? k0) eqn:E3; [|reflexivity].
          apply Z.eqb_eq in E3. subst k0. destruct (k' =? k) eqn:E4; [|reflexivity].
          apply Z.eqb_eq in E4. subst. rewrite Z.eqb_refl in E2. discriminate.
  Qed.

  Lemma keys_set k v (m : omap) x : In x (keys (set k v m)) <-> x = k \/ In x (keys m).
  Proof.
    unfold keys. induction m as [|[k0 v0] t IH]; simpl.
    - intuition.
    - destruct (k <? k0) eqn:E1; simpl; [intuition|].
      destruct (k =? k0) eqn:E2; simpl.
      + apply Z.eqb_eq in E2. subst. intuition.
      + rewrite IH. intuition.
  Qed.

  Lemma set_sorted k v (m : omap) : sorted m -> sorted (set k v m).
  Proof.
    unfold sorted. induction m as [|[k0 v0] t IH]; simpl; intros H.
    - repeat constructor.
    - inversion H as [|? ? Hs Hf]; subst. rewrite Forall_forall in Hf.
      destruct (k <? k0) eqn:E1; simpl.
      + apply Z.ltb_lt in E1. constructor; [exact H|]. rewrite Forall_forall.
        intros y [<- | Hy]; [exact E1|]. specialize (Hf y Hy). lia.
      + apply Z.ltb_ge in E1. destruct (k =? k0) eqn:E2; simpl.
        * apply Z.eqb_eq in E2. subst. exact H.
        * apply Z.eqb_neq in E2. constructor; [apply IH, Hs|]. rewrite Forall_forall.
          intros y Hy. apply (keys_set k v t y) in Hy. destruct Hy as [-> | Hy]; [lia|apply Hf, Hy].
  Qed.

  Lemma length_set k v (m : omap) :
    sorted m -> length (set k v m) = (length m + match get k m with Some _ => 0 | None => 1 end)%nat.
  Proof.
    unfold get. induction m as [|[k0 v0] t IH]; simpl; intros H; [reflexivity|].
    destruct (k <? k0) eqn:E1.
    - apply Z.ltb_lt in E1. destruct (Z.eqb_spec k k0); [lia|]. simpl.
      assert (N : ~ In k (keys t)) by (intros Hin; pose proof (sorted_head_lt k0 v0 t k H Hin); lia).
      apply get_None_iff in N. unfold get in N. rewrite N. lia.
    - destruct (Z.eqb_spec k k0) as [-> | Hne]; simpl; [lia|].
      rewrite IH by (eapply sorted_tail; eauto). lia.
  Qed.

  (* ---- Delete ---- *)
  Lemma remove_sorted k (m : omap) : sorted m -> sorted (remove Z.eqb k m).
  Proof.
    unfold sorted. induction m as [|[k0 v0] t IH]; simpl; intros H; [exact H|].
    inversion H as [|? ? Hs Hf]; subst. destruct (k =? k0); [exact Hs|]. simpl.
    constructor; [apply IH, Hs|]. rewrite Forall_forall in *. intros y Hy. apply Hf.
    apply in_map_iff in Hy. destruct Hy as [[a b] [<- Hin]]. apply (remove_sub Z.eqb) in Hin.
    apply (in_map fst) in Hin. exact Hin.
  Qed.

  Lemma get_remove k (m : omap) k' :
    sorted m -> get k' (remove Z.eqb k m) = if k' =? k then None else get k' m.
  Proof.
    intros H. unfold get. destruct (Z.eqb_spec k' k) as [-> | Hne].
    - apply (lookup_remove_eq Z.eqb Zeqb_spec'), sorted_NoDup, H.
    - apply (lookup_remove_neq Z.eqb Zeqb_spec'), Hne.
  Qed.

  (* ---- Len ---- *)
  Lemma len_spec (m : omap) :
    sorted m -> NoDup (keys m) /\ (forall k, In k (keys m) <-> get k m <> None) /\ length m = length (keys m).
  Proof.
    intros H. split; [apply sorted_NoDup, H|]. split.
    - intros k. symmetry. apply get_bound_iff.
    - unfold keys. rewrite map_length. reflexivity.
  Qed.

  (* ---- Min / Max ---- *)
  Lemma min_spec (m : omap) k v :
    sorted m -> min_item m = Some (k, v) -> get k m = Some v /\ forall k', get k' m <> None -> k <= k'.
  Proof.
    intros H E. destruct m as [|[k0 v0] t]; [discriminate|]. simpl in E. injection E as -> ->.
    split; [apply In_get; [exact H|left; reflexivity]|].
    intros k' Hb. apply get_bound_iff in Hb. simpl in Hb. destruct Hb as [<- | Hb]; [lia|].
    pose proof (sorted_head_lt k v t k' H Hb). lia.
  Qed.

  Lemma min_none (m : omap) : min_item m = None -> m = [].
  Proof. destruct m; [reflexivity|discriminate]. Qed.

  Lemma max_last (m : omap) e : max_item m = Some e -> exists l, m = l ++ [e].
  Proof.
    unfold max_item. intros H. destruct (rev m) as [|x l] eqn:E; [discriminate|]. simpl in H. injection H as ->.
    exists (rev l). rewrite <- (rev_involutive m), E. reflexivity.
  Qed.

  Lemma max_spec (m : omap) k v :
    sorted m -> max_item m = Some (k, v) -> get k m = Some v /\ forall k', get k' m <> None -> k' <= k.
  Proof.
    intros H E. destruct (max_last m _ E) as [l ->].
    split; [apply In_get; [exact H|apply in_or_app; right; left; reflexivity]|].
    intros k' Hb. apply get_bound_iff in Hb. unfold keys in Hb. rewrite map_app in Hb.
    unfold sorted in H. rewrite map_app in H. apply SS_app_inv in H. destruct H as [_ [_ H3]].
    apply in_app_or in Hb. destruct Hb as [Hb | [<- | []]]; [|simpl; lia].
    specialize (H3 k' k Hb (or_introl eq_refl)). lia.
  Qed.

  Lemma max_none (m : omap) : max_item m = None -> m = [].
  Proof.
    unfold max_item. intros H. destruct (rev m) eqn:E; [|discriminate].
    rewrite <- (rev_involutive m), E. reflexivity.
  Qed.

  (* ---- canonicity: a sorted list is determined by its [get] ---- *)
  Lemma canonical (m1 m2 : omap) : sorted m1 -> sorted m2 -> (forall k, get k m1 = get k m2) -> m1 = m2.
  Proof.
    revert m2. induction m1 as [|[k1 v1] t1 IH]; intros m2 H1 H2 E.
    - destruct m2 as [|[k2 v2] t2]; [reflexivity|]. specialize (E k2). unfold get in E. simpl in E.
      rewrite Z.eqb_refl in E. discriminate.
    - destruct m2 as [|[k2 v2] t2].
      + specialize (E k1). unfold get in E. simpl in E. rewrite Z.eqb_refl in E. discriminate.
      + assert (Hk : k1 = k2).
        { destruct (Z.lt_trichotomy k1 k2) as [L | [L | L]]; [|exact L|]; exfalso.
          - pose proof (E k1) as E1. unfold get in E1. simpl in E1. rewrite Z.eqb_refl in E1.
            destruct (Z.eqb_spec k1 k2); [lia|]. symmetry in E1. apply get_Some_In in E1.
            apply (in_map fst) in E1. pose proof (sorted_head_lt k2 v2 t2 k1 H2 E1). lia.
          - pose proof (E k2) as E1. unfold get in E1. simpl in E1. rewrite Z.eqb_refl in E1.
            destruct (Z.eqb_spec k2 k1); [lia|]. apply get_Some_In in E1.
            apply (in_map fst) in E1. pose proof (sorted_head_lt k1 v1 t1 k2 H1 E1). lia. }
        subst k2. pose proof (E k1) as E1. unfold get in E1. simpl in E1. rewrite Z.eqb_refl in E1.
        injection E1 as ->. f_equal. apply IH; [eapply sorted_tail; eauto|eapply sorted_tail; eauto|].
        intros k. specialize (E k). unfold get in *. simpl in E.
        destruct (Z.eqb_spec k k1) as [Heq | Hne]; [subst k|exact E].
        assert (N1 : ~ In k1 (keys t1)) by (intros Hin; pose proof (sorted_head_lt k1 v2 t1 k1 H1 Hin); lia).
        assert (N2 : ~ In k1 (keys t2)) by (intros Hin; pose proof (sorted_head_lt k1 v2 t2 k1 H2 Hin); lia).
        apply get_None_iff in N1, N2. unfold get in N1, N2. congruence.
  Qed.

  (* ---- ranges ---- *)
  Definition range_spec (m : omap) (inr : Z -> bool) (desc : bool) (R : omap) : Prop :=
    (forall k v, In (k, v) R <-> get k m = Some v /\ inr k = true)
    /\ StronglySorted (if desc then Z.gt else Z.lt) (map fst R).

  Lemma range_asc_spec (m : omap) inr : sorted m -> range_spec m inr false (range_asc inr m).
  Proof.
    intros H. unfold range_spec, range_asc. split.
    - intros k v. rewrite filter_In. simpl. split.
      + intros [Hin Hr]. split; [apply In_get; assumption|exact Hr].
      + intros [Hg Hr]. split; [apply get_Some_In, Hg|exact Hr].
    - simpl. clear -H. unfold sorted in H. induction m as [|[k v] t IH]; simpl; [constructor|].
      inversion H as [|? ? Hs Hf]; subst. destruct (inr k); simpl; [|apply IH, Hs].
      constructor; [apply IH, Hs|]. rewrite Forall_forall in *. intros y Hy. apply Hf.
      apply in_map_iff in Hy. destruct Hy as [e [<- He]]. apply filter_In in He. apply in_map, He.
  Qed.

  Lemma range_desc_spec (m : omap) inr : sorted m -> range_spec m inr true (range_desc inr m).
  Proof.
    intros H. destruct (range_asc_spec m inr H) as [A B]. unfold range_spec, range_desc. split.
    - intros k v. rewrite <- in_rev. apply A.
    - simpl in *. rewrite map_rev. apply SS_rev in B.
      eapply StronglySorted_ind with (P := StronglySorted Z.gt); [constructor| |exact B].
      intros a l _ Hl Hf. constructor; [exact Hl|]. rewrite Forall_forall in *. intros y Hy. specialize (Hf y Hy). lia.
  Qed.

  (* the list in range is unique *)
  Lemma range_unique (m : omap) inr desc R1 R2 :
    range_spec m inr desc R1 -> range_spec m inr desc R2 -> R1 = R2.
  Proof.
    intros [A1 B1] [A2 B2].
    assert (Hin : forall e, In e R1 <-> In e R2) by (intros [k v]; rewrite A1, A2; reflexivity).
    clear A1 A2. revert R2 B2 Hin. induction R1 as [|[k1 v1] t1 IH]; intros R2 B2 Hin.
    - destruct R2 as [|e t2]; [reflexivity|]. exfalso. apply (Hin e). left; reflexivity.
    - destruct R2 as [|[k2 v2] t2]; [exfalso; apply (Hin (k1, v1)); left; reflexivity|].
      simpl in B1, B2. inversion B1 as [|? ? Hs1 Hf1]; inversion B2 as [|? ? Hs2 Hf2]; subst.
      rewrite Forall_forall in Hf1, Hf2.
      assert (F1 : forall e, In e t1 -> (if desc then Z.gt else Z.lt) k1 (fst e)) by (intros e He; apply Hf1, in_map, He).
      assert (F2 : forall e, In e t2 -> (if desc then Z.gt else Z.lt) k2 (fst e)) by (intros e He; apply Hf2, in_map, He).
      assert (Hirr : forall x, ~ (if desc then Z.gt else Z.lt) x x) by (intros x; destruct desc; lia).
      assert (Hasym : forall x y, (if desc then Z.gt else Z.lt) x y -> (if desc then Z.gt else Z.lt) y x -> False)
        by (intros x y; destruct desc; lia).
      assert (E : (k1, v1) = (k2, v2)).
      { destruct (proj1 (Hin (k1, v1)) (or_introl eq_refl)) as [E | Hin1]; [symmetry; exact E|].
        destruct (proj2 (Hin (k2, v2)) (or_introl eq_refl)) as [E | Hin2]; [exact E|].
        exfalso. apply (Hasym k1 k2); [apply (F1 _ Hin2)|apply (F2 _ Hin1)]. }
      injection E as <- <-. f_equal. apply IH; [exact Hs1|exact Hs2|].
      intros e. split; intros He.
      + destruct (proj1 (Hin e) (or_intror He)) as [<- | H']; [|exact H'].
        exfalso. apply (Hirr k1). apply (F1 _ He).
      + destruct (proj2 (Hin e) (or_intror He)) as [<- | H']; [|exact H'].
        exfalso. apply (Hirr k1). apply (F2 _ He).
  Qed.

  (* ---- visiting with a callback ---- *)
  Definition visit_spec (f : nat -> Z -> bool) (R vis : omap) : Prop :=
    (exists n, vis = firstn n R)
    /\ (forall j e, nth_error vis j = Some e -> (S j < length vis)%nat -> f j (fst e) = true)
    /\ ((length vis < length R)%nat ->
          exists e, nth_error vis (length vis - 1) = Some e /\ f (length vis - 1)%nat (fst e) = false)
    /\ (R <> [] -> vis <> []).

  Lemma visit_prefix f i (R : omap) : exists n, visit f i R = firstn n R.
  Proof.
    revert i. induction R as [|[k v] t IH]; intros i; simpl; [exists 0%nat; reflexivity|].
    destruct (f i k).
    - destruct (IH (S i)) as [n E]. exists (S n). simpl. rewrite E. reflexivity.
    - exists 1%nat. reflexivity.
  Qed.

  Lemma visit_go f i (R : omap) j e :
    nth_error (visit f i R) j = Some e -> (S j < length (visit f i R))%nat -> f (i + j)%nat (fst e) = true.
  Proof.
    revert i j. induction R as [|[k v] t IH]; intros i j; simpl; [destruct j; discriminate|].
    destruct (f i k) eqn:E; simpl.
    - destruct j; simpl.
      + intros [= <-] _. simpl. rewrite Nat.add_0_r. exact E.
      + intros H1 H2. replace (i + S j)%nat with (S i + j)%nat by lia. apply IH; [exact H1|lia].
    - destruct j; simpl; [lia|]. destruct j; discriminate.
  Qed.

  Lemma visit_stop f i (R : omap) :
    (length (visit f i R) < length R)%nat ->
    exists e, nth_error (visit f i R) (length (visit f i R) - 1) = Some e
              /\ f (i + (length (visit f i R) - 1))%nat (fst e) = false.
  Proof.
    revert i. induction R as [|[k v] t IH]; intros i; simpl; [lia|].
    destruct (f i k) eqn:E; simpl.
    - intros H. destruct (IH (S i)) as [e [H1 H2]]; [lia|].
      assert (L : (length (visit f (S i) t) <> 0)%nat).
      { destruct (visit f (S i) t); [simpl in H1; discriminate|simpl; lia]. }
      exists e. rewrite Nat.sub_0_r. split.
      + destruct (length (visit f (S i) t)) as [|n] eqn:EL; [lia|]. simpl in *. rewrite Nat.sub_0_r in H1. exact H1.
      + replace (i + length (visit f (S i) t))%nat with (S i + (length (visit f (S i) t) - 1))%nat by lia. exact H2.
    - intros _. exists (k, v). simpl. rewrite Nat.add_0_r. split; [reflexivity|exact E].
  Qed.

  Lemma visit_nonempty f i (R : omap) : R <> [] -> visit f i R <> [].
  Proof. destruct R as [|[k v] t]; [congruence|]. intros _. simpl. destruct (f i k); discriminate. Qed.

  Lemma visit_ok f (R : omap) : visit_spec f R (visit f 0 R).
  Proof.
    split; [apply visit_prefix|]. split; [|split].
    - intros j e H1 H2. apply (visit_go f 0 R j e H1 H2).
    - intros H. destruct (visit_stop f 0 R H) as [e [H1 H2]]. exists e. split; assumption.
    - apply visit_nonempty.
  Qed.

  (* the visited list is determined by the specification *)
  Lemma visit_unique f (R v1 v2 : omap) : visit_spec f R v1 -> visit_spec f R v2 -> v1 = v2.
  Proof.
    intros [[n1 ->] [G1 [S1 N1]]] [[n2 ->] [G2 [S2 N2]]].
    assert (W : forall a b, (a < b)%nat ->
              (forall j e, nth_error (firstn b R) j = Some e -> (S j < length (firstn b R))%nat -> f j (fst e) = true) ->
              ((length (firstn a R) < length R)%nat ->
                 exists e, nth_error (firstn a R) (length (firstn a R) - 1) = Some e
                           /\ f (length (firstn a R) - 1)%nat (fst e) = false) ->
              (R <> [] -> firstn a R <> []) ->
              firstn a R = firstn b R).
    { intros a b Hab G S N.
      destruct (Nat.le_gt_cases (length R) a) as [Hl | Hl].
      - rewrite !firstn_all2 by lia. reflexivity.
      - exfalso. rewrite firstn_length_le in S by lia. destruct (S Hl) as [e [He Hf]].
        assert (a <> 0)%nat.
        { intros ->. destruct R; [simpl in Hl; lia|]. apply N; [discriminate|reflexivity]. }
        assert (Hn : nth_error (firstn b R) (a - 1) = Some e).
        { rewrite nth_error_firstn' in He |- *.
          destruct (Nat.ltb_spec (a - 1) a); [|lia]. destruct (Nat.ltb_spec (a - 1) b); [|lia]. exact He. }
        specialize (G (a - 1)%nat e Hn). rewrite firstn_length in G.
        assert (f (a - 1)%nat (fst e) = true) by (apply G; lia). congruence. }
    destruct (Nat.lt_trichotomy n1 n2) as [L | [-> | L]]; [|reflexivity|].
    - apply W; assumption.
    - symmetry. apply W; assumption.
  Qed.

  Lemma visit_all f i (R : omap) : (forall j k, In k (map fst R) -> f j k = true) -> visit f i R = R.
  Proof.
    revert i. induction R as [|[k v] t IH]; intros i H; simpl; [reflexivity|].
    rewrite (H i k) by (left; reflexivity). f_equal. apply IH. intros j k' Hk. apply H. right. exact Hk.
  Qed.

  Lemma visit_first f i (R : omap) k v t : R = (k, v) :: t -> f i k = false -> visit f i R = [(k, v)].
  Proof. intros -> H. simpl. rewrite H. reflexivity. Qed.
End OrderedMap.
