(* Proofs about Model/Lifecycle.v: the invariant of the Start/Stop interleaving system, the safety
   clauses of C18 and termination + stuck-freedom under the library contracts L1-L3. *)
From Coq Require Import List ZArith Bool Arith Lia.
From TC.Model Require Import Lifecycle.
Import ListNotations.

(* ---------- lists ---------- *)
Lemma nth_error_upd_nth {A} i (f : A -> A) l j :
  nth_error (upd_nth i f l) j = if Nat.eqb j i then option_map f (nth_error l j) else nth_error l j.
Proof.
  revert i j; induction l as [|x t IH]; intros i j.
  - destruct i, j; simpl; try reflexivity; destruct (Nat.eqb j i); reflexivity.
  - destruct i as [|i], j as [|j]; simpl; try reflexivity. apply IH.
Qed.

Lemma length_upd_nth {A} i (f : A -> A) l : length (upd_nth i f l) = length l.
Proof. revert i; induction l as [|x t IH]; intros [|i]; simpl; auto. Qed.

Lemma map_upd_nth {A B} (g : A -> B) i (f : A -> A) l :
  (forall x, g (f x) = g x) -> map g (upd_nth i f l) = map g l.
Proof.
  intros Hg. revert i; induction l as [|x t IH]; intros [|i]; simpl; auto.
  - now rewrite Hg.
  - now rewrite IH.
Qed.

Lemma map_kind_upd {A B} (g : A -> B) i l p p' :
  nth_error l i = Some p -> g p' = g p -> map g (upd_nth i (fun _ => p') l) = map g l.
Proof.
  revert i; induction l as [|x t IH]; intros [|i] Hn Hg; simpl in *; try discriminate.
  - inversion Hn; subst. now rewrite Hg.
  - now rewrite (IH i Hn Hg).
Qed.

Definition b2z (b : bool) : Z := if b then 1%Z else 0%Z.
Fixpoint cnt (f : prov -> bool) (l : list prov) : Z :=
  match l with [] => 0%Z | p :: t => (b2z (f p) + cnt f t)%Z end.
Fixpoint sumn (f : prov -> nat) (l : list prov) : nat :=
  match l with [] => 0 | p :: t => f p + sumn f t end.

Lemma cnt_nonneg f l : (0 <= cnt f l)%Z.
Proof. induction l as [|p t IH]; cbn [cnt]; [lia|]. destruct (f p); unfold b2z; lia. Qed.

Lemma cnt_upd f i g l p :
  nth_error l i = Some p -> cnt f (upd_nth i g l) = (cnt f l - b2z (f p) + b2z (f (g p)))%Z.
Proof.
  revert i; induction l as [|x t IH]; intros [|i] H; simpl in *; try discriminate.
  - inversion H; subst. lia.
  - rewrite (IH i H). lia.
Qed.

Lemma sumn_upd f i g l p :
  nth_error l i = Some p -> sumn f (upd_nth i g l) + f p = sumn f l + f (g p).
Proof.
  revert i; induction l as [|x t IH]; intros [|i] H; simpl in *; try discriminate.
  - inversion H; subst. lia.
  - specialize (IH i H). lia.
Qed.

Lemma cnt_pos_exists f l : (0 < cnt f l)%Z -> exists j p, nth_error l j = Some p /\ f p = true.
Proof.
  induction l as [|x t IH]; cbn [cnt]; [lia|]. intros H.
  destruct (f x) eqn:E.
  - exists 0, x. auto.
  - unfold b2z in H. destruct (IH ltac:(lia)) as (j & p & Hj & Hp). exists (S j), p. auto.
Qed.

Lemma cnt_zero_all f l : cnt f l = 0%Z -> forall j p, nth_error l j = Some p -> f p = false.
Proof.
  induction l as [|x t IH]; cbn [cnt]; intros H j p Hj; [destruct j; discriminate|].
  pose proof (cnt_nonneg f t). destruct (f x) eqn:E; unfold b2z in H; [lia|].
  destruct j; simpl in Hj; [inversion Hj; subst; exact E|]. eapply IH; eauto.
Qed.

Lemma cnt_all_false f l : (forall j p, nth_error l j = Some p -> f p = false) -> cnt f l = 0%Z.
Proof.
  induction l as [|x t IH]; cbn [cnt]; intros H; [reflexivity|].
  rewrite (H 0 x eq_refl). unfold b2z. rewrite IH; [reflexivity|]. intros j p Hj. apply (H (S j) p Hj).
Qed.

(* ---------- classification of program counters ---------- *)
Definition pre_signal (pc : gpc) : bool :=
  match pc with GNone | GSpawned | GListened => true | _ => false end.
Definition is_presig (p : prov) : bool :=          (* spawned, startWg.Done() still owed *)
  match p_pc p with GSpawned | GListened => true | _ => false end.
Definition is_alive (p : prov) : bool :=           (* spawned, stopWg.Done() still owed *)
  match p_pc p with GNone | GDone => false | _ => true end.

Definition spawned_by (c : spc) (j : nat) : bool :=
  match c with
  | CIdle => false
  | CAddStop i | CAddStart i | CGo i => j <? i
  | _ => true
  end.
Definition after_start (c : spc) : bool :=
  match c with CRunning => true | _ => false end.
Definition launched (c : spc) : bool :=                (* Start's loop is over: every provider goroutine exists *)
  match c with CStartWait | CRunning => true | _ => false end.
Definition in_start (c : spc) : bool :=
  match c with CAddStop _ | CAddStart _ | CGo _ | CStartWait => true | _ => false end.
Definition in_stop (t : tpc) : bool :=
  match t with CStopCall _ | CStopDrain _ | CStopWait => true | _ => false end.
Definition shut_by (t : tpc) (j : nat) : bool :=
  match t with
  | CStopCall i => j <? i
  | CStopDrain i => j <=? i
  | CStopWait | CStopped => true
  | _ => false
  end.
Definition is_cgo (c : spc) : bool := match c with CGo _ => true | _ => false end.
Definition is_mid (c : spc) : bool := match c with CAddStart _ | CGo _ => true | _ => false end.
Definition idx_ok (c : spc) (t : tpc) (n : nat) : Prop :=
  match c with CAddStop i | CAddStart i | CGo i => i < n | _ => True end /\
  match t with CStopCall i | CStopDrain i => i < n | _ => True end /\
  (t = TIdle \/ launched c = true).                    (* Stop is only ever issued once everything was launched *)

Definition bound_of (p : prov) : bool :=
  match p_pc p with
  | GServing => negb (p_shut p)
  | GListened => true
  | GSignalled => kind_eqb (p_kind p) KGrpc
  | _ => false
  end.

(* what must hold of provider j when the caller is at c *)
Definition local (c : spc) (t : tpc) (j : nat) (p : prov) : Prop :=
  pc_eqb (p_pc p) GNone = negb (spawned_by c j) /\
  (after_start c = true -> pre_signal (p_pc p) = false) /\
  p_shut p = shut_by t j /\
  p_sdone p = (if pre_signal (p_pc p) then 0 else 1) /\
  p_bound p = bound_of p /\
  (p_pc p = GListened -> p_kind p = KGrpc) /\
  (t = CStopped -> p_pc p = GDone).

Record Inv (kinds : list kind) (w0 : Z) (s : st) : Prop := {
  inv_kinds : map p_kind (s_provs s) = kinds;
  inv_local : forall j p, nth_error (s_provs s) j = Some p -> local (s_start s) (s_stop s) j p;
  inv_startwg : s_startwg s = (cnt is_presig (s_provs s) + b2z (is_cgo (s_start s)))%Z;
  inv_stopwg : s_stopwg s = (w0 + cnt is_alive (s_provs s) + b2z (is_mid (s_start s)))%Z;
  inv_idx : idx_ok (s_start s) (s_stop s) (length (s_provs s))
}.

Ltac bcases :=
  repeat match goal with
  | |- context [?a <? ?b] => destruct (Nat.ltb_spec a b)
  | |- context [?a <=? ?b] => destruct (Nat.leb_spec a b)
  | |- context [Nat.eqb ?a ?b] => destruct (Nat.eqb_spec a b)
  | H : context [?a <? ?b] |- _ => destruct (Nat.ltb_spec a b)
  | H : context [?a <=? ?b] |- _ => destruct (Nat.leb_spec a b)
  | H : context [Nat.eqb ?a ?b] |- _ => destruct (Nat.eqb_spec a b)
  end.

Lemma nth_error_lt {A} (l : list A) j p : nth_error l j = Some p -> j < length l.
Proof. intros H. apply nth_error_Some. congruence. Qed.

Lemma init_inv kinds w0 : Inv kinds w0 (init kinds w0).
Proof.
  constructor; simpl.
  - rewrite map_map. simpl. apply map_id.
  - intros j p Hj. rewrite nth_error_map in Hj. destruct (nth_error kinds j); [|discriminate].
    inversion Hj; subst. unfold local; simpl. repeat split; try discriminate; auto.
  - assert (E : cnt is_presig (map init_prov kinds) = 0%Z); [|rewrite E; reflexivity].
    induction kinds; simpl; auto.
  - assert (E : cnt is_alive (map init_prov kinds) = 0%Z); [|rewrite E; lia].
    induction kinds; simpl; auto.
  - unfold idx_ok. simpl. auto.
Qed.

Section Proofs.
  Variable serve_ret : prov -> bool.
  Variable drain_ret : prov -> bool -> bool.
  Local Notation step := (step serve_ret drain_ret).
  Local Notation run := (run serve_ret drain_ret).
  Local Notation reachable := (reachable serve_ret drain_ret).

  (* a provider-only update at index i that keeps the caller *)
  Lemma inv_prov_step kinds w0 s i p p' dstart dstop :
    Inv kinds w0 s ->
    nth_error (s_provs s) i = Some p ->
    p_kind p' = p_kind p ->
    local (s_start s) (s_stop s) i p' ->
    dstart = (b2z (is_presig p') - b2z (is_presig p))%Z ->
    dstop = (b2z (is_alive p') - b2z (is_alive p))%Z ->
    Inv kinds w0 (add_stopwg dstop (add_startwg dstart (with_provs (upd_nth i (fun _ => p') (s_provs s)) s))).
  Proof.
    intros [Hk Hl Hs Ht Hi] Hn Hkind Hloc -> ->. constructor; simpl.
    - rewrite <- Hk. clear - Hn Hkind. revert i Hn; induction (s_provs s) as [|x t IH]; intros [|i] Hn; simpl in *; try discriminate.
      + inversion Hn; subst. now rewrite Hkind.
      + now rewrite (IH i Hn).
    - intros j q Hj. rewrite nth_error_upd_nth in Hj. destruct (Nat.eqb_spec j i) as [->|Hne].
      + rewrite Hn in Hj. simpl in Hj. inversion Hj; subst. exact Hloc.
      + apply Hl, Hj.
    - rewrite (cnt_upd _ _ _ _ _ Hn), Hs. lia.
    - rewrite (cnt_upd _ _ _ _ _ Hn), Ht. lia.
    - rewrite length_upd_nth. exact Hi.
  Qed.

  Lemma add0_start s : add_startwg 0 s = s.
  Proof. destruct s; unfold add_startwg; simpl. f_equal. lia. Qed.
  Lemma add0_stop s : add_stopwg 0 s = s.
  Proof. destruct s; unfold add_stopwg; simpl. f_equal. lia. Qed.

  Ltac idx_solve :=
    unfold idx_ok, launched, next_start, next_stop in *; simpl in *;
    repeat match goal with
    | |- context [?a <? ?b] => destruct (Nat.ltb_spec a b); simpl
    end; intuition (try discriminate; try congruence; try lia; auto).

  Ltac local_solve :=
    unfold local, bound_of, is_presig, is_alive, pre_signal in *; simpl in *;
    intuition (try discriminate; try congruence; auto).

  Lemma step_inv kinds w0 l s s' : (0 <= w0)%Z -> Inv kinds w0 s -> step l s = Some s' -> Inv kinds w0 s'.
  Proof.
    intros Hw0 HI Hst. pose proof HI as [Hk Hl Hs Ht Hi]. pose proof Hi as (Hi1 & Hi2 & Hph).
    destruct l; simpl in Hst.
    - (* LCallStart *)
      destruct (s_start s) eqn:C; try discriminate. injection Hst as <-.
      constructor; simpl; [first [exact Hk | reflexivity]| | | |].
      + intros j p Hj. specialize (Hl j p Hj). pose proof (nth_error_lt _ _ _ Hj) as Hjl.
        try rewrite C in Hl; try rewrite T in Hl; try rewrite C; try rewrite T.
        unfold local, launched in *; simpl in *; bcases; intuition (try discriminate; try congruence; try lia; auto).
      + rewrite Hs; try rewrite C. destruct (0 <? length (s_provs s)); reflexivity.
      + rewrite Ht; try rewrite C. destruct (0 <? length (s_provs s)); reflexivity.
      + idx_solve.
    - (* LCallStop *)
      destruct (s_stop s) eqn:T; try discriminate.
      assert (Hl' : launched (s_start s) = true) by (destruct (s_start s); try discriminate; reflexivity).
      assert (E : s' = with_stop (if 0 <? length (s_provs s) then CStopCall 0 else CStopWait) s)
        by (destruct (s_start s); try discriminate; injection Hst as <-; reflexivity).
      subst s'. clear Hst.
      constructor; simpl; [first [exact Hk | reflexivity]| | | |].
      + intros j p Hj. specialize (Hl j p Hj). pose proof (nth_error_lt _ _ _ Hj) as Hjl.
        unfold local in *; simpl in *; bcases; intuition (try discriminate; try congruence; try lia; auto).
      + exact Hs.
      + exact Ht.
      + idx_solve.
    - (* LCtxExpire *)
      injection Hst as <-. constructor; simpl; auto.
    - (* LReqBegin *)
      unfold step_prov in Hst. destruct (nth_error (s_provs s) i) as [p|] eqn:N; [|discriminate].
      destruct (pc_eqb (p_pc p) GServing && negb (p_shut p)); [|discriminate].
      injection Hst as <-.
      rewrite <- (add0_stop (with_provs _ s)), <- (add0_start (with_provs _ s)).
      eapply inv_prov_step; eauto; try reflexivity.
      + specialize (Hl i p N). destruct p; local_solve.
      + destruct p; unfold is_presig; simpl; lia.
      + destruct p; unfold is_alive; simpl; lia.
    - (* LReqEnd *)
      unfold step_prov in Hst. destruct (nth_error (s_provs s) i) as [p|] eqn:N; [|discriminate].
      destruct (p_inflight p) eqn:F; [discriminate|].
      injection Hst as <-.
      rewrite <- (add0_stop (with_provs _ s)), <- (add0_start (with_provs _ s)).
      eapply inv_prov_step; eauto; try reflexivity.
      + specialize (Hl i p N). destruct p; local_solve.
      + destruct p; unfold is_presig; simpl; lia.
      + destruct p; unfold is_alive; simpl; lia.
    - (* LAddStop *)
      destruct (s_start s) eqn:C; try discriminate. injection Hst as <-.
      constructor; simpl; [first [exact Hk | reflexivity]| | | |].
      + intros j p Hj. specialize (Hl j p Hj). pose proof (nth_error_lt _ _ _ Hj) as Hjl.
        try rewrite C in Hl; try rewrite T in Hl; try rewrite C; try rewrite T.
        unfold local, launched in *; simpl in *; bcases; intuition (try discriminate; try congruence; try lia; auto).
      + rewrite Hs; try rewrite C. reflexivity.
      + rewrite Ht; try rewrite C. simpl. lia.
      + idx_solve.
    - (* LAddStart *)
      destruct (s_start s) eqn:C; try discriminate. injection Hst as <-.
      constructor; simpl; [first [exact Hk | reflexivity]| | | |].
      + intros j p Hj. specialize (Hl j p Hj). pose proof (nth_error_lt _ _ _ Hj) as Hjl.
        try rewrite C in Hl; try rewrite T in Hl; try rewrite C; try rewrite T.
        unfold local, launched in *; simpl in *; bcases; intuition (try discriminate; try congruence; try lia; auto).
      + rewrite Hs; try rewrite C. simpl. lia.
      + rewrite Ht; try rewrite C. reflexivity.
      + idx_solve.
    - (* LGo *)
      destruct (s_start s) eqn:C; try discriminate.
      unfold step_prov in Hst. destruct (nth_error (s_provs s) i) as [p|] eqn:N; [|discriminate].
      destruct (p_pc p) eqn:PC; try discriminate. injection Hst as <-.
      try rewrite C in *. simpl in Hi.
      constructor; simpl.
      + rewrite <- Hk. apply (map_kind_upd _ _ _ _ _ N). reflexivity.
      + intros j q Hj. rewrite nth_error_upd_nth in Hj.
        pose proof (nth_error_lt _ _ _ N) as Hlt.
        destruct (Nat.eqb_spec j i) as [->|Hne].
        * rewrite N in Hj. simpl in Hj. inversion Hj; subst; clear Hj.
          specialize (Hl i p N). unfold next_start.
          destruct (Nat.ltb_spec (S i) (length (s_provs s))); destruct p; unfold local in *; simpl in *; subst;
            bcases; intuition (try discriminate; try lia; auto).
        * pose proof (nth_error_lt _ _ _ Hj) as Hjl. specialize (Hl j q Hj). unfold next_start.
          destruct (Nat.ltb_spec (S i) (length (s_provs s))); unfold local in *; simpl in *;
            bcases; intuition (try discriminate; try lia; auto).
      + rewrite (cnt_upd _ _ _ _ _ N), Hs. unfold next_start, is_presig. simpl. rewrite PC.
        destruct (S i <? length (s_provs s)); simpl; lia.
      + rewrite (cnt_upd _ _ _ _ _ N), Ht. unfold next_start, is_alive. simpl. rewrite PC.
        destruct (S i <? length (s_provs s)); simpl; lia.
      + rewrite length_upd_nth. idx_solve.
    - (* LStartReturn *)
      destruct (s_start s) eqn:C; try discriminate.
      destruct (Z.eqb_spec (s_startwg s) 0) as [Z0|]; [|discriminate]. injection Hst as <-.
      try rewrite C in *. simpl in Hs.
      assert (Hz : cnt is_presig (s_provs s) = 0%Z) by lia.
      constructor; simpl; [first [exact Hk | reflexivity]| | | |].
      + intros j p Hj. specialize (Hl j p Hj). pose proof (cnt_zero_all _ _ Hz j p Hj) as Hp.
        unfold local, is_presig in *; simpl in *.
        destruct (p_pc p); simpl in *; intuition (try discriminate; auto).
      + lia.
      + simpl in Ht. lia.
      + idx_solve.
    - (* LListen *)
      unfold step_prov in Hst. destruct (nth_error (s_provs s) i) as [p|] eqn:N; [|discriminate].
      destruct (p_kind p) eqn:K; try discriminate. destruct (p_pc p) eqn:PC; try discriminate.
      injection Hst as <-.
      rewrite <- (add0_stop (with_provs _ s)), <- (add0_start (with_provs _ s)).
      eapply inv_prov_step; eauto; try reflexivity.
      + specialize (Hl i p N). destruct p; simpl in *; subst. local_solve.
      + unfold is_presig; simpl. rewrite PC. reflexivity.
      + unfold is_alive; simpl. rewrite PC. reflexivity.
    - (* LSignal *)
      unfold step_prov in Hst. destruct (nth_error (s_provs s) i) as [p|] eqn:N; [|discriminate].
      assert (Hpc : (p_kind p = KHttp /\ p_pc p = GSpawned) \/ (p_kind p = KGrpc /\ p_pc p = GListened)).
      { destruct (p_kind p), (p_pc p); try discriminate; auto. }
      assert (Hs' : s' = add_startwg (-1) (with_provs (upd_nth i (fun _ => inc_sdone (set_pc GSignalled p)) (s_provs s)) s)).
      { destruct Hpc as [[K PC]|[K PC]]; rewrite K, PC in Hst; inversion Hst; reflexivity. }
      subst s'. clear Hst.
      rewrite <- (add0_stop (add_startwg _ _)).
      eapply inv_prov_step; eauto; try reflexivity.
      + specialize (Hl i p N). destruct p; simpl in *.
        destruct Hpc as [[K PC]|[K PC]]; subst; local_solve.
      + unfold is_presig; simpl. destruct Hpc as [[K PC]|[K PC]]; rewrite PC; reflexivity.
      + unfold is_alive; simpl. destruct Hpc as [[K PC]|[K PC]]; rewrite PC; reflexivity.
    - (* LServe *)
      unfold step_prov in Hst. destruct (nth_error (s_provs s) i) as [p|] eqn:N; [|discriminate].
      destruct (p_pc p) eqn:PC; try discriminate.
      destruct (p_shut p) eqn:SH; injection Hst as <-;
        rewrite <- (add0_stop (with_provs _ s)), <- (add0_start (with_provs _ s));
        (eapply inv_prov_step; eauto; try reflexivity;
         [ specialize (Hl i p N); destruct p; simpl in *; subst; local_solve
         | unfold is_presig; simpl; rewrite PC; reflexivity
         | unfold is_alive; simpl; rewrite PC; reflexivity ]).
    - (* LServeReturn *)
      unfold step_prov in Hst. destruct (nth_error (s_provs s) i) as [p|] eqn:N; [|discriminate].
      destruct (p_pc p) eqn:PC; try discriminate.
      destruct (serve_ret p); [|discriminate]. injection Hst as <-.
      rewrite <- (add0_stop (with_provs _ s)), <- (add0_start (with_provs _ s)).
      eapply inv_prov_step; eauto; try reflexivity.
      + specialize (Hl i p N). destruct p; simpl in *; subst. local_solve.
      + unfold is_presig; simpl. rewrite PC. reflexivity.
      + unfold is_alive; simpl. rewrite PC. reflexivity.
    - (* LDone *)
      unfold step_prov in Hst. destruct (nth_error (s_provs s) i) as [p|] eqn:N; [|discriminate].
      destruct (p_pc p) eqn:PC; try discriminate. injection Hst as <-.
      replace (add_stopwg (-1) (with_provs (upd_nth i (fun _ => set_pc GDone p) (s_provs s)) s))
        with (add_stopwg (-1) (add_startwg 0 (with_provs (upd_nth i (fun _ => set_pc GDone p) (s_provs s)) s)))
        by (now rewrite add0_start).
      eapply inv_prov_step; eauto; try reflexivity.
      + specialize (Hl i p N). destruct p; simpl in *; subst. local_solve.
      + unfold is_presig; simpl. rewrite PC. reflexivity.
      + unfold is_alive; simpl. rewrite PC. reflexivity.
    - (* LStopCall *)
      destruct (s_stop s) eqn:C; try discriminate.
      unfold step_prov in Hst. destruct (nth_error (s_provs s) i) as [p|] eqn:N; [|discriminate].
      injection Hst as <-. try rewrite C in *. simpl in Hi.
      set (p' := set_shut (if pc_eqb (p_pc p) GServing then set_bound false p else p)).
      assert (Hpc : p_pc p' = p_pc p) by (unfold p'; destruct (pc_eqb (p_pc p) GServing); reflexivity).
      constructor; simpl.
      + rewrite <- Hk. apply (map_kind_upd _ _ _ _ _ N). unfold p'. destruct (pc_eqb (p_pc p) GServing); reflexivity.
      + intros j q Hj. rewrite nth_error_upd_nth in Hj.
        destruct (Nat.eqb_spec j i) as [->|Hne].
        * rewrite N in Hj. simpl in Hj. inversion Hj; subst; clear Hj.
          specialize (Hl i p N). unfold p'. destruct p as [k pc sh bd fl sd]; simpl in *.
          unfold local in *; simpl in *.
          destruct pc; simpl in *; bcases; intuition (try discriminate; try lia; auto).
        * specialize (Hl j q Hj). unfold local in *; simpl in *;
            bcases; intuition (try discriminate; try lia; auto).
      + rewrite (cnt_upd _ _ _ _ _ N), Hs. unfold is_presig. rewrite Hpc. simpl. lia.
      + rewrite (cnt_upd _ _ _ _ _ N), Ht. unfold is_alive. rewrite Hpc. simpl. lia.
      + rewrite length_upd_nth. idx_solve.
    - (* LForce *)
      destruct (s_stop s) eqn:C; try discriminate.
      unfold step_prov in Hst. destruct (nth_error (s_provs s) i) as [p|] eqn:N; [|discriminate].
      destruct (p_kind p) eqn:K; try discriminate. destruct (p_inflight p) eqn:F; try discriminate.
      destruct (s_ctx s); [|discriminate]. injection Hst as <-.
      rewrite <- (add0_stop (with_provs _ s)), <- (add0_start (with_provs _ s)).
      eapply inv_prov_step; eauto; try reflexivity.
      + rewrite C. specialize (Hl i p N). destruct p; exact Hl.
      + destruct p; unfold is_presig; simpl; lia.
      + destruct p; unfold is_alive; simpl; lia.
    - (* LStopProvReturn *)
      destruct (s_stop s) eqn:C; try discriminate.
      unfold step_prov in Hst. destruct (nth_error (s_provs s) i) as [p|] eqn:N; [|discriminate].
      destruct (drain_ret p (s_ctx s)); [|discriminate]. injection Hst as <-.
      try rewrite C in *. simpl in Hi.
      constructor; simpl.
      + rewrite <- Hk. apply (map_kind_upd _ _ _ _ _ N). reflexivity.
      + intros j q Hj. rewrite nth_error_upd_nth in Hj.
        assert (Hq : nth_error (s_provs s) j = Some q).
        { destruct (Nat.eqb_spec j i) as [->|Hne]; [rewrite N in Hj; simpl in Hj; congruence|exact Hj]. }
        clear Hj. pose proof (nth_error_lt _ _ _ Hq) as Hjl. specialize (Hl j q Hq). unfold next_stop.
        destruct (Nat.ltb_spec (S i) (length (s_provs s))); unfold local in *; simpl in *;
          bcases; intuition (try discriminate; try lia; auto).
      + rewrite (cnt_upd _ _ _ _ _ N), Hs. unfold next_stop.
        destruct (S i <? length (s_provs s)); simpl; lia.
      + rewrite (cnt_upd _ _ _ _ _ N), Ht. unfold next_stop.
        destruct (S i <? length (s_provs s)); simpl; lia.
      + rewrite length_upd_nth. idx_solve.
    - (* LStopReturn *)
      destruct (s_stop s) eqn:C; try discriminate.
      destruct (Z.eqb_spec (s_stopwg s) 0) as [Z0|]; [|discriminate]. injection Hst as <-.
      assert (Hla : launched (s_start s) = true) by (destruct Hph as [E|E]; [discriminate|exact E]).
      assert (Hmid : is_mid (s_start s) = false) by (destruct (s_start s); try discriminate; reflexivity).
      rewrite Hmid in Ht. simpl in Ht.
      constructor; simpl; [first [exact Hk | reflexivity]| | | |].
      + intros j p Hj. specialize (Hl j p Hj).
        pose proof (cnt_nonneg is_alive (s_provs s)) as Hnn.
        assert (Hz : cnt is_alive (s_provs s) = 0%Z) by lia.
        pose proof (cnt_zero_all _ _ Hz j p Hj) as Hp.
        assert (Hsp : spawned_by (s_start s) j = true) by (destruct (s_start s); try discriminate; reflexivity).
        unfold local, is_alive in *; simpl in *. rewrite Hsp in *.
        destruct (p_pc p); simpl in *; intuition (try discriminate; auto).
      + exact Hs.
      + rewrite Hmid. simpl. lia.
      + idx_solve.
  Qed.

  Lemma run_inv kinds w0 ls s s' :
    (0 <= w0)%Z -> Inv kinds w0 s -> run ls s = Some s' -> Inv kinds w0 s'.
  Proof.
    intros Hw. revert s; induction ls as [|l t IH]; intros s HI Hr; simpl in Hr.
    - inversion Hr; subst; exact HI.
    - destruct (step l s) as [s1|] eqn:E; [|discriminate]. eapply IH; [|exact Hr]. eapply step_inv; eauto.
  Qed.

  Lemma reachable_inv kinds w0 s : (0 <= w0)%Z -> reachable kinds w0 s -> Inv kinds w0 s.
  Proof. intros Hw (ls & Hr). eapply run_inv; eauto. apply init_inv. Qed.

  Lemma run_app ls1 ls2 s : run (ls1 ++ ls2) s = match run ls1 s with Some s1 => run ls2 s1 | None => None end.
  Proof.
    revert s; induction ls1 as [|l t IH]; intros s; simpl; [reflexivity|].
    destruct (step l s); [apply IH|reflexivity].
  Qed.

  Lemma reachable_run kinds w0 s ls s' : reachable kinds w0 s -> run ls s = Some s' -> reachable kinds w0 s'.
  Proof. intros (l0 & H0) Hr. exists (l0 ++ ls). rewrite run_app, H0. exact Hr. Qed.

  (* ---------- safety ---------- *)
  Lemma counters_safe kinds w0 s :
    (0 <= w0)%Z -> reachable kinds w0 s -> (0 <= s_startwg s)%Z /\ (w0 <= s_stopwg s)%Z.
  Proof.
    intros Hw Hr. destruct (reachable_inv _ _ _ Hw Hr) as [_ _ Hs Ht _].
    pose proof (cnt_nonneg is_presig (s_provs s)). pose proof (cnt_nonneg is_alive (s_provs s)).
    rewrite Hs, Ht. destruct (is_cgo (s_start s)), (is_mid (s_start s)); simpl; lia.
  Qed.

  Lemma start_returned_safe kinds w0 s :
    (0 <= w0)%Z -> reachable kinds w0 s -> after_start (s_start s) = true ->
    s_startwg s = 0%Z /\
    forall j p, nth_error (s_provs s) j = Some p -> p_sdone p = 1 /\ pre_signal (p_pc p) = false.
  Proof.
    intros Hw Hr Ha. destruct (reachable_inv _ _ _ Hw Hr) as [_ Hl Hs _ _].
    assert (Hp : forall j p, nth_error (s_provs s) j = Some p -> p_sdone p = 1 /\ pre_signal (p_pc p) = false).
    { intros j p Hj. destruct (Hl j p Hj) as (_ & H2 & _ & H4 & _). specialize (H2 Ha). rewrite H2 in H4. auto. }
    split; [|exact Hp].
    rewrite Hs. rewrite cnt_all_false.
    - destruct (s_start s); simpl in *; try discriminate; reflexivity.
    - intros j p Hj. destruct (Hp j p Hj) as (_ & H). unfold is_presig. destruct (p_pc p); simpl in *; congruence.
  Qed.

  Lemma stop_returned_safe kinds w0 s :
    (0 <= w0)%Z -> reachable kinds w0 s -> s_stop s = CStopped ->
    s_stopwg s = w0 /\
    forall j p, nth_error (s_provs s) j = Some p ->
      p_pc p = GDone /\ p_bound p = false /\ p_shut p = true /\ p_sdone p = 1.
  Proof.
    intros Hw Hr Hc. destruct (reachable_inv _ _ _ Hw Hr) as [_ Hl _ Ht (_ & _ & Hph)].
    assert (Hmid : is_mid (s_start s) = false).
    { destruct Hph as [E|E]; [congruence|]. destruct (s_start s); try discriminate; reflexivity. }
    assert (Hp : forall j p, nth_error (s_provs s) j = Some p ->
                 p_pc p = GDone /\ p_bound p = false /\ p_shut p = true /\ p_sdone p = 1).
    { intros j p Hj. destruct (Hl j p Hj) as (_ & _ & H3 & H4 & H5 & _ & H7).
      specialize (H7 Hc). rewrite Hc in H3. unfold bound_of in H5. rewrite H7 in *. simpl in *. auto. }
    split; [|exact Hp].
    rewrite Ht, Hmid. rewrite cnt_all_false; [simpl; lia|].
    intros j p Hj. destruct (Hp j p Hj) as (H & _). unfold is_alive. rewrite H. reflexivity.
  Qed.

  (* the port of a provider is bound only while its goroutine is between listen and return *)
  Lemma bound_safe kinds w0 s j p :
    (0 <= w0)%Z -> reachable kinds w0 s -> nth_error (s_provs s) j = Some p ->
    p_bound p = true ->
    (p_pc p = GServing /\ p_shut p = false) \/ (p_kind p = KGrpc /\ (p_pc p = GListened \/ p_pc p = GSignalled)).
  Proof.
    intros Hw Hr Hj Hb. destruct (reachable_inv _ _ _ Hw Hr) as [_ Hl _ _ _].
    destruct (Hl j p Hj) as (_ & _ & _ & _ & H5 & H6 & _). rewrite H5 in Hb. unfold bound_of in Hb.
    destruct (p_pc p) eqn:PC; try discriminate.
    - right. auto.
    - right. destruct (p_kind p); [discriminate|auto].
    - left. destruct (p_shut p); [discriminate|auto].
  Qed.

  (* ---------- termination measure ---------- *)
  Definition rank (pc : gpc) : nat :=
    match pc with GNone => 6 | GSpawned => 5 | GListened => 4 | GSignalled => 3 | GServing => 2 | GReturned => 1 | GDone => 0 end.
  Definition srank (n : nat) (c : spc) : nat :=
    match c with
    | CIdle => 3 * n + 2
    | CAddStop i => 3 * (n - i) + 1
    | CAddStart i => 3 * (n - i)
    | CGo i => 3 * (n - i) - 1
    | CStartWait => 1
    | CRunning => 0
    end.
  Definition trank (n : nat) (t : tpc) : nat :=
    match t with
    | TIdle => 2 * n + 3
    | CStopCall i => 2 * (n - i) + 2
    | CStopDrain i => 2 * (n - i) + 1
    | CStopWait => 1
    | CStopped => 0
    end.
  Definition pweight (p : prov) : nat := rank (p_pc p) + p_inflight p.
  Definition measure (s : st) : nat :=
    srank (length (s_provs s)) (s_start s) + trank (length (s_provs s)) (s_stop s) + sumn pweight (s_provs s).

  (* labels that make progress: everything the server's own goroutines do, and requests finishing *)
  Definition progress (l : label) : bool :=
    match l with LReqEnd _ => true | _ => negb (is_env l) end.

  Lemma measure_prov s i p p' s' :
    nth_error (s_provs s) i = Some p -> pweight p' < pweight p ->
    s_provs s' = upd_nth i (fun _ => p') (s_provs s) ->
    srank (length (s_provs s)) (s_start s') + trank (length (s_provs s)) (s_stop s')
      <= srank (length (s_provs s)) (s_start s) + trank (length (s_provs s)) (s_stop s) ->
    measure s' < measure s.
  Proof.
    intros N Hw Hp Hc. unfold measure. rewrite Hp, length_upd_nth.
    pose proof (sumn_upd pweight i (fun _ => p') _ _ N). lia.
  Qed.

  Lemma step_measure kinds w0 l s s' :
    Inv kinds w0 s -> progress l = true -> step l s = Some s' -> measure s' < measure s.
  Proof.
    intros [_ _ _ _ (Hi1 & Hi2 & _)] Hp Hst. destruct l; simpl in Hp; try discriminate; simpl in Hst.
    - (* LReqEnd *)
      unfold step_prov in Hst. destruct (nth_error (s_provs s) i) as [p|] eqn:N; [|discriminate].
      destruct (p_inflight p) as [|k] eqn:F; [discriminate|]. injection Hst as <-.
      eapply (measure_prov s i p (set_inflight k p)); eauto. unfold pweight; simpl. lia.
    - destruct (s_start s) eqn:C; try discriminate. injection Hst as <-.
      unfold measure; simpl; rewrite C; unfold srank; lia.
    - destruct (s_start s) eqn:C; try discriminate. injection Hst as <-.
      unfold measure; simpl; rewrite C; unfold srank; lia.
    - destruct (s_start s) eqn:C; try discriminate.
      unfold step_prov in Hst. destruct (nth_error (s_provs s) i) as [p|] eqn:N; [|discriminate].
      destruct (p_pc p) eqn:PC; try discriminate. injection Hst as <-.
      eapply (measure_prov s i p (set_pc GSpawned p)); eauto; simpl.
      + unfold pweight; simpl. rewrite PC. simpl. lia.
      + rewrite C. unfold next_start. destruct (Nat.ltb_spec (S i) (length (s_provs s))); simpl; lia.
    - destruct (s_start s) eqn:C; try discriminate.
      destruct (Z.eqb (s_startwg s) 0); [|discriminate]. injection Hst as <-.
      unfold measure; simpl; rewrite C; unfold srank; lia.
    - unfold step_prov in Hst. destruct (nth_error (s_provs s) i) as [p|] eqn:N; [|discriminate].
      destruct (p_kind p); try discriminate. destruct (p_pc p) eqn:PC; try discriminate. injection Hst as <-.
      eapply (measure_prov s i p (set_bound true (set_pc GListened p))); eauto; simpl. unfold pweight; simpl. rewrite PC. simpl. lia.
    - unfold step_prov in Hst. destruct (nth_error (s_provs s) i) as [p|] eqn:N; [|discriminate].
      assert (Hpc : p_pc p = GSpawned \/ p_pc p = GListened) by (destruct (p_kind p), (p_pc p); try discriminate; auto).
      assert (Hs' : s' = add_startwg (-1) (with_provs (upd_nth i (fun _ => inc_sdone (set_pc GSignalled p)) (s_provs s)) s)).
      { destruct (p_kind p), (p_pc p); try discriminate; inversion Hst; reflexivity. }
      subst s'. eapply (measure_prov s i p (inc_sdone (set_pc GSignalled p))); eauto; simpl.
      unfold pweight; simpl. destruct Hpc as [-> | ->]; simpl; lia.
    - unfold step_prov in Hst. destruct (nth_error (s_provs s) i) as [p|] eqn:N; [|discriminate].
      destruct (p_pc p) eqn:PC; try discriminate.
      destruct (p_shut p); injection Hst as <-.
      + eapply (measure_prov s i p (set_bound false (set_pc GReturned p))); eauto; simpl.
        unfold pweight; simpl; rewrite PC; simpl; lia.
      + eapply (measure_prov s i p (set_bound true (set_pc GServing p))); eauto; simpl.
        unfold pweight; simpl; rewrite PC; simpl; lia.
    - unfold step_prov in Hst. destruct (nth_error (s_provs s) i) as [p|] eqn:N; [|discriminate].
      destruct (p_pc p) eqn:PC; try discriminate. destruct (serve_ret p); [|discriminate]. injection Hst as <-.
      eapply (measure_prov s i p (set_bound false (set_pc GReturned p))); eauto; simpl. unfold pweight; simpl. rewrite PC. simpl. lia.
    - unfold step_prov in Hst. destruct (nth_error (s_provs s) i) as [p|] eqn:N; [|discriminate].
      destruct (p_pc p) eqn:PC; try discriminate. injection Hst as <-.
      eapply (measure_prov s i p (set_pc GDone p)); eauto; simpl. unfold pweight; simpl. rewrite PC. simpl. lia.
    - destruct (s_stop s) eqn:C; try discriminate.
      unfold step_prov in Hst. destruct (nth_error (s_provs s) i) as [p|] eqn:N; [|discriminate].
      injection Hst as <-. unfold measure; simpl. rewrite length_upd_nth, C.
      set (p' := set_shut (if pc_eqb (p_pc p) GServing then set_bound false p else p)).
      assert (Hpw : pweight p' = pweight p) by (unfold p', pweight; destruct (pc_eqb (p_pc p) GServing); reflexivity).
      pose proof (sumn_upd pweight i (fun _ => p') _ _ N). simpl. lia.
    - destruct (s_stop s) eqn:C; try discriminate.
      unfold step_prov in Hst. destruct (nth_error (s_provs s) i) as [p|] eqn:N; [|discriminate].
      destruct (p_kind p); try discriminate. destruct (p_inflight p) eqn:F; try discriminate.
      destruct (s_ctx s); [|discriminate]. injection Hst as <-.
      eapply (measure_prov s i p (set_inflight 0 p)); eauto; simpl. unfold pweight; simpl. lia.
    - destruct (s_stop s) eqn:C; try discriminate.
      unfold step_prov in Hst. destruct (nth_error (s_provs s) i) as [p|] eqn:N; [|discriminate].
      destruct (drain_ret p (s_ctx s)); [|discriminate]. injection Hst as <-.
      unfold measure; simpl. rewrite length_upd_nth, C.
      pose proof (sumn_upd pweight i (fun _ => p) _ _ N).
      unfold next_stop. destruct (Nat.ltb_spec (S i) (length (s_provs s))); simpl; lia.
    - destruct (s_stop s) eqn:C; try discriminate.
      destruct (Z.eqb (s_stopwg s) 0); [|discriminate]. injection Hst as <-.
      unfold measure; simpl; rewrite C; unfold trank; lia.
  Qed.
End Proofs.

(* ---------- progress under the library contracts ---------- *)
Section Liveness.
  Variable serve_ret : prov -> bool.
  Variable drain_ret : prov -> bool -> bool.
  Local Notation step := (step serve_ret drain_ret).
  Local Notation run := (run serve_ret drain_ret).
  Local Notation reachable := (reachable serve_ret drain_ret).

  (* L1 / L2: once Shutdown / GracefulStop has been called the serve loop returns *)
  Hypothesis L1 : forall p, p_shut p = true -> serve_ret p = true.
  (* L3: Shutdown / GracefulStop returns when nothing is in flight; Shutdown also when its context ended *)
  Hypothesis L3 : forall p c, p_inflight p = 0 \/ (c = true /\ p_kind p = KHttp) -> drain_ret p c = true.

  Definition enabled (s : st) : Prop := exists l, is_env l = false /\ step l s <> None.
  Definition blocked_on_inflight (s : st) : Prop :=
    exists i p, s_stop s = CStopDrain i /\ nth_error (s_provs s) i = Some p /\
                0 < p_inflight p /\ s_ctx s = false.

  (* a provider that still owes startWg.Done() can take a step *)
  Lemma presig_enabled kinds w0 s j p :
    Inv kinds w0 s -> nth_error (s_provs s) j = Some p -> is_presig p = true -> enabled s.
  Proof.
    intros [_ Hl _ _ _] Hj Hp. destruct (Hl j p Hj) as (_ & _ & _ & _ & _ & H6 & _).
    unfold is_presig in Hp. destruct (p_pc p) eqn:PC; try discriminate.
    - destruct (p_kind p) eqn:K.
      + exists (LSignal j). split; [reflexivity|]. simpl. unfold step_prov. rewrite Hj, K, PC. discriminate.
      + exists (LListen j). split; [reflexivity|]. simpl. unfold step_prov. rewrite Hj, K, PC. discriminate.
    - exists (LSignal j). split; [reflexivity|]. simpl. unfold step_prov. rewrite Hj, (H6 eq_refl), PC. discriminate.
  Qed.

  Lemma start_not_stuck kinds w0 s : Inv kinds w0 s -> in_start (s_start s) = true -> enabled s.
  Proof.
    intros HI Hc. pose proof HI as [_ Hl Hs _ (Hi & _ & _)]. destruct (s_start s) eqn:C; try discriminate.
    - exists LAddStop. split; [reflexivity|]. simpl. rewrite C. discriminate.
    - exists LAddStart. split; [reflexivity|]. simpl. rewrite C. discriminate.
    - simpl in Hi. destruct (nth_error (s_provs s) i) as [p|] eqn:N.
      2:{ apply nth_error_None in N. lia. }
      destruct (Hl i p N) as (H1 & _). simpl in H1. rewrite Nat.ltb_irrefl in H1. simpl in H1.
      exists LGo. split; [reflexivity|]. simpl. rewrite C. unfold step_prov. rewrite N.
      destruct (p_pc p); try discriminate.
    - destruct (Z.eqb_spec (s_startwg s) 0) as [Z0|Zn].
      + exists LStartReturn. split; [reflexivity|]. simpl. rewrite C. rewrite Z0. discriminate.
      + simpl in Hs. pose proof (cnt_nonneg is_presig (s_provs s)).
        destruct (cnt_pos_exists is_presig (s_provs s)) as (j & p & Hj & Hp); [lia|].
        eapply presig_enabled; eauto.
  Qed.

  Lemma stop_not_stuck kinds s :
    Inv kinds 0%Z s -> in_stop (s_stop s) = true -> enabled s \/ blocked_on_inflight s.
  Proof.
    intros HI Hc. pose proof HI as [_ Hl _ Ht (_ & Hi & Hph)]. destruct (s_stop s) eqn:C; try discriminate.
    - (* CStopCall *)
      left. simpl in Hi. destruct (nth_error (s_provs s) i) as [p|] eqn:N.
      2:{ apply nth_error_None in N. lia. }
      exists LStopCall. split; [reflexivity|]. simpl. rewrite C. unfold step_prov. rewrite N. discriminate.
    - (* CStopDrain *)
      simpl in Hi. destruct (nth_error (s_provs s) i) as [p|] eqn:N.
      2:{ apply nth_error_None in N. lia. }
      destruct (drain_ret p (s_ctx s)) eqn:D.
      + left. exists LStopProvReturn. split; [reflexivity|]. simpl. rewrite C. unfold step_prov. rewrite N, D. discriminate.
      + destruct (p_inflight p) as [|k] eqn:F.
        { rewrite L3 in D; [discriminate|auto]. }
        destruct (s_ctx s) eqn:X.
        * destruct (p_kind p) eqn:K.
          { rewrite L3 in D; [discriminate|auto]. }
          left. exists LForce. split; [reflexivity|]. simpl. rewrite C. unfold step_prov. rewrite N, K, F, X. discriminate.
        * right. exists i, p. repeat split; auto. lia.
    - (* CStopWait *)
      left. destruct (Z.eqb_spec (s_stopwg s) 0) as [Z0|Zn].
      + exists LStopReturn. split; [reflexivity|]. simpl. rewrite C, Z0. discriminate.
      + assert (Hmid : is_mid (s_start s) = false).
        { destruct Hph as [E|E]; [discriminate|]. destruct (s_start s); try discriminate; reflexivity. }
        rewrite Hmid in Ht. simpl in Ht. pose proof (cnt_nonneg is_alive (s_provs s)).
        destruct (cnt_pos_exists is_alive (s_provs s)) as (j & p & Hj & Hp); [lia|].
        destruct (Hl j p Hj) as (_ & _ & H3 & _). simpl in H3.
        destruct (is_presig p) eqn:PS; [eapply presig_enabled; eauto|].
        unfold is_alive in Hp. unfold is_presig in PS. destruct (p_pc p) eqn:PC; try discriminate.
        * exists (LServe j). split; [reflexivity|]. simpl. unfold step_prov. rewrite Hj, PC. destruct (p_shut p); discriminate.
        * exists (LServeReturn j). split; [reflexivity|]. simpl. unfold step_prov. rewrite Hj, PC, (L1 p H3). discriminate.
        * exists (LDone j). split; [reflexivity|]. simpl. unfold step_prov. rewrite Hj, PC. discriminate.
  Qed.

  (* ---------- maximal runs ---------- *)
  Definition progress_run (ls : list label) : Prop := Forall (fun l => progress l = true) ls.

  Lemma run_measure kinds w0 ls s s' :
    (0 <= w0)%Z -> Inv kinds w0 s -> progress_run ls -> run ls s = Some s' ->
    length ls + measure s' <= measure s.
  Proof.
    intros Hw. revert s; induction ls as [|l t IH]; intros s HI Hp Hr; simpl in Hr.
    - inversion Hr; subst. simpl. lia.
    - inversion Hp as [|? ? Hl Ht]; subst.
      destruct (step l s) as [s1|] eqn:E; [|discriminate].
      pose proof (step_measure serve_ret drain_ret kinds w0 l s s1 HI Hl E).
      pose proof (IH s1 (step_inv serve_ret drain_ret kinds w0 l s s1 Hw HI E) Ht Hr). simpl. lia.
  Qed.

  (* which caller positions a progress step can lead to *)
  Lemma step_caller_start l s s' :
    progress l = true -> step l s = Some s' ->
    (in_start (s_start s) = true \/ s_start s = CRunning) ->
    (in_start (s_start s') = true \/ s_start s' = CRunning).
  Proof.
    intros Hp Hst Hc. destruct l; simpl in Hp; try discriminate; simpl in Hst;
      unfold step_prov in Hst;
      repeat match type of Hst with
             | context [match s_start s with _ => _ end] => destruct (s_start s) eqn:C
             | context [match s_stop s with _ => _ end] => destruct (s_stop s) eqn:T
             | context [match nth_error ?l ?i with _ => _ end] => destruct (nth_error l i) as [p|] eqn:N
             | context [match p_inflight ?p with _ => _ end] => destruct (p_inflight p)
             | context [match p_kind ?p with _ => _ end] => destruct (p_kind p)
             | context [match p_pc ?p with _ => _ end] => destruct (p_pc p)
             | context [if ?b then _ else _] => destruct b eqn:?
             end; try discriminate; try (injection Hst as <-); simpl in *; auto;
      try (destruct Hc as [Hc|Hc]; discriminate); try (rewrite C; simpl; now auto).
    all: unfold next_start; destruct (S i <? length (s_provs s)); simpl; auto.
  Qed.

  Lemma step_caller_stop l s s' :
    progress l = true -> step l s = Some s' ->
    (in_stop (s_stop s) = true \/ s_stop s = CStopped) ->
    (in_stop (s_stop s') = true \/ s_stop s' = CStopped).
  Proof.
    intros Hp Hst Hc. destruct l; simpl in Hp; try discriminate; simpl in Hst;
      unfold step_prov in Hst;
      repeat match type of Hst with
             | context [match s_stop s with _ => _ end] => destruct (s_stop s) eqn:C
             | context [match s_start s with _ => _ end] => destruct (s_start s) eqn:T
             | context [match nth_error ?l ?i with _ => _ end] => destruct (nth_error l i) as [p|] eqn:N
             | context [match p_inflight ?p with _ => _ end] => destruct (p_inflight p)
             | context [match p_kind ?p with _ => _ end] => destruct (p_kind p)
             | context [match p_pc ?p with _ => _ end] => destruct (p_pc p)
             | context [if ?b then _ else _] => destruct b eqn:?
             end; try discriminate; try (injection Hst as <-); simpl in *; auto;
      try (destruct Hc as [Hc|Hc]; discriminate); try (rewrite C; simpl; now auto).
    all: unfold next_stop; destruct (S i <? length (s_provs s)); simpl; auto.
  Qed.

  Lemma run_caller_start ls s s' :
    progress_run ls -> run ls s = Some s' ->
    (in_start (s_start s) = true \/ s_start s = CRunning) ->
    (in_start (s_start s') = true \/ s_start s' = CRunning).
  Proof.
    revert s; induction ls as [|l t IH]; intros s Hp Hr Hc; simpl in Hr.
    - inversion Hr; subst; exact Hc.
    - inversion Hp; subst. destruct (step l s) as [s1|] eqn:E; [|discriminate].
      eapply IH; eauto. eapply step_caller_start; eauto.
  Qed.
  Lemma run_caller_stop ls s s' :
    progress_run ls -> run ls s = Some s' ->
    (in_stop (s_stop s) = true \/ s_stop s = CStopped) ->
    (in_stop (s_stop s') = true \/ s_stop s' = CStopped).
  Proof.
    revert s; induction ls as [|l t IH]; intros s Hp Hr Hc; simpl in Hr.
    - inversion Hr; subst; exact Hc.
    - inversion Hp; subst. destruct (step l s) as [s1|] eqn:E; [|discriminate].
      eapply IH; eauto. eapply step_caller_stop; eauto.
  Qed.

  (* Start: every run of the server's own steps from a state inside Start is bounded by the measure,
     and when nothing more can happen Start has returned *)
  Lemma start_terminates kinds w0 s ls s' :
    (0 <= w0)%Z -> reachable kinds w0 s -> in_start (s_start s) = true ->
    progress_run ls -> run ls s = Some s' ->
    length ls <= measure s /\ (~ enabled s' -> s_start s' = CRunning).
  Proof.
    intros Hw Hr Hc Hp Hrun. pose proof (reachable_inv _ _ _ _ _ Hw Hr) as HI.
    split.
    - pose proof (run_measure _ _ _ _ _ Hw HI Hp Hrun). lia.
    - intros Hne. destruct (run_caller_start _ _ _ Hp Hrun (or_introl Hc)) as [Hin|Hrn]; [|exact Hrn].
      exfalso. apply Hne. eapply start_not_stuck; eauto. eapply run_inv; eauto.
  Qed.

  (* Stop: the same, with requests finishing counted as progress; when neither the server nor a request
     in flight can take a step, Stop has returned *)
  Lemma stop_terminates kinds s ls s' :
    reachable kinds 0%Z s -> in_stop (s_stop s) = true ->
    progress_run ls -> run ls s = Some s' ->
    length ls <= measure s /\
    (~ enabled s' -> (forall i, step (LReqEnd i) s' = None) \/ s_ctx s' = true -> s_stop s' = CStopped).
  Proof.
    intros Hr Hc Hp Hrun. assert (Hw : (0 <= 0)%Z) by lia.
    pose proof (reachable_inv _ _ _ _ _ Hw Hr) as HI.
    split.
    - pose proof (run_measure _ _ _ _ _ Hw HI Hp Hrun). lia.
    - intros Hne Hq. destruct (run_caller_stop _ _ _ Hp Hrun (or_introl Hc)) as [Hin|Hst]; [|exact Hst].
      exfalso. destruct (stop_not_stuck kinds s' (run_inv _ _ _ _ _ _ _ Hw HI Hrun) Hin) as [He|(i & p & C & N & F & X)].
      + exact (Hne He).
      + destruct Hq as [Hq|Hq]; [|congruence].
        specialize (Hq i). simpl in Hq. unfold step_prov in Hq. rewrite N in Hq.
        destruct (p_inflight p); [lia|discriminate].
  Qed.
End Liveness.

(* ---------- what the converse contracts give ---------- *)
Section Converse.
  Variable serve_ret : prov -> bool.
  Variable drain_ret : prov -> bool -> bool.
  Local Notation step := (step serve_ret drain_ret).
  Local Notation run := (run serve_ret drain_ret).
  Local Notation reachable := (reachable serve_ret drain_ret).

  (* L1c: the serve loop returns ONLY after Shutdown / GracefulStop (i.e. listening did not fail) *)
  Hypothesis L1c : forall p, serve_ret p = true -> p_shut p = true.
  (* L3c: Shutdown / GracefulStop returns ONLY when nothing is in flight or the context has ended *)
  Hypothesis L3c : forall p c, drain_ret p c = true -> p_inflight p = 0 \/ c = true.

  Definition drained_by (c : tpc) (j : nat) : bool :=
    match c with
    | CStopCall i | CStopDrain i => j <? i
    | CStopWait | CStopped => true
    | _ => false
    end.

  Definition Inv2 (s : st) : Prop :=
    forall j p, nth_error (s_provs s) j = Some p ->
      ((p_pc p = GReturned \/ p_pc p = GDone) -> p_shut p = true) /\
      (s_ctx s = false -> drained_by (s_stop s) j = true -> p_inflight p = 0) /\
      (pre_signal (p_pc p) = true -> p_inflight p = 0).

  Lemma inv2_start s c' : Inv2 s -> Inv2 (with_start c' s).
  Proof. intros H. exact H. Qed.

  Lemma inv2_caller s c' :
    Inv2 s ->
    (forall j, j < length (s_provs s) -> drained_by c' j = true -> drained_by (s_stop s) j = true) ->
    Inv2 (with_stop c' s).
  Proof.
    intros H2 Hd j q Hj. simpl in *. destruct (H2 j q Hj) as (A & B & D). repeat split; auto.
    intros X Y. apply B; auto. apply Hd; auto. eapply nth_error_lt; eauto.
  Qed.

  Lemma inv2_prov s i p p' :
    Inv2 s -> nth_error (s_provs s) i = Some p ->
    ((p_pc p' = GReturned \/ p_pc p' = GDone) -> p_shut p' = true) ->
    (s_ctx s = false -> drained_by (s_stop s) i = true -> p_inflight p' = 0) ->
    (pre_signal (p_pc p') = true -> p_inflight p' = 0) ->
    Inv2 (with_provs (upd_nth i (fun _ => p') (s_provs s)) s).
  Proof.
    intros H2 N C1 C2 C3 j q Hj. simpl in *. rewrite nth_error_upd_nth in Hj.
    destruct (Nat.eqb_spec j i) as [->|Hne]; [|exact (H2 j q Hj)].
    rewrite N in Hj. simpl in Hj. injection Hj as <-. auto.
  Qed.

  Lemma inv2_addstart d s : Inv2 s -> Inv2 (add_startwg d s).
  Proof. intros H. exact H. Qed.
  Lemma inv2_addstop d s : Inv2 s -> Inv2 (add_stopwg d s).
  Proof. intros H. exact H. Qed.

  Lemma step_inv2 kinds w0 l s s' :
    Inv kinds w0 s -> Inv2 s -> step l s = Some s' -> Inv2 s'.
  Proof.
    intros HI H2 Hst. pose proof HI as [_ Hl _ _ (_ & Hi & _)].
    destruct l; simpl in Hst; unfold step_prov in Hst.
    - (* LCallStart *)
      destruct (s_start s) eqn:C; try discriminate. injection Hst as <-. apply inv2_start; auto.
    - (* LCallStop *)
      destruct (s_stop s) eqn:T; try discriminate.
      assert (E : s' = with_stop (if 0 <? length (s_provs s) then CStopCall 0 else CStopWait) s)
        by (destruct (s_start s); try discriminate; injection Hst as <-; reflexivity).
      subst s'. apply inv2_caller; auto. intros j Hj. destruct (Nat.ltb_spec 0 (length (s_provs s))); simpl; [discriminate|lia].
    - (* LCtxExpire *)
      injection Hst as <-. intros j q Hj. simpl in *. destruct (H2 j q Hj) as (A & B & D).
      repeat split; auto. discriminate.
    - (* LReqBegin *)
      destruct (nth_error (s_provs s) i) as [p|] eqn:N; [|discriminate].
      destruct (pc_eqb (p_pc p) GServing && negb (p_shut p)) eqn:G; [|discriminate].
      apply andb_prop in G. destruct G as (G1 & G2). injection Hst as <-.
      destruct (H2 i p N) as (A & B & D). destruct (Hl i p N) as (_ & _ & H3 & _).
      destruct (p_pc p) eqn:PC; try discriminate.
      eapply inv2_prov; eauto; simpl; rewrite ?PC.
      + intros [E|E]; discriminate.
      + intros X Y. exfalso. rewrite H3 in G2.
        destruct (s_stop s); simpl in *; try discriminate; bcases; try discriminate; try lia.
      + discriminate.
    - (* LReqEnd *)
      destruct (nth_error (s_provs s) i) as [p|] eqn:N; [|discriminate].
      destruct (p_inflight p) as [|k] eqn:F; [discriminate|]. injection Hst as <-.
      destruct (H2 i p N) as (A & B & D).
      eapply inv2_prov; eauto; simpl.
      + intros X Y. specialize (B X Y). lia.
      + intros X. specialize (D X). lia.
    - (* LAddStop *)
      destruct (s_start s) eqn:C; try discriminate. injection Hst as <-.
      apply inv2_start. apply inv2_addstop; auto.
    - (* LAddStart *)
      destruct (s_start s) eqn:C; try discriminate. injection Hst as <-.
      apply inv2_start. apply inv2_addstart; auto.
    - (* LGo *)
      destruct (s_start s) eqn:C; try discriminate.
      destruct (nth_error (s_provs s) i) as [p|] eqn:N; [|discriminate].
      destruct (p_pc p) eqn:PC; try discriminate. injection Hst as <-.
      destruct (H2 i p N) as (A & B & D). rewrite PC in D.
      apply inv2_start.
      eapply inv2_prov; eauto; simpl;
          first [ intros [E|E]; discriminate | intros _ _; apply D; reflexivity | intros _; apply D; reflexivity ].
    - (* LStartReturn *)
      destruct (s_start s) eqn:C; try discriminate.
      destruct (Z.eqb (s_startwg s) 0); [|discriminate]. injection Hst as <-.
      apply inv2_start; auto.
    - (* LListen *)
      destruct (nth_error (s_provs s) i) as [p|] eqn:N; [|discriminate].
      destruct (p_kind p); try discriminate. destruct (p_pc p) eqn:PC; try discriminate. injection Hst as <-.
      destruct (H2 i p N) as (A & B & D). rewrite PC in D.
      eapply inv2_prov; eauto; simpl; try (intros [E|E]; discriminate).
    - (* LSignal *)
      destruct (nth_error (s_provs s) i) as [p|] eqn:N; [|discriminate].
      assert (Hpc : pre_signal (p_pc p) = true) by (destruct (p_kind p), (p_pc p); try discriminate; reflexivity).
      assert (Hs' : s' = add_startwg (-1) (with_provs (upd_nth i (fun _ => inc_sdone (set_pc GSignalled p)) (s_provs s)) s)).
      { destruct (p_kind p), (p_pc p); try discriminate; inversion Hst; reflexivity. }
      subst s'. clear Hst. destruct (H2 i p N) as (A & B & D).
      apply inv2_addstart. eapply inv2_prov; eauto; simpl; try discriminate; try (intros [E|E]; discriminate).
    - (* LServe *)
      destruct (nth_error (s_provs s) i) as [p|] eqn:N; [|discriminate].
      destruct (p_pc p) eqn:PC; try discriminate. destruct (H2 i p N) as (A & B & D).
      destruct (p_shut p) eqn:SH; injection Hst as <-; (eapply inv2_prov; eauto; simpl; try discriminate);
        try (intros [E|E]; discriminate).
    - (* LServeReturn *)
      destruct (nth_error (s_provs s) i) as [p|] eqn:N; [|discriminate].
      destruct (p_pc p) eqn:PC; try discriminate. destruct (serve_ret p) eqn:SR; [|discriminate].
      injection Hst as <-. destruct (H2 i p N) as (A & B & D).
      eapply inv2_prov; eauto; simpl; try discriminate; try (intros _; apply L1c, SR).
    - (* LDone *)
      destruct (nth_error (s_provs s) i) as [p|] eqn:N; [|discriminate].
      destruct (p_pc p) eqn:PC; try discriminate. injection Hst as <-.
      destruct (H2 i p N) as (A & B & D).
      apply inv2_addstop. eapply inv2_prov; eauto; simpl; try discriminate; try (intros _; apply A; left; reflexivity).
    - (* LStopCall *)
      destruct (s_stop s) eqn:C; try discriminate.
      destruct (nth_error (s_provs s) i) as [p|] eqn:N; [|discriminate]. injection Hst as <-.
      destruct (H2 i p N) as (A & B & D).
      assert (E1 : p_pc (set_shut (if pc_eqb (p_pc p) GServing then set_bound false p else p)) = p_pc p)
        by (destruct (pc_eqb (p_pc p) GServing); reflexivity).
      assert (E2 : p_inflight (set_shut (if pc_eqb (p_pc p) GServing then set_bound false p else p)) = p_inflight p)
        by (destruct (pc_eqb (p_pc p) GServing); reflexivity).
      apply inv2_caller.
      + eapply inv2_prov; eauto; rewrite ?E1, ?E2; auto.
      + intros j _. simpl. rewrite C. simpl. auto.
    - (* LForce *)
      destruct (s_stop s) eqn:C; try discriminate.
      destruct (nth_error (s_provs s) i) as [p|] eqn:N; [|discriminate].
      destruct (p_kind p); try discriminate. destruct (p_inflight p) eqn:F; try discriminate.
      destruct (s_ctx s) eqn:X; [|discriminate]. injection Hst as <-.
      destruct (H2 i p N) as (A & B & D).
      eapply inv2_prov; eauto.
    - (* LStopProvReturn *)
      destruct (s_stop s) eqn:C; try discriminate.
      destruct (nth_error (s_provs s) i) as [p|] eqn:N; [|discriminate].
      destruct (drain_ret p (s_ctx s)) eqn:DR; [|discriminate]. injection Hst as <-.
      intros j q Hj. simpl in *. rewrite nth_error_upd_nth in Hj.
      assert (Hq : nth_error (s_provs s) j = Some q).
      { destruct (Nat.eqb_spec j i) as [->|Hne]; [rewrite N in Hj; simpl in Hj; congruence|exact Hj]. }
      destruct (H2 j q Hq) as (A & B & D). rewrite C in B. simpl in B. repeat split; auto.
      intros X Y. destruct (Nat.eq_dec j i) as [->|Hne].
      + rewrite N in Hq. injection Hq as <-. destruct (L3c _ _ DR) as [Z|Z]; [exact Z|congruence].
      + apply B; auto. pose proof (nth_error_lt _ _ _ Hq). try rewrite C in Hi. simpl in Hi.
        unfold next_stop in Y. destruct (Nat.ltb_spec (S i) (length (s_provs s))); simpl in Y; bcases; try discriminate; try lia; auto.
    - (* LStopReturn *)
      destruct (s_stop s) eqn:C; try discriminate.
      destruct (Z.eqb (s_stopwg s) 0); [|discriminate]. injection Hst as <-.
      apply inv2_caller; auto. intros j _ _. rewrite C. reflexivity.
  Qed.

  Lemma init_inv2 kinds w0 : Inv2 (init kinds w0).
  Proof.
    intros j p Hj. simpl in Hj. rewrite nth_error_map in Hj. destruct (nth_error kinds j); [|discriminate].
    injection Hj as <-. simpl. repeat split; auto. intros [E|E]; discriminate.
  Qed.

  Lemma reachable_inv2 kinds w0 s : (0 <= w0)%Z -> reachable kinds w0 s -> Inv2 s.
  Proof.
    intros Hw (ls & Hr).
    assert (G : forall ls s0, Inv kinds w0 s0 -> Inv2 s0 -> run ls s0 = Some s -> Inv2 s).
    { clear ls Hr. induction ls as [|l t IH]; intros s0 HI H2 Hr; simpl in Hr.
      - inversion Hr; subst; exact H2.
      - destruct (step l s0) as [s1|] eqn:E; [|discriminate].
        eapply IH; [| |exact Hr]; [eapply step_inv; eauto|eapply step_inv2; eauto]. }
    eapply G; [apply init_inv|apply init_inv2|exact Hr].
  Qed.

  (* Start has returned, Stop not yet called, nothing more to do: every provider is serving on an open socket *)
  Lemma listeners_up kinds w0 s :
    (0 <= w0)%Z -> reachable kinds w0 s -> s_start s = CRunning -> s_stop s = TIdle ->
    (forall l, is_env l = false -> step l s = None) ->
    forall j p, nth_error (s_provs s) j = Some p -> p_pc p = GServing /\ p_bound p = true.
  Proof.
    intros Hw Hr Hc Ht Hq j p Hj.
    destruct (reachable_inv _ _ _ _ _ Hw Hr) as [_ Hl _ _ _].
    destruct (Hl j p Hj) as (_ & H2 & H3 & _ & H5 & _). rewrite Hc, Ht in *. simpl in *. specialize (H2 eq_refl).
    destruct (reachable_inv2 _ _ _ Hw Hr j p Hj) as (A & _).
    destruct (p_pc p) eqn:PC; try discriminate.
    - exfalso. specialize (Hq (LServe j) eq_refl). simpl in Hq. unfold step_prov in Hq. rewrite Hj, PC in Hq.
      destruct (p_shut p); discriminate.
    - split; [reflexivity|]. rewrite H5. unfold bound_of. rewrite PC, H3. reflexivity.
    - rewrite A in H3; [discriminate|auto].
    - rewrite A in H3; [discriminate|auto].
  Qed.

  (* Stop returned before its context ended: no request is in flight any more on any provider *)
  Lemma stop_waited_for_inflight kinds w0 s :
    (0 <= w0)%Z -> reachable kinds w0 s -> s_stop s = CStopped -> s_ctx s = false ->
    forall j p, nth_error (s_provs s) j = Some p -> p_inflight p = 0.
  Proof.
    intros Hw Hr Hc Hx j p Hj. destruct (reachable_inv2 _ _ _ Hw Hr j p Hj) as (_ & B & _).
    apply B; auto. rewrite Hc. reflexivity.
  Qed.
End Converse.

(* ---------- the contracts are satisfiable: the exact library behaviour ---------- *)
Lemma lib_L1 : forall p, p_shut p = true -> lib_serve_ret p = true.
Proof. intros p H. exact H. Qed.
Lemma lib_L3 : forall p c, p_inflight p = 0 \/ (c = true /\ p_kind p = KHttp) -> lib_drain_ret p c = true.
Proof.
  intros p c [H|(-> & K)]; unfold lib_drain_ret.
  - rewrite H. reflexivity.
  - rewrite K. simpl. apply orb_true_r.
Qed.
Lemma lib_L1c : forall p, lib_serve_ret p = true -> p_shut p = true.
Proof. intros p H. exact H. Qed.
Lemma lib_L3c : forall p c, lib_drain_ret p c = true -> p_inflight p = 0 \/ c = true.
Proof.
  intros p c H. unfold lib_drain_ret in H. apply orb_prop in H. destruct H as [H|H].
  - left. apply Nat.eqb_eq, H.
  - right. apply andb_prop in H. tauto.
Qed.
