(* FilterInPlace with a stateful predicate (a Go closure with its own variables): the in-place loop of
   Model/SliceOps.v equals one ordered pass that offers each element to the predicate exactly once. *)
From Coq Require Import List Arith Bool Lia.
From TC.Lib Require Import ListAux.
From TC.Model Require Import SliceOps.
From TC.Proofs Require Import SliceOpsProofs.
Import ListNotations.

Section FilterSt.
  Context {A St : Type}.
  Variable zero : A.
  Variable keep : St -> A -> bool * St.

  Lemma filter_st_app (st : St) (l1 l2 : list A) :
    filter_st keep st (l1 ++ l2) =
      (fst (filter_st keep st l1) ++ fst (filter_st keep (snd (filter_st keep st l1)) l2),
       snd (filter_st keep (snd (filter_st keep st l1)) l2)).
  Proof.
    revert st; induction l1 as [|e t IH]; intros st.
    - cbn [app filter_st fst snd]. destruct (filter_st keep st l2); reflexivity.
    - cbn [app filter_st]. destruct (keep st e) as [k st1]. rewrite IH.
      destruct (filter_st keep st1 t) as [r st2]. cbn [fst snd].
      destruct k; reflexivity.
  Qed.

  Lemma filter_st_length_le (st : St) (l : list A) : length (fst (filter_st keep st l)) <= length l.
  Proof.
    revert st; induction l as [|e t IH]; intros st; cbn [filter_st]; [simpl; lia|].
    destruct (keep st e) as [k st1]. specialize (IH st1).
    destruct (filter_st keep st1 t) as [r st2]. cbn [fst] in *. destruct k; simpl; lia.
  Qed.

  Lemma filter_loop_st_spec (st0 : St) (l : list A) :
    forall fuel a idx w st,
      w <= idx -> idx + fuel = length l -> length a = length l ->
      skipn idx a = skipn idx l ->
      firstn w a = fst (filter_st keep st0 (firstn idx l)) ->
      st = snd (filter_st keep st0 (firstn idx l)) ->
      exists a',
        filter_loop_st keep st a idx w fuel
          = (a', length (fst (filter_st keep st0 l)), snd (filter_st keep st0 l))
        /\ length a' = length l
        /\ firstn (length (fst (filter_st keep st0 l))) a' = fst (filter_st keep st0 l).
  Proof.
    induction fuel as [|f IH]; intros a idx w st Hw Hf Hla Hsk Hfw Hst.
    - assert (idx = length l) by lia. subst idx.
      rewrite firstn_all in Hfw, Hst.
      assert (Hwl : w = length (fst (filter_st keep st0 l))).
      { rewrite <- Hfw, firstn_length. lia. }
      exists a. cbn [filter_loop_st]. rewrite <- Hwl, Hst. repeat split; auto.
    - cbn [filter_loop_st].
      assert (Hidx : idx < length l) by lia.
      rewrite nth_error_skipn_hd, Hsk.
      destruct (skipn idx l) as [|e rest] eqn:Hs.
      { apply (f_equal (@length A)) in Hs. rewrite skipn_length in Hs. simpl in Hs. lia. }
      cbn [hd_error].
      assert (Hfi : firstn (S idx) l = firstn idx l ++ [e]).
      { rewrite <- (firstn_skipn idx l) at 1. rewrite Hs.
        rewrite firstn_app, firstn_length.
        replace (Nat.min idx (length l)) with idx by lia.
        replace (S idx - idx) with 1 by lia.
        rewrite firstn_firstn. replace (Nat.min (S idx) idx) with idx by lia.
        reflexivity. }
      assert (Hsk' : forall a0, skipn idx a0 = e :: rest -> skipn (S idx) a0 = skipn (S idx) l).
      { intros a0 H0. rewrite !skipn_S_tl, H0, Hs. reflexivity. }
      assert (Hstep : filter_st keep st0 (firstn (S idx) l) =
                      (fst (filter_st keep st0 (firstn idx l)) ++ (if fst (keep st e) then [e] else []),
                       snd (keep st e))).
      { rewrite Hfi, filter_st_app, <- Hst. cbn [filter_st].
        destruct (keep st e) as [k st1]. cbn [fst snd]. destruct k; reflexivity. }
      destruct (keep st e) as [k st1] eqn:Hk. cbn [fst snd] in Hstep.
      destruct k.
      + apply IH; try lia.
        * rewrite set_nth_length. exact Hla.
        * rewrite set_nth_spec by lia.
          rewrite skipn_app, firstn_length.
          replace (Nat.min w (length a)) with w by lia.
          rewrite (skipn_all2 (firstn w a)) by (rewrite firstn_length; lia).
          cbn [app].
          replace (S idx - w) with (S (idx - w)) by lia.
          change (skipn (S (idx - w)) (e :: skipn (S w) a)) with (skipn (idx - w) (skipn (S w) a)).
          rewrite skipn_skipn. replace (S w + (idx - w)) with (S idx) by lia.
          apply Hsk'; auto.
        * rewrite set_nth_spec by lia.
          replace (S w) with (w + 1) by lia.
          rewrite firstn_app, firstn_length.
          replace (Nat.min w (length a)) with w by lia.
          rewrite firstn_firstn. replace (Nat.min (w + 1) w) with w by lia.
          replace (w + 1 - w) with 1 by lia.
          change (firstn 1 (e :: skipn (S w) a)) with [e].
          rewrite Hfw, Hstep. reflexivity.
        * rewrite Hstep. reflexivity.
      + apply IH; try lia; auto.
        * rewrite Hfw, Hstep, app_nil_r. reflexivity.
        * rewrite Hstep. reflexivity.
  Qed.

  Theorem filter_st_spec (st : St) (b : list A) len :
    len <= length b ->
    let l := firstn len b in
    let r := fst (filter_st keep st l) in
    filter_in_place_st zero keep st b len =
      Some (r ++ repeat zero (len - length r) ++ skipn len b, length r, snd (filter_st keep st l)).
  Proof.
    intros Hlb l r. unfold filter_in_place_st.
    replace (len <=? length b) with true by (symmetry; apply Nat.leb_le; lia).
    assert (Hl : length l = len) by (unfold l; rewrite firstn_length; lia).
    destruct (filter_loop_st_spec st l len l 0 0 st) as (a' & Hloop & Hla' & Hfa'); auto; try lia.
    fold l. rewrite Hloop. fold r in Hfa' |- *.
    assert (Hfl : length r <= len).
    { rewrite <- Hl. apply filter_st_length_le. }
    rewrite zero_range_spec by lia.
    rewrite Hfa'.
    replace (length r + (len - length r)) with len by lia.
    rewrite (skipn_all2 a') by lia. rewrite app_nil_r, <- app_assoc. reflexivity.
  Qed.

End FilterSt.

(* a predicate without state is the special case: the stateful pass is [filter] *)
Lemma filter_st_pure {A : Type} (keep : A -> bool) (l : list A) :
  filter_st (fun (_ : unit) e => (keep e, tt)) tt l = (filter keep l, tt).
Proof.
  induction l as [|e t IH]; [reflexivity|].
  cbn [filter_st filter]. rewrite IH. destruct (keep e); reflexivity.
Qed.
