(* The lock skeleton REGENERATED from storage/safeMap.go (Gen/LockSkeleton_gen.v, by translator/lockskel)
   passes the lockset check — hence, by [lockset_sound], no schedule of the fine-grained RWMutex semantics
   reaches a data race on SafeMap.m — and it has exactly the section structure the concurrent model
   [safemap_obj] declares in [sections_of]: same methods, same number of sections per method, same lock
   mode and same may-write flag per section.  Both are decided by computation on the generated term; if
   safeMap.go changes its locking, this file stops compiling (bin/check then reports the obligation). *)
From Coq Require Import List String Bool Arith.
From TC.Lib Require Import Conc.
From TC.Model Require Import SafeMap.
From TC.Proofs Require Import SafeMapProofs.
From TC.Gen Require Import LockSkeleton_gen.
Import ListNotations.
Local Open Scope string_scope.

(* a section of the skeleton seen as a step of the model: it must hold exactly the lock "mux" and touch only
   the location "m"; its shape is (lock mode, may read m, may write m) *)
Definition sec_shape (s : section) : option (mode * bool * bool) :=
  match s with
  | Sec [(l, md)] accs =>
      if String.eqb l "mux" && forallb (fun a => String.eqb (loc a) "m") accs
      then Some (md, existsb (fun a => negb (wr a)) accs, existsb wr accs) else None
  | _ => None
  end.

(* one representative call per method *)
Definition all_ops : list (SafeMap.op unit unit unit) :=
  [OContains tt; OGet tt; OGetOrAdd tt tt; OSet tt tt; ODelete tt; OClear; OClearAndResize 0; OHas tt; OLen;
   OKeys; OValues; OCopy; OTranslate (fun x => x)].
Definition model_methods : list string := map method_name all_ops.

Lemma safemap_race_free_proof : race_free safemap_skeleton.
Proof. apply lockset_sound. vm_compute. reflexivity. Qed.

(* every operation of the model has its method in the generated skeleton, with the declared sections *)
Lemma skeleton_has_model_sections {K V D} (o : SafeMap.op K V D) :
  exists secs, In (method_name o, secs) safemap_skeleton
               /\ map sec_shape secs = map Some (sections_of o).
Proof.
  destruct o; eexists;
    (split; [cbv [safemap_skeleton]; simpl; repeat (first [left; reflexivity | right])|reflexivity]).
Qed.

(* ... and the skeleton has no method the model does not know *)
Lemma skeleton_methods_in_model name : In name (map fst safemap_skeleton) -> In name model_methods.
Proof.
  assert (H : forallb (fun n => existsb (String.eqb n) model_methods) (map fst safemap_skeleton) = true)
    by (vm_compute; reflexivity).
  rewrite forallb_forall in H. intros Hin. specialize (H _ Hin).
  apply existsb_exists in H as (n' & Hn' & He). apply String.eqb_eq in He. now subst.
Qed.

Lemma model_methods_complete {K V D} (o : SafeMap.op K V D) : In (method_name o) model_methods.
Proof. destruct o; simpl; tauto. Qed.
