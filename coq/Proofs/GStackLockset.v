(* Lockset obligation for storage/genericStack.go (property C11; the model and the property theorems of
   GenericStack live elsewhere).  The skeleton is REGENERATED from the Go source by translator/lockskel on
   every run (Gen/LockSkeleton_gen.v): which accesses to s.stack.entries — directly, through s.stack.Len(),
   or through heap.Push/heap.Pop(s.stack) — happen under which mode of s.mux.

   On the pinned code the check evaluates to FALSE: Pop reads s.stack.Len() before taking the lock and
   Values reads s.stack.Len() before RLock (defect F9).  So that the development keeps compiling whatever
   the value is, this file only DEFINES the boolean and proves the implication; once F9 is fixed,
       Example gstack_lockset_true : gstack_lockset_ok = true := eq_refl.
   (added by the owner of C11) turns [gstack_race_free] into an unconditional statement. *)
From Coq Require Import List String Bool.
From TC.Lib Require Import Conc.
From TC.Gen Require Import LockSkeleton_gen.
Import ListNotations.

Definition gstack_lockset_ok : bool := lockset_check gstack_skeleton.

Eval vm_compute in gstack_lockset_ok.

(* the sections that make the check fail: those that touch stack.entries without holding mux *)
Definition unlocked_sections (sk : skeleton) : list (string * section) :=
  flat_map (fun ms => flat_map (fun s => match s with
                                          | Sec [] (_ :: _) => [(fst ms, s)]
                                          | Unknown => [(fst ms, s)]
                                          | _ => []
                                          end) (snd ms)) sk.
Eval vm_compute in unlocked_sections gstack_skeleton.

(* for EVERY schedule of any number of goroutines calling the GenericStack methods, no two of them are ever
   about to access stack.entries conflictingly — provided the regenerated skeleton passes the check *)
Theorem gstack_race_free : gstack_lockset_ok = true -> race_free gstack_skeleton.
Proof. exact (lockset_sound gstack_skeleton). Qed.

Print Assumptions gstack_race_free.
