(* What Get/Contains/Keys/Values/Len show, and how each operation changes it. *)
From Coq Require Import List Arith Bool Lia.
From TC.Lib Require Import ListAux Assoc AssocProofs.
From TC.Model Require Import Cache.
From TC.Proofs Require Import CacheInv.
Import ListNotations.

Section CacheViews.
  Context {K V : Type}.
  Variable keqb : K -> K -> bool.
  Hypothesis keqb_spec : forall x y, reflect (x = y) (keqb x y).

  Notation state := (@state K V).
  Notation amap := (@amap K).
  Notation lookup := (lookup keqb).
  Notation upsert := (upsert keqb).
  Notation remove := (remove keqb).
  Notation has := (has keqb).
  Notation set := (set keqb).
  Notation fresh := (fresh keqb).
  Notation delete := (delete keqb).
  Notation get := (get keqb).
  Notation Inv := (Inv keqb).
  Ltac sproj := cbn [parts next cur index P C with_parts with_index open_part sweep].

  (* ---- Get after Set ---- *)
  Lemma get_insert (s : state) k v m k' :
    Inv s -> absent keqb s k -> peek (cur s) (parts s) = Some m ->
    get (with_index (with_parts s (put (cur s) (upsert k v m) (parts s))) (upsert k (cur s) (index s))) k'
    = if keqb k' k then Some v else get s k'.
  Proof.
    intros H Ha Hm. unfold Cache.get; sproj.
    assert (Hcid : In (cur s) (ids (parts s))) by (eapply peek_Some_ids; eauto).
    destruct (keqb_spec k' k) as [->|Hne].
    - rewrite lookup_upsert_eq by assumption. rewrite peek_put_eq by assumption.
      apply lookup_upsert_eq; assumption.
    - rewrite lookup_upsert_neq by assumption.
      destruct (lookup k' (index s)) as [id|] eqn:El; [|reflexivity].
      destruct (Nat.eq_dec id (cur s)) as [->|Hid].
      + rewrite peek_put_eq by assumption. rewrite Hm. apply lookup_upsert_neq; assumption.
      + rewrite peek_put_neq by assumption. reflexivity.
  Qed.

  Lemma get_open (s : state) k : Inv s -> get (open_part s) k = get s k.
  Proof.
    intros H. unfold Cache.get, open_part; sproj.
    destruct (lookup k (index s)) as [id|] eqn:El; [|reflexivity].
    rewrite peek_app. destruct (peek id (parts s)) eqn:Ep; [reflexivity|].
    cbn [peek]. destruct (Nat.eqb_spec (S (next s)) id) as [<-|]; [|reflexivity].
    pose proof (inv_ixrange keqb s H k _ El). lia.
  Qed.

  Lemma get_absent (s : state) k : absent keqb s k -> get s k = None.
  Proof.
    intros Ha. unfold Cache.get. destruct (lookup k (index s)) as [id|] eqn:El; [|reflexivity].
    rewrite (Ha id El). reflexivity.
  Qed.

  Lemma get_fresh (s : state) k v k' :
    Inv s -> absent keqb s k -> get (fresh s k v) k' = if keqb k' k then Some v else get s k'.
  Proof.
    intros H Ha. unfold Cache.fresh. destruct (room s) eqn:Er.
    - destruct (room_true s Er) as (m & Hm & _). rewrite Hm. apply get_insert; assumption.
    - rewrite (peek_open_cur keqb s H).
      rewrite (get_insert (open_part s) k v [] k');
        [|apply Inv_open; assumption|apply absent_open; assumption|apply (peek_open_cur keqb); assumption].
      rewrite get_open by assumption. reflexivity.
  Qed.

  Theorem get_set (s : state) k v k' :
    Inv s -> get (set s k v) k' = if keqb k' k then Some v else get s k'.
  Proof.
    intros H. unfold Cache.set.
    destruct (lookup k (index s)) as [id|] eqn:El.
    - destruct (peek id (parts s)) as [m|] eqn:Ep.
      + assert (Hid : In id (ids (parts s))) by (eapply peek_Some_ids; eauto).
        unfold Cache.get; sproj. destruct (keqb_spec k' k) as [->|Hne].
        * rewrite El. rewrite peek_put_eq by assumption. apply lookup_upsert_eq; assumption.
        * destruct (lookup k' (index s)) as [id'|] eqn:El'; [|reflexivity].
          destruct (Nat.eq_dec id' id) as [->|Hid'].
          -- rewrite peek_put_eq by assumption. rewrite Ep. apply lookup_upsert_neq; assumption.
          -- rewrite peek_put_neq by assumption. reflexivity.
      + apply get_fresh; [exact H|]. intros id' Hl'. congruence.
    - apply get_fresh; [exact H|]. intros id' Hl'. congruence.
  Qed.

  Theorem get_delete (s : state) k k' :
    Inv s -> get (delete s k) k' = if keqb k' k then None else get s k'.
  Proof.
    intros H. unfold Cache.delete.
    destruct (lookup k (index s)) as [id|] eqn:El.
    - destruct (peek id (parts s)) as [m|] eqn:Ep.
      + destruct (has k m) eqn:Eh.
        * assert (Hid : In id (ids (parts s))) by (eapply peek_Some_ids; eauto).
          pose proof (inv_ixnd keqb s H) as Hndi.
          unfold Cache.get; sproj. destruct (keqb_spec k' k) as [->|Hne].
          -- rewrite lookup_remove_eq by assumption. reflexivity.
          -- rewrite lookup_remove_neq by assumption.
             destruct (lookup k' (index s)) as [id'|] eqn:El'; [|reflexivity].
             destruct (Nat.eq_dec id' id) as [->|Hid'].
             ++ rewrite peek_put_eq by assumption. rewrite Ep. apply lookup_remove_neq; assumption.
             ++ rewrite peek_put_neq by assumption. reflexivity.
        * destruct (keqb_spec k' k) as [->|Hne]; [|reflexivity].
          unfold Cache.get. rewrite El, Ep. unfold Assoc.has in Eh. destruct (lookup k m); [discriminate|reflexivity].
      + destruct (keqb_spec k' k) as [->|Hne]; [|reflexivity]. unfold Cache.get. rewrite El, Ep. reflexivity.
    - destruct (keqb_spec k' k) as [->|Hne]; [|reflexivity]. unfold Cache.get. rewrite El. reflexivity.
  Qed.

  Theorem get_sweep (s : state) k v : Inv s -> get (sweep s) k = Some v -> get s k = Some v.
  Proof.
    intros H. unfold Cache.get, sweep; sproj.
    destruct (lookup k (index s)) as [id|]; [|discriminate].
    destruct (peek id (skipn _ (parts s))) as [m|] eqn:Ep; [|discriminate].
    apply peek_skipn in Ep; [|apply (Inv_nodup_ids keqb s H)]. rewrite Ep. auto.
  Qed.

  Lemma get_clear_with p c k : get (@clear_with K V p c) k = None.
  Proof. reflexivity. Qed.

  (* the newest partition survives a sweep: a key that lives there stays visible *)
  Lemma get_sweep_cur (s : state) k v :
    Inv s -> lookup k (index s) = Some (cur s) -> get s k = Some v -> get (sweep s) k = Some v.
  Proof.
    intros H Hl. unfold Cache.get, sweep; sproj. rewrite Hl.
    destruct (peek (cur s) (parts s)) as [m|] eqn:Ep; [|discriminate]. intros Hm.
    assert (Hin : In (cur s, m) (skipn (length (parts s) - P s) (parts s))).
    { apply peek_In in Ep.
      assert (Hlast : nth_error (parts s) (length (parts s) - 1) = Some (cur s, m)).
      { destruct (In_nth_error _ _ Ep) as (i & Hi).
        assert (Hi' : nth_error (ids (parts s)) i = Some (cur s)) by (unfold ids; rewrite nth_error_map, Hi; reflexivity).
        assert (Hil : i < length (parts s)) by (apply nth_error_Some; congruence).
        rewrite (inv_ids keqb s H) in Hi'. rewrite nth_error_nth' with (d := 0) in Hi' by (rewrite seq_length; exact Hil).
        rewrite seq_nth in Hi' by exact Hil.
        assert (Hi2 : S (next s) - length (parts s) + i = cur s) by congruence.
        pose proof (inv_cur keqb s H). pose proof (inv_len keqb s H).
        replace (length (parts s) - 1) with i by lia. exact Hi. }
      destruct (inv_pc keqb s H) as [HP _].
      assert (Hn : 0 < length (parts s)) by (destruct (parts s); [destruct Ep|simpl; lia]).
      apply nth_error_In with (n := length (parts s) - 1 - (length (parts s) - P s)).
      rewrite nth_error_skipn. rewrite <- Hlast. f_equal. lia. }
    assert (Hnd' : NoDup (ids (skipn (length (parts s) - P s) (parts s)))).
    { pose proof (Inv_nodup_ids keqb s H) as Hnd. unfold ids in *. rewrite <- skipn_map.
      rewrite <- (firstn_skipn (length (parts s) - P s) (map fst (parts s))) in Hnd.
      apply NoDup_app_remove_l in Hnd. exact Hnd. }
    rewrite (In_peek _ _ _ Hnd' Hin). exact Hm.
  Qed.

  (* ---- Keys / Values / Len / Contains describe one set of entries ---- *)
  Lemma keys_of_In (s : state) k :
    In k (keys_of s) <-> exists id m, In (id, m) (parts s) /\ In k (keys m).
  Proof.
    unfold keys_of. rewrite in_flat_map. split.
    - intros ([id m] & Hin & Hk). exists id, m. auto.
    - intros (id & m & Hin & Hk). exists (id, m). auto.
  Qed.

  Theorem keys_contains (s : state) k : Inv s -> (In k (keys_of s) <-> contains keqb s k = true).
  Proof.
    intros H. rewrite keys_of_In. unfold contains, Cache.get. split.
    - intros (id & m & Hin & Hk).
      apply In_peek in Hin; [|apply (Inv_nodup_ids keqb s H)].
      rewrite (inv_idx keqb s H _ _ _ Hin Hk), Hin.
      destruct (lookup k m) eqn:El; [reflexivity|]. apply lookup_None in El; [contradiction|assumption].
    - destruct (lookup k (index s)) as [id|] eqn:El; [|discriminate].
      destruct (peek id (parts s)) as [m|] eqn:Ep; [|discriminate].
      intros _. exists id, m. split; [apply peek_In; exact Ep|]. eapply (inv_live keqb s H); eauto.
  Qed.

  Lemma NoDup_flat_keys (F : K -> option nat) (ps : list (nat * amap V)) :
    NoDup (map fst ps) ->
    (forall id m, In (id, m) ps -> NoDup (keys m)) ->
    (forall id m k, In (id, m) ps -> In k (keys m) -> F k = Some id) ->
    NoDup (flat_map (fun p => map fst (snd p)) ps).
  Proof.
    induction ps as [|[i m] t IH]; simpl; intros Hnd Hk HF; [constructor|].
    inversion Hnd as [|? ? Hn Hnd']; subst.
    apply NoDup_app_intro.
    - apply (Hk i m). left. reflexivity.
    - apply IH; [exact Hnd'|intros id m' Hin; apply (Hk id m'); right; exact Hin|].
      intros id m' k Hin. apply (HF id m' k). right. exact Hin.
    - intros k Hk1 Hk2. apply in_flat_map in Hk2. destruct Hk2 as ([i' m'] & Hin & Hk2). simpl in Hk2.
      assert (F k = Some i) by (apply (HF i m k); [left; reflexivity|exact Hk1]).
      assert (F k = Some i') by (apply (HF i' m' k); [right; exact Hin|exact Hk2]).
      assert (i = i') by congruence. subst i'. apply Hn. apply (in_map fst) in Hin. exact Hin.
  Qed.

  Theorem keys_nodup (s : state) : Inv s -> NoDup (keys_of s).
  Proof.
    intros H. pose proof (Inv_nodup_ids keqb s H) as Hnd.
    apply (NoDup_flat_keys (fun k => lookup k (index s))); auto.
    - intros id m Hin. eapply (inv_nd keqb s H). apply In_peek; eauto.
    - intros id m k Hin. eapply (inv_idx keqb s H). apply In_peek; eauto.
  Qed.

  Theorem values_are_gets (s : state) : Inv s -> map (get s) (keys_of s) = map Some (values_of s).
  Proof.
    intros H. pose proof (Inv_nodup_ids keqb s H) as Hnd.
    unfold keys_of, values_of.
    assert (Hsub : forall p, In p (parts s) -> In p (parts s)) by auto.
    revert Hsub. generalize (parts s) at 1 3 4. intros ps.
    induction ps as [|[i m] t IH]; intros Hsub; simpl; [reflexivity|].
    rewrite !map_app. f_equal.
    - assert (Hp : peek i (parts s) = Some m) by (apply In_peek; [exact Hnd|apply Hsub; left; reflexivity]).
      pose proof (inv_nd keqb s H _ _ Hp) as Hndm.
      rewrite !map_map. apply map_ext_in. intros [k v] Hkv. simpl.
      unfold Cache.get.
      rewrite (inv_idx keqb s H _ _ k Hp) by (apply (in_map fst) in Hkv; exact Hkv).
      rewrite Hp. apply In_lookup; auto.
    - apply IH. intros p Hp. apply Hsub. right. exact Hp.
  Qed.

  Theorem len_is_keys (s : state) : len s = length (keys_of s).
  Proof. reflexivity. Qed.

  (* ---- C02: bound after a sweep ---- *)
  Lemma flat_keys_length (ps : list (nat * amap V)) c :
    (forall id m, In (id, m) ps -> length m <= c) ->
    length (flat_map (fun p => map fst (snd p)) ps) <= length ps * c.
  Proof.
    induction ps as [|[i m] t IH]; simpl; intros Hc; [lia|].
    rewrite app_length, map_length.
    assert (length m <= c) by (apply (Hc i m); left; reflexivity).
    assert (length (flat_map (fun p => map fst (snd p)) t) <= length t * c)
      by (apply IH; intros id m' Hin; apply (Hc id m'); right; exact Hin).
    lia.
  Qed.

  Lemma len_bound (s : state) : Inv s -> len s <= length (parts s) * C s.
  Proof.
    intros H. unfold len, keys_of. apply flat_keys_length.
    intros id m Hin. eapply (inv_cap keqb s H). apply In_peek; [apply (Inv_nodup_ids keqb s H)|exact Hin].
  Qed.

  Theorem len_after_sweep (s : state) : Inv s -> len (sweep s) <= capacity s.
  Proof.
    intros H. pose proof (len_bound (sweep s) (Inv_sweep keqb s H)) as Hb.
    pose proof (sweep_length keqb s H) as Hl. unfold capacity.
    change (C (sweep s)) with (C s) in Hb.
    assert (length (parts (sweep s)) * C s <= P s * C s) by (apply Nat.mul_le_mono_r; exact Hl).
    lia.
  Qed.
End CacheViews.

(* ---- C02: capacity rounding ---- *)
Lemma rounding p c : 1 <= p -> p * (c / p) <= c < p * (c / p) + p.
Proof.
  intros Hp. pose proof (Nat.div_mod c p ltac:(lia)) as Hdm.
  pose proof (Nat.mod_upper_bound c p ltac:(lia)). lia.
Qed.

Theorem calc_default_rounding c :
  1 <= c ->
  let '(p, l) := calc_default c in
  1 <= p /\ 1 <= l /\ p <= c /\ p * l <= c < p * l + p.
Proof.
  intros Hc. unfold calc_default.
  assert (Hs1 : 1 <= Nat.sqrt c).
  { change 1 with (Nat.sqrt 1). apply Nat.sqrt_le_mono. exact Hc. }
  assert (Hs2 : Nat.sqrt c <= c) by (apply Nat.sqrt_le_lin).
  split; [exact Hs1|]. split; [|split; [exact Hs2|apply rounding; exact Hs1]].
  apply Nat.div_le_lower_bound; lia.
Qed.

Theorem calc_balanced_rounding root minimum c :
  1 <= minimum <= c -> root <= c ->
  let '(p, l) := calc_balanced root minimum c in
  1 <= p /\ 1 <= l /\ p <= c /\ p * l <= c < p * l + p.
Proof.
  intros Hm Hr. unfold calc_balanced.
  assert (H1 : 1 <= Nat.max root minimum) by lia.
  assert (H2 : Nat.max root minimum <= c) by lia.
  split; [exact H1|]. split; [|split; [exact H2|apply rounding; exact H1]].
  apply Nat.div_le_lower_bound; lia.
Qed.
