(* CacheConc: lockset-style race freedom for schedules without Clear (Resize is not modelled; its locked prefix is
   Clear's).  Every step of the model declares the shared locations it reads / writes and the locks it holds while
   doing so (Model/CacheConc.v, [footprint]); without a Clear in flight any two conflicting accesses of two
   different goroutines are ordered by a common lock held exclusively by at least one of them. *)
From Coq Require Import List Arith Bool Lia.
From TC.Model Require Import CacheConc.
From TC.Proofs Require Import CacheConcBase.
Import ListNotations.

Section Race.
  Context {K V : Type}.
  Variable keqb : K -> K -> bool.
  Variable zero : V.
  Notation state := (@state K V).
  Notation step := (@step K V keqb zero).
  Notation run := (@run K V keqb zero).

  Definition clear_pc (p : @pc V) : bool := match p with PCl1 | PCl2 | PCl3 => true | _ => false end.
  Definition NC (s : state) : Prop := Forall (fun t => clear_pc (snd t) = false) (threads s).
  Definition is_clear (l : @label K V) : bool := match l with LSpawn OClear => true | _ => false end.

  Ltac eqb_cases :=
    repeat (rewrite ?Nat.eqb_refl; cbn;
            match goal with |- context [?a =? ?b] => destruct (Nat.eqb_spec a b); [subst|] end);
    rewrite ?Nat.eqb_refl; cbn; try reflexivity; try congruence.

  (* the static part: outside Clear no two declared accesses conflict *)
  Lemma no_conflict (s : state) p q : clear_pc p = false -> clear_pc q = false -> conflicting s p q = false.
  Proof.
    intros Hp Hq. unfold conflicting.
    destruct p as [| | | | | | | | | | | |[|?]| | | | |]; try discriminate;
      destruct q as [| | | | | | | | | | | |[|?]| | | | |]; try discriminate;
      unfold footprint; try reflexivity;
      repeat match goal with
             | |- context [match nth_error ?l ?i with _ => _ end] => destruct (nth_error l i)
             | |- context [match stk_peek ?i ?st with _ => _ end] => destruct (stk_peek i st)
             end;
      unfold conflict, protected, acc; cbn; eqb_cases.
  Qed.

  Lemma NC_init : NC init.
  Proof. unfold NC; simpl. constructor; auto. Qed.

  Lemma step_thread_NC c s i o p s' :
    step_thread keqb zero c s i o p = Some s' -> clear_pc p = false -> NC s -> NC s'.
  Proof.
    unfold NC. intros H Hp Hn.
    destruct p; simpl in H, Hp; unfold room, open_partition, miss, hit in H; try discriminate; break_all; simpl;
      try assumption;
      try (apply Forall_upd; [assumption|simpl; try reflexivity; destruct o; reflexivity]);
      try (apply Forall_app; split; [apply Forall_upd; [assumption|reflexivity]|constructor; [reflexivity|constructor]]).
  Qed.

  Lemma step_NC c s l s' : step c s l = Some s' -> is_clear l = false -> NC s -> NC s'.
  Proof.
    intros Hs Hl Hn. destruct l as [o|i| | |i]; simpl in Hs.
    - destruct o; simpl in Hl; try discriminate; inv Hs; unfold NC in *; simpl;
        apply Forall_app; split; auto; constructor; auto.
    - destruct (nth_error (threads s) i) as [[o p]|] eqn:Et; [|discriminate].
      eapply step_thread_NC; eauto. unfold NC in Hn. rewrite Forall_forall in Hn.
      apply (Hn _ (nth_error_In _ _ Et)).
    - inv Hs; auto.
    - inv Hs; auto.
    - break_all. unfold NC in *; simpl. apply Forall_upd; auto.
  Qed.

  Lemma run_NC c ls : forall s s', run c s ls = Some s' -> forallb (fun l => negb (is_clear l)) ls = true -> NC s -> NC s'.
  Proof.
    induction ls as [|l t IH]; intros s s' Hr Hl Hn; simpl in *; [inv Hr; auto|].
    destruct (step c s l) as [s1|] eqn:E; [|discriminate].
    apply andb_prop in Hl. destruct Hl as [Hl Ht]. apply negb_true_iff in Hl.
    eapply IH; eauto using step_NC.
  Qed.

  (* For EVERY schedule in which nobody calls Clear: no reachable state has a data race. *)
  Theorem cache_race_free c ls s :
    forallb (fun l => negb (is_clear l)) ls = true -> run c init ls = Some s -> ~ race keqb zero c s.
  Proof.
    intros Hl Hr [i [j Hrace]]. pose proof (run_NC _ _ _ _ Hr Hl NC_init) as Hn.
    unfold NC in Hn. rewrite Forall_forall in Hn. unfold race_at in Hrace.
    destruct (nth_error (threads s) i) as [[oi p]|] eqn:Ei; [|rewrite andb_false_r in Hrace; discriminate].
    destruct (nth_error (threads s) j) as [[oj q]|] eqn:Ej; [|rewrite andb_false_r in Hrace; discriminate].
    rewrite (no_conflict s p q) in Hrace.
    - rewrite andb_false_r in Hrace. discriminate.
    - apply (Hn _ (nth_error_In _ _ Ei)).
    - apply (Hn _ (nth_error_In _ _ Ej)).
  Qed.
End Race.
