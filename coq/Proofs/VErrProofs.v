(* Proofs about the heap model of errors/validationError.go (Model/VErr.v). *)
From Coq Require Import String Ascii List Bool Arith Lia Permutation.
From TC.Lib Require Import StrAux.
From TC.Model Require Import VErr.
Import ListNotations.

(* ---------- induction over trees (nested through option, list and pair) ---------- *)
Section TreeInd.
  Context {M : Type} (P : tree M -> Prop).
  Hypothesis H : forall e w ks, Forall (fun kc => P (snd kc)) (okids ks) -> P (Node e w ks).
  Fixpoint tree_ind' (t : tree M) : P t :=
    match t with
    | Node e w ks =>
        H e w ks
          (match ks as ks0 return Forall (fun kc => P (snd kc)) (okids ks0) with
           | None => Forall_nil _
           | Some l =>
               (fix go (l : list (string * tree M)) : Forall (fun kc => P (snd kc)) l :=
                  match l with
                  | [] => Forall_nil _
                  | kc :: r => Forall_cons kc (tree_ind' (snd kc)) (go r)
                  end) l
           end)
    end.
End TreeInd.

(* ---------- map contents ---------- *)
Lemma entries_app (a b : amap) : entries (a ++ b) = entries a ++ entries b.
Proof. unfold entries. apply flat_map_app. Qed.

Lemma entries_add_msgs (m : amap) k ms :
  Permutation (entries (add_msgs m k ms)) (entries m ++ map (pair k) ms).
Proof.
  induction m as [|[k' v] r IH]; simpl.
  - rewrite app_nil_r. apply Permutation_refl.
  - destruct (String.eqb_spec k' k) as [->|Hne]; simpl.
    + rewrite map_app, <- !app_assoc. apply Permutation_app_head. apply Permutation_app_comm.
    + rewrite <- app_assoc. apply Permutation_app_head. exact IH.
Qed.

Lemma entries_prefix_keys (m : amap) p : entries (prefix_keys m p) = map (pfx_pair p) (entries m).
Proof.
  induction m as [|[k v] r IH]; simpl; [reflexivity|].
  rewrite map_app, <- IH. f_equal. rewrite map_map. reflexivity.
Qed.

Lemma keys_add_msgs_in (m : amap) k ms x :
  In x (map fst (add_msgs m k ms)) <-> In x (map fst m) \/ x = k.
Proof.
  induction m as [|[k' v] r IH]; simpl.
  - intuition.
  - destruct (String.eqb_spec k' k) as [->|Hne]; simpl; [intuition|]. rewrite IH. intuition.
Qed.

Lemma keys_add_msgs_nodup (m : amap) k ms : NoDup (map fst m) -> NoDup (map fst (add_msgs m k ms)).
Proof.
  induction m as [|[k' v] r IH]; simpl; intros Hnd.
  - constructor; [intros []|constructor].
  - inversion Hnd as [|? ? Hn Hr]; subst.
    destruct (String.eqb_spec k' k) as [->|Hne]; simpl; [constructor; assumption|].
    constructor; [|apply IH; exact Hr]. rewrite keys_add_msgs_in. intros [Hi | ->]; [exact (Hn Hi)|exact (Hne eq_refl)].
Qed.

(* ---------- heap ---------- *)
Lemma hset_length a m (h : heap) : length (hset a m h) = length h.
Proof. revert a; induction h as [|x r IH]; intros [|a]; simpl; auto. Qed.

Lemma hset_same a m (h : heap) : a < length h -> nth_error (hset a m h) a = Some m.
Proof. revert a; induction h as [|x r IH]; intros [|a]; simpl; intros Hl; try lia; [reflexivity|]. apply IH. lia. Qed.

Lemma hset_other a b m (h : heap) : a <> b -> nth_error (hset a m h) b = nth_error h b.
Proof.
  revert a b; induction h as [|x r IH]; intros [|a] [|b]; simpl; intros Hne; try reflexivity; try congruence.
  apply IH. congruence.
Qed.

(* h' extends h and keeps every address below n *)
Definition agree (n : nat) (h h' : heap) : Prop :=
  length h <= length h' /\ forall a, a < n -> nth_error h' a = nth_error h a.

Lemma agree_refl n h : agree n h h.
Proof. split; [lia|reflexivity]. Qed.

Lemma agree_trans n h1 h2 h3 : agree n h1 h2 -> agree n h2 h3 -> agree n h1 h3.
Proof. intros [L1 A1] [L2 A2]. split; [lia|]. intros a Ha. now rewrite A2, A1. Qed.

Lemma agree_le n n' h h' : n' <= n -> agree n h h' -> agree n' h h'.
Proof. intros Hle [L A]. split; [exact L|]. intros a Ha. apply A. lia. Qed.

Lemma agree_alloc n h m : n <= length h -> agree n h (h ++ [m]).
Proof.
  intros Hn. split; [rewrite app_length; simpl; lia|]. intros a Ha. apply nth_error_app1. lia.
Qed.

Lemma agree_hset n f m h : n <= f -> agree n h (hset f m h).
Proof. intros Hn. split; [rewrite hset_length; lia|]. intros a Ha. apply hset_other. lia. Qed.

Lemma nth_error_alloc (h : heap) m : nth_error (h ++ [m]) (length h) = Some m.
Proof. rewrite nth_error_app2; [|lia]. now rewrite Nat.sub_diag. Qed.

(* ---------- well-formedness and abstraction are stable under extension ---------- *)
Lemma ref_ok_mono n n' r : n <= n' -> ref_ok n r = true -> ref_ok n' r = true.
Proof. destruct r as [a|]; simpl; [|reflexivity]. rewrite !Nat.ltb_lt. lia. Qed.

Lemma wfn_mono n n' : n <= n' -> forall t, wfn n t = true -> wfn n' t = true.
Proof.
  intros Hle t. induction t as [e w ks IH] using tree_ind'. simpl.
  rewrite !andb_true_iff. intros [[He Hw] Hk]. repeat split; try (eapply ref_ok_mono; eassumption).
  destruct ks as [l|]; [|reflexivity]. simpl in IH. rewrite forallb_forall in *. intros kc Hin.
  rewrite Forall_forall in IH. apply IH; [exact Hin|]. apply Hk. exact Hin.
Qed.

Lemma deref_agree n h h' r : agree n h h' -> ref_ok n r = true -> deref h' r = deref h r.
Proof.
  intros [_ A] Hr. destruct r as [a|]; simpl in *; [|reflexivity]. apply A. now apply Nat.ltb_lt.
Qed.

Lemma abs_agree n h h' : agree n h h' -> forall t, wfn n t = true -> abs h' t = abs h t.
Proof.
  intros Ha t. induction t as [e w ks IH] using tree_ind'. unfold abs in *. simpl.
  rewrite !andb_true_iff. intros [[He Hw] Hk].
  rewrite (deref_agree _ _ _ _ Ha He), (deref_agree _ _ _ _ Ha Hw). f_equal.
  destruct ks as [l|]; [|reflexivity]. f_equal. simpl in IH. apply map_ext_in. intros kc Hin.
  rewrite Forall_forall in IH. rewrite forallb_forall in Hk. f_equal. apply IH; [exact Hin|]. apply Hk. exact Hin.
Qed.

Lemma read_map_ok h r : ref_ok (length h) r = true -> read_map h r = Result (omap (deref h r)).
Proof.
  destruct r as [a|]; simpl; [|reflexivity]. rewrite Nat.ltb_lt. intros Ha. unfold hget.
  destruct (nth_error h a) eqn:E; [reflexivity|]. apply nth_error_None in E. lia.
Qed.

Lemma sel_deref h w e wn : sel w (deref h e) (deref h wn) = deref h (sel w e wn).
Proof. now destruct w. Qed.

Lemma pairs_abs_node w h e wn ks :
  pairs w (abs h (Node e wn ks)) =
  entries (omap (deref h (sel w e wn))) ++
  flat_map (fun kc => map (pfx_pair (fst kc +++ dot)) (pairs w (abs h (snd kc)))) (okids ks).
Proof.
  unfold abs. simpl. rewrite sel_deref. f_equal. destruct ks as [l|]; [|reflexivity]. simpl.
  now rewrite flat_map_map'.
Qed.

Lemma pfx_pair_pfx_pair p q x : pfx_pair p (pfx_pair q x) = pfx_pair (p +++ q) x.
Proof. unfold pfx_pair. simpl. now rewrite sapp_assoc. Qed.

Lemma pfx_pair_empty x : pfx_pair empty_str x = x.
Proof. now destruct x. Qed.

(* ---------- merging one map into another ---------- *)
Lemma h_add_msgs_ok f k ms h m :
  nth_error h f = Some m -> h_add_msgs (Some f) k ms h = Result (hset f (add_msgs m k ms) h).
Proof. intros E. unfold h_add_msgs, hget. now rewrite E. Qed.

Lemma hset_id f (h : heap) m : nth_error h f = Some m -> hset f m h = h.
Proof.
  revert f; induction h as [|x t IHh]; intros [|f]; simpl; intros E; try discriminate.
  - now injection E as ->.
  - now rewrite IHh.
Qed.

Lemma hset_hset f (h : heap) m m' : hset f m' (hset f m h) = hset f m' h.
Proof. revert f; induction h as [|x t IHh]; intros [|f]; simpl; auto. now rewrite IHh. Qed.

Lemma h_add_all_ok f src : forall h m,
  nth_error h f = Some m ->
  exists m', h_add_all (Some f) src h = Result (hset f m' h) /\
             Permutation (entries m') (entries m ++ entries src) /\
             (NoDup (map fst m) -> NoDup (map fst m')).
Proof.
  induction src as [|[k ms] r IH]; intros h m E; cbn [h_add_all].
  - exists m. split; [|split; [rewrite app_nil_r; apply Permutation_refl|auto]].
    now rewrite (hset_id _ _ _ E).
  - rewrite (h_add_msgs_ok _ _ _ _ _ E). cbn [bind].
    assert (Hl : f < length h) by (apply nth_error_Some; congruence).
    destruct (IH (hset f (add_msgs m k ms) h) (add_msgs m k ms) (hset_same _ _ _ Hl)) as [m' [E' [P' N']]].
    exists m'. split; [|split].
    + rewrite E'. now rewrite hset_hset.
    + rewrite P'. rewrite (entries_add_msgs m k ms). cbn [entries flat_map fst snd]. rewrite <- app_assoc. apply Permutation_refl.
    + intros Hn. apply N'. now apply keys_add_msgs_nodup.
Qed.

(* ---------- flattening ---------- *)
(* what a call getFlattenedMap(key, t, w) does in a heap where t is well formed: it returns the address of a
   FRESH map, changes no existing map, and the fresh map holds the specified pairs under key+"." *)
Definition flattened_spec (w : bool) (t : ve) : Prop :=
  forall key h, wf h t = true ->
  exists h', get_flattened w key t h = Result (length h, h') /\
             agree (length h) h h' /\ length h < length h' /\
             exists m, nth_error h' (length h) = Some m /\
                       Permutation (entries m) (map (pfx_pair (key +++ dot)) (pairs w (abs h t))).

Lemma merge_kids_spec w (l : list (string * ve)) :
  Forall (fun kc => flattened_spec w (snd kc)) l ->
  forall f pfx h m0,
    forallb (fun kc => wfn f (snd kc)) l = true -> f < length h -> nth_error h f = Some m0 ->
    exists h', merge_kids (get_flattened w) (Some f) pfx l h = Result h' /\
               length h <= length h' /\
               (forall a, a < length h -> a <> f -> nth_error h' a = nth_error h a) /\
               exists m', nth_error h' f = Some m' /\
                 Permutation (entries m')
                   (entries m0 ++
                    flat_map (fun kc => map (pfx_pair ((pfx +++ fst kc) +++ dot)) (pairs w (abs h (snd kc)))) l).
Proof.
  induction l as [|[ck c] r IHl]; intros HF f pfx h m0 Hwf Hf E; cbn [merge_kids].
  - exists h. split; [reflexivity|]. split; [lia|]. split; [auto|]. exists m0. split; [exact E|].
    simpl. rewrite app_nil_r. apply Permutation_refl.
  - inversion HF as [|? ? Hc Hr]; subst. cbn [snd fst] in *.
    cbn [forallb snd] in Hwf. apply andb_true_iff in Hwf as [Hwc Hwr].
    assert (Hwc' : wf h c = true) by (unfold wf; eapply wfn_mono; [|exact Hwc]; lia).
    destruct (Hc (pfx +++ ck) h Hwc') as [h1 [E1 [A1 [L1 [cm [Ecm Pcm]]]]]].
    rewrite E1. cbn [bind]. cbn [read_map]. unfold hget. rewrite Ecm. cbn [bind].
    assert (E0 : nth_error h1 f = Some m0) by (destruct A1 as [_ A1]; rewrite A1; [exact E|lia]).
    destruct (h_add_all_ok f cm h1 m0 E0) as [m1 [E2 [P2 _]]]. rewrite E2. cbn [bind].
    set (h2 := hset f m1 h1).
    assert (Hf2 : f < length h2) by (unfold h2; rewrite hset_length; lia).
    assert (E3 : nth_error h2 f = Some m1) by (apply hset_same; lia).
    destruct (IHl Hr f pfx h2 m1 Hwr Hf2 E3) as [h' [E4 [L4 [A4 [m' [Em' Pm']]]]]].
    exists h'. split; [exact E4|].
    assert (Lh2 : length h2 = length h1) by apply hset_length.
    split; [lia|]. split.
    + intros a Ha Hne. rewrite A4; [|lia|exact Hne]. unfold h2. rewrite hset_other; [|congruence].
      destruct A1 as [_ A1]. apply A1. exact Ha.
    + exists m'. split; [exact Em'|]. rewrite Pm', P2, Pcm. rewrite <- app_assoc. apply Permutation_app_head.
      cbn [flat_map fst snd]. apply Permutation_app_head.
      assert (Hag : agree f h h2).
      { split; [lia|]. intros a Ha. unfold h2. rewrite hset_other; [|lia]. destruct A1 as [_ A1]. apply A1. lia. }
      rewrite (flat_map_ext_in' _ (fun kc => map (pfx_pair ((pfx +++ fst kc) +++ dot)) (pairs w (abs h (snd kc))))).
      * apply Permutation_refl.
      * intros kc Hin. rewrite forallb_forall in Hwr. now rewrite (abs_agree _ _ _ Hag _ (Hwr kc Hin)).
Qed.

Lemma merge_kids_okids (rec : string -> ve -> heap -> outcome (nat * heap)) dst pfx
      (ks : option (list (string * ve))) (h : heap) :
  match ks with None => Result h | Some l => merge_kids rec dst pfx l h end = merge_kids rec dst pfx (okids ks) h.
Proof. destruct ks; reflexivity. Qed.

Lemma wfn_node n e wn ks :
  wfn n (Node e wn ks) = true ->
  ref_ok n e = true /\ ref_ok n wn = true /\ forallb (fun kc => wfn n (snd kc)) (okids ks) = true.
Proof.
  simpl. rewrite !andb_true_iff. intros [[He Hw] Hk]. repeat split; try assumption.
  destruct ks; [exact Hk|reflexivity].
Qed.

Lemma ref_ok_sel n w e wn : ref_ok n e = true -> ref_ok n wn = true -> ref_ok n (sel w e wn) = true.
Proof. now destruct w. Qed.

(* common part of getFlattenedMap and GetFlat*Map: fresh map from the node's own messages, then the children *)
Lemma flatten_node w e wn ks :
  Forall (fun kc => flattened_spec w (snd kc)) (okids ks) ->
  forall p h, wf h (Node e wn ks) = true ->
  exists h',
    bind (read_map h (sel w e wn)) (fun m =>
      let '(f, h1) := alloc (prefix_keys m p) h in
      bind (match ks with None => Result h1 | Some l => merge_kids (get_flattened w) (Some f) p l h1 end)
           (fun h2 => Result (f, h2))) = Result (length h, h') /\
    agree (length h) h h' /\ length h < length h' /\
    exists m, nth_error h' (length h) = Some m /\
              Permutation (entries m) (map (pfx_pair p) (pairs w (abs h (Node e wn ks)))).
Proof.
  intros HF p h Hwf. unfold wf in Hwf. apply wfn_node in Hwf as [He [Hw Hk]].
  rewrite (read_map_ok h _ (ref_ok_sel _ w _ _ He Hw)). cbn [bind]. unfold alloc.
  set (m0 := prefix_keys (omap (deref h (sel w e wn))) p). set (h1 := h ++ [m0]).
  rewrite merge_kids_okids.
  assert (L1 : length h1 = S (length h)) by (unfold h1; rewrite app_length; simpl; lia).
  destruct (merge_kids_spec w (okids ks) HF (length h) p h1 m0 Hk) as [h' [E [L [A [m' [Em' Pm']]]]]];
    [lia|apply nth_error_alloc|].
  rewrite E. cbn [bind]. exists h'. split; [reflexivity|].
  assert (Hag : agree (length h) h h1) by (apply agree_alloc; lia).
  split; [|split; [lia|]].
  - split; [lia|]. intros a Ha. rewrite A; [|lia|lia]. destruct Hag as [_ Hag]. now apply Hag.
  - exists m'. split; [exact Em'|]. rewrite Pm'. rewrite pairs_abs_node, map_app. unfold m0.
    rewrite entries_prefix_keys. apply Permutation_app_head. rewrite map_flat_map.
    rewrite (flat_map_ext_in' _ (fun x => map (pfx_pair p) (map (pfx_pair (fst x +++ dot)) (pairs w (abs h (snd x)))))).
    + apply Permutation_refl.
    + intros kc Hin. rewrite forallb_forall in Hk. rewrite (abs_agree _ _ _ Hag _ (Hk kc Hin)).
      rewrite map_map. apply map_ext. intros x. rewrite pfx_pair_pfx_pair. now rewrite sapp_assoc.
Qed.

Lemma get_flattened_spec w t : flattened_spec w t.
Proof.
  induction t as [e wn ks IH] using tree_ind'. intros key h Hwf. cbn [get_flattened].
  exact (flatten_node w e wn ks IH (key +++ dot) h Hwf).
Qed.

(* GetFlatErrorMap / GetFlatWarningMap *)
Lemma get_flat_spec w t h :
  wf h t = true ->
  exists h', get_flat w t h = Result (length h, h') /\
             agree (length h) h h' /\ length h < length h' /\
             exists m, nth_error h' (length h) = Some m /\ Permutation (entries m) (pairs w (abs h t)).
Proof.
  destruct t as [e wn ks]. intros Hwf. unfold get_flat.
  assert (HF : Forall (fun kc => flattened_spec w (snd kc)) (okids ks))
    by (apply Forall_forall; intros kc _; apply get_flattened_spec).
  destruct (flatten_node w e wn ks HF empty_str h Hwf) as [h' [E [A [L [m [Em Pm]]]]]].
  exists h'. split; [exact E|]. split; [exact A|]. split; [exact L|]. exists m. split; [exact Em|].
  rewrite Pm. rewrite (map_ext _ (fun x => x)); [now rewrite map_id|]. apply pfx_pair_empty.
Qed.

(* ---------- Error() ---------- *)
Lemma all_msgs_entries (m : amap) : all_msgs m = map snd (entries m).
Proof.
  unfold all_msgs, entries. rewrite map_flat_map. apply flat_map_ext. intros [k v]. simpl.
  rewrite map_map. simpl. now rewrite map_id.
Qed.

Lemma wf_agree h h' t : length h <= length h' -> wf h t = true -> wf h' t = true.
Proof. intros L. unfold wf. now apply wfn_mono. Qed.

Lemma error_lines_spec t h :
  wf h t = true ->
  exists ls h', error_lines t h = Result (ls, h') /\ agree (length h) h h' /\
                Permutation ls (spec_lines (abs h t)).
Proof.
  intros Hwf. unfold error_lines.
  destruct (get_flat_spec false t h Hwf) as [h1 [E1 [A1 [L1 [me [Eme Pme]]]]]].
  rewrite E1. cbn [bind read_map]. unfold hget. rewrite Eme. cbn [bind].
  assert (Hwf1 : wf h1 t = true) by (eapply wf_agree; [|exact Hwf]; lia).
  destruct (get_flat_spec true t h1 Hwf1) as [h2 [E2 [A2 [L2 [mw [Emw Pmw]]]]]].
  rewrite E2. cbn [bind read_map]. unfold hget. rewrite Emw. cbn [bind].
  eexists _, h2. split; [reflexivity|]. split.
  - eapply agree_trans; [exact A1|]. eapply agree_le; [|exact A2]. lia.
  - unfold spec_lines. rewrite !all_msgs_entries. apply Permutation_app.
    + now do 2 apply Permutation_map.
    + do 2 apply Permutation_map. rewrite Pmw. now rewrite (abs_agree _ _ _ A1 _ Hwf).
Qed.

(* ---------- reads ---------- *)
Definition vt_errs (a : vt) : option amap := match a with Node e _ _ => e end.
Definition vt_warns (a : vt) : option amap := match a with Node _ w _ => w end.

(* what a read must return for a ValidationError whose value is [a] *)
Definition val_spec (a : vt) (op : read_op) (v : read_val) : Prop :=
  match op, v with
  | RError, VLines ls => Permutation ls (spec_lines a)
  | RFlatE, VMap (Some m) => Permutation (entries m) (pairs false a)
  | RFlatW, VMap (Some m) => Permutation (entries m) (pairs true a)
  | RTopE, VMap m => m = vt_errs a
  | RTopW, VMap m => m = vt_warns a
  | _, _ => False
  end.

Lemma do_read_spec op t h :
  wf h t = true ->
  exists v h', do_read op t h = Result (v, h') /\ agree (length h) h h' /\ val_spec (abs h t) op v.
Proof.
  intros Hwf. destruct op; cbn [do_read].
  - destruct (error_lines_spec t h Hwf) as [ls [h' [E [A P]]]]. rewrite E. cbn [bind].
    eexists _, h'. split; [reflexivity|]. split; [exact A|exact P].
  - destruct (get_flat_spec false t h Hwf) as [h' [E [A [L [m [Em Pm]]]]]]. rewrite E. cbn [bind].
    eexists _, h'. split; [reflexivity|]. split; [exact A|]. unfold hget. rewrite Em. exact Pm.
  - destruct (get_flat_spec true t h Hwf) as [h' [E [A [L [m [Em Pm]]]]]]. rewrite E. cbn [bind].
    eexists _, h'. split; [reflexivity|]. split; [exact A|]. unfold hget. rewrite Em. exact Pm.
  - eexists _, h. split; [reflexivity|]. split; [apply agree_refl|]. now destruct t.
  - eexists _, h. split; [reflexivity|]. split; [apply agree_refl|]. now destruct t.
Qed.

Lemma run_reads_spec t ops : forall h,
  wf h t = true ->
  exists vs h', run_reads ops t h = Result (vs, h') /\ agree (length h) h h' /\
                abs h' t = abs h t /\ Forall2 (val_spec (abs h t)) ops vs.
Proof.
  induction ops as [|op r IH]; intros h Hwf; cbn [run_reads].
  - exists [], h. split; [reflexivity|]. split; [apply agree_refl|]. split; [reflexivity|constructor].
  - destruct (do_read_spec op t h Hwf) as [v [h1 [E1 [A1 V1]]]]. rewrite E1. cbn [bind].
    assert (Hwf1 : wf h1 t = true) by (eapply wf_agree; [|exact Hwf]; destruct A1; lia).
    destruct (IH h1 Hwf1) as [vs [h2 [E2 [A2 [Eabs V2]]]]]. rewrite E2. cbn [bind].
    exists (v :: vs), h2. split; [reflexivity|].
    assert (Eq1 : abs h1 t = abs h t) by (apply (abs_agree _ _ _ A1 _ Hwf)).
    split; [|split].
    + eapply agree_trans; [exact A1|]. eapply agree_le; [|exact A2]. destruct A1; lia.
    + now rewrite Eabs.
    + constructor; [exact V1|]. now rewrite <- Eq1.
Qed.

(* ---------- the constructors build well-formed trees and touch no existing map ---------- *)
Lemma new_validation_error_spec ctx msg isw h :
  let '(t, h') := new_validation_error ctx msg isw h in
  wf h' t = true /\ agree (length h) h h' /\
  abs h' t = if isw then Node (Some []) (Some [(ctx, [msg])]) None
             else Node (Some [(ctx, [msg])]) (Some []) None.
Proof.
  unfold new_validation_error, alloc. cbv beta iota zeta.
  set (h1 := h ++ _). set (h2 := h1 ++ _).
  assert (L1 : length h1 = S (length h)) by (unfold h1; rewrite app_length; simpl; lia).
  assert (L2 : length h2 = S (S (length h))) by (unfold h2; rewrite app_length; simpl; lia).
  assert (E1 : nth_error h2 (length h) = Some [(ctx, [msg])]).
  { unfold h2. rewrite nth_error_app1 by lia. apply nth_error_alloc. }
  assert (E2 : nth_error h2 (length h1) = Some []) by apply nth_error_alloc.
  assert (A : agree (length h) h h2).
  { eapply agree_trans; [apply agree_alloc; lia|]. apply agree_alloc. fold h1. lia. }
  clearbody h2. clearbody h1.
  destruct isw; (split; [|split; [exact A|]]).
  - unfold wf. simpl. rewrite L2, L1. rewrite !andb_true_iff, !Nat.ltb_lt. repeat split; lia.
  - unfold abs. simpl. unfold hget. now rewrite E1, E2.
  - unfold wf. simpl. rewrite L2, L1. rewrite !andb_true_iff, !Nat.ltb_lt. repeat split; lia.
  - unfold abs. simpl. unfold hget. now rewrite E1, E2.
Qed.

Definition kids_wf (n : nat) (ks : option (list (string * ve))) : bool :=
  forallb (fun kc => wfn n (snd kc)) (okids ks).

Lemma wfn_node_intro n e w ks :
  ref_ok n e = true -> ref_ok n w = true -> kids_wf n ks = true -> wfn n (Node e w ks) = true.
Proof. intros He Hw Hk. simpl. rewrite He, Hw. destruct ks; exact Hk. Qed.

Lemma kids_wf_mono n n' ks : n <= n' -> kids_wf n ks = true -> kids_wf n' ks = true.
Proof.
  unfold kids_wf. intros L. rewrite !forallb_forall. intros H kc Hin. eapply wfn_mono; [exact L|]. now apply H.
Qed.

Lemma new_validation_errors_spec errs ks h :
  ref_ok (length h) errs = true -> kids_wf (length h) ks = true ->
  let '(t, h') := new_validation_errors errs ks h in
  wf h' t = true /\ agree (length h) h h' /\ get_child_errors t = ks /\ get_warning_map t = None /\
  deref h' (get_error_map t) = match errs with None => Some [] | Some _ => deref h errs end.
Proof.
  intros He Hk. unfold new_validation_errors. destruct errs as [a|].
  - split; [|split; [apply agree_refl|repeat split]]. unfold wf. now apply wfn_node_intro.
  - unfold alloc. split; [|split; [apply agree_alloc; lia|repeat split]].
    + unfold wf. rewrite app_length. cbn [length]. apply wfn_node_intro; [simpl; apply Nat.ltb_lt; lia|reflexivity|].
      eapply kids_wf_mono; [|exact Hk]. lia.
    + simpl. apply nth_error_alloc.
Qed.

Lemma new_validation_errors_with_warnings_spec errs warns ks h :
  ref_ok (length h) errs = true -> ref_ok (length h) warns = true -> kids_wf (length h) ks = true ->
  let '(t, h') := new_validation_errors_with_warnings errs warns ks h in
  wf h' t = true /\ agree (length h) h h' /\ get_child_errors t = ks /\
  get_warning_map t = warns /\
  deref h' (get_error_map t) = match errs, warns with None, None => Some [] | _, _ => deref h errs end.
Proof.
  intros He Hw Hk. unfold new_validation_errors_with_warnings.
  destruct errs as [a|]; [|destruct warns as [b|]].
  - split; [|split; [apply agree_refl|repeat split]]. unfold wf. now apply wfn_node_intro.
  - split; [|split; [apply agree_refl|repeat split]]. unfold wf. now apply wfn_node_intro.
  - unfold alloc. split; [|split; [apply agree_alloc; lia|repeat split]].
    + unfold wf. rewrite app_length. cbn [length]. apply wfn_node_intro; [simpl; apply Nat.ltb_lt; lia|reflexivity|].
      eapply kids_wf_mono; [|exact Hk]. lia.
    + simpl. apply nth_error_alloc.
Qed.
