(* Proofs about the heap model of errors/validationError.go (Model/VErr.v). *)
From Coq Require Import String Ascii List Bool Arith Lia Permutation.
From TC.Lib Require Import StrAux.
From TC.Model Require Import VErr.
Import ListNotations.

(* ---------- induction over trees (nested through option, list and pair) ---------- *)
Section TreeInd.
  Context {M : Type} (P : tree M -> Prop).
  Hypothesis H : forall e w ks, Forall (fun kc => P (snd kc)) (okids ks) -> P (Node e w ks).
  Fixpoint tree_ind' (t : tree M) : P t :=
    match t with
    | Node e w ks =>
        H e w ks
          (match ks as ks0 return Forall (fun kc => P (snd kc)) (okids ks0) with
           | None => Forall_nil _
           | Some l =>
               (fix go (l : list (string * tree M)) : Forall (fun kc => P (snd kc)) l :=
                  match l with
                  | [] => Forall_nil _
                  | kc :: r => Forall_cons kc (tree_ind' (snd kc)) (go r)
                  end) l
           end)
    end.
End TreeInd.

(* ---------- map contents ---------- *)
Lemma entries_app (a b : amap) : entries (a ++ b) = entries a ++ entries b.
Proof. unfold entries. apply flat_map_app. Qed.

Lemma entries_add_msgs (m : amap) k ms :
  Permutation (entries (add_msgs m k ms)) (entries m ++ map (pair k) ms).
Proof.
  induction m as [|[k' v] r IH]; simpl.
  - rewrite app_nil_r. apply Permutation_refl.
  - destruct (String.eqb_spec k' k) as [->|Hne]; simpl.
    + rewrite map_app, <- !app_assoc. apply Permutation_app_head. apply Permutation_app_comm.
    + rewrite <- app_assoc. apply Permutation_app_head. exact IH.
Qed.

Lemma entries_prefix_keys (m : amap) p : entries (prefix_keys m p) = map (pfx_pair p) (entries m).
Proof.
  induction m as [|[k v] r IH]; simpl; [reflexivity|].
  rewrite map_app, <- IH. f_equal. rewrite map_map. reflexivity.
Qed.

Lemma keys_add_msgs_in (m : amap) k ms x :
  In x (map fst (add_msgs m k ms)) <-> In x (map fst m) \/ x = k.
Proof.
  induction m as [|[k' v] r IH]; simpl.
  - intuition.
  - destruct (String.eqb_spec k' k) as [->|Hne]; simpl; [intuition|]. rewrite IH. intuition.
Qed.

Lemma keys_add_msgs_nodup (m : amap) k ms : NoDup (map fst m) -> NoDup (map fst (add_msgs m k ms)).
Proof.
  induction m as [|[k' v] r IH]; simpl; intros Hnd.
  - constructor; [intros []|constructor].
  - inversion Hnd as [|? ? Hn Hr]; subst.
    destruct (String.eqb_spec k' k) as [->|Hne]; simpl; [constructor; assumption|].
    constructor; [|apply IH; exact Hr]. rewrite keys_add_msgs_in. intros [Hi | ->]; [exact (Hn Hi)|exact (Hne eq_refl)].
Qed.

(* ---------- heap ---------- *)
Lemma hset_length a m (h : heap) : length (hset a m h) = length h.
Proof. revert a; induction h as [|x r IH]; intros [|a]; simpl; auto. Qed.

Lemma hset_same a m (h : heap) : a < length h -> nth_error (hset a m h) a = Some m.
Proof. revert a; induction h as [|x r IH]; intros [|a]; simpl; intros Hl; try lia; [reflexivity|]. apply IH. lia. Qed.

Lemma hset_other a b m (h : heap) : a <> b -> nth_error (hset a m h) b = nth_error h b.
Proof.
  revert a b; induction h as [|x r IH]; intros [|a] [|b]; simpl; intros Hne; try reflexivity; try congruence.
  apply IH. congruence.
Qed.

(* h' extends h and keeps every address below n *)
Definition agree (n : nat) (h h' : heap) : Prop :=
  length h <= length h' /\ forall a, a < n -> nth_error h' a = nth_error h a.

Lemma agree_refl n h : agree n h h.
Proof. split; [lia|reflexivity]. Qed.

Lemma agree_trans n h1 h2 h3 : agree n h1 h2 -> agree n h2 h3 -> agree n h1 h3.
Proof. intros [L1 A1] [L2 A2]. split; [lia|]. intros a Ha. now rewrite A2, A1. Qed.

Lemma agree_le n n' h h' : n' <= n -> agree n h h' -> agree n' h h'.
Proof. intros Hle [L A]. split; [exact L|]. intros a Ha. apply A. lia. Qed.

Lemma agree_alloc n h m : n <= length h -> agree n h (h ++ [m]).
Proof.
  intros Hn. split; [rewrite app_length; simpl; lia|]. intros a Ha. apply nth_error_app1. lia.
Qed.

Lemma agree_hset n f m h : n <= f -> agree n h (hset f m h).
Proof. intros Hn. split; [rewrite hset_length; lia|]. intros a Ha. apply hset_other. lia. Qed.

Lemma nth_error_alloc (h : heap) m : nth_error (h ++ [m]) (length h) = Some m.
Proof. rewrite nth_error_app2; [|lia]. now rewrite Nat.sub_diag. Qed.

(* ---------- well-formedness and abstraction are stable under extension ---------- *)
Lemma ref_ok_mono n n' r : n <= n' -> ref_ok n r = true -> ref_ok n' r = true.
Proof. destruct r as [a|]; simpl; [|reflexivity]. rewrite !Nat.ltb_lt. lia. Qed.

Lemma wfn_mono n n' : n <= n' -> forall t, wfn n t = true -> wfn n' t = true.
Proof.
  intros Hle t. induction t as [e w ks IH] using tree_ind'. simpl.
  rewrite !andb_true_iff. intros [[He Hw] Hk]. repeat split; try (eapply ref_ok_mono; eassumption).
  destruct ks as [l|]; [|reflexivity]. simpl in IH. rewrite forallb_forall in *. intros kc Hin.
  rewrite Forall_forall in IH. apply IH; [exact Hin|]. apply Hk. exact Hin.
Qed.

Lemma deref_agree n h h' r : agree n h h' -> ref_ok n r = true -> deref h' r = deref h r.
Proof.
  intros [_ A] Hr. destruct r as [a|]; simpl in *; [|reflexivity]. apply A. now apply Nat.ltb_lt.
Qed.

Lemma abs_agree n h h' : agree n h h' -> forall t, wfn n t = true -> abs h' t = abs h t.
Proof.
  intros Ha t. induction t as [e w ks IH] using tree_ind'. unfold abs in *. simpl.
  rewrite !andb_true_iff. intros [[He Hw] Hk].
  rewrite (deref_agree _ _ _ _ Ha He), (deref_agree _ _ _ _ Ha Hw). f_equal.
  destruct ks as [l|]; [|reflexivity]. f_equal. simpl in IH. apply map_ext_in. intros kc Hin.
  rewrite Forall_forall in IH. rewrite forallb_forall in Hk. f_equal. apply IH; [exact Hin|]. apply Hk. exact Hin.
Qed.

Lemma read_map_ok h r : ref_ok (length h) r = true -> read_map h r = Result (omap (deref h r)).
Proof.
  destruct r as [a|]; simpl; [|reflexivity]. rewrite Nat.ltb_lt. intros Ha. unfold hget.
  destruct (nth_error h a) eqn:E; [reflexivity|]. apply nth_error_None in E. lia.
Qed.

Lemma sel_deref h w e wn : sel w (deref h e) (deref h wn) = deref h (sel w e wn).
Proof. now destruct w. Qed.

Lemma pairs_abs_node w h e wn ks :
  pairs w (abs h (Node e wn ks)) =
  entries (omap (deref h (sel w e wn))) ++
  flat_map (fun kc => map (pfx_pair (fst kc +++ dot)) (pairs w (abs h (snd kc)))) (okids ks).
Proof.
  unfold abs. simpl. rewrite sel_deref. f_equal. destruct ks as [l|]; [|reflexivity]. simpl.
  now rewrite flat_map_map'.
Qed.

Lemma pfx_pair_pfx_pair p q x : pfx_pair p (pfx_pair q x) = pfx_pair (p +++ q) x.
Proof. unfold pfx_pair. simpl. now rewrite sapp_assoc. Qed.

Lemma pfx_pair_empty x : pfx_pair empty_str x = x.
Proof. now destruct x. Qed.

(* ---------- merging one map into another ---------- *)
Lemma h_add_msgs_ok f k ms h m :
  nth_error h f = Some m -> h_add_msgs (Some f) k ms h = Result (hset f (add_msgs m k ms) h).
Proof. intros E. unfold h_add_msgs, hget. now rewrite E. Qed.

Lemma hset_id f (h : heap) m : nth_error h f = Some m -> hset f m h = h.
Proof.
  revert f; induction h as [|x t IHh]; intros [|f]; simpl; intros E; try discriminate.
  - now injection E as ->.
  - now rewrite IHh.
Qed.

Lemma hset_hset f (h : heap) m m' : hset f m' (hset f m h) = hset f m' h.
Proof. revert f; induction h as [|x t IHh]; intros [|f]; simpl; auto. now rewrite IHh. Qed.

Lemma h_add_all_ok f src : forall h m,
  nth_error h f = Some m ->
  exists m', h_add_all (Some f) src h = Result (hset f m' h) /\
             Permutation (entries m') (entries m ++ entries src) /\
             (NoDup (map fst m) -> NoDup (map fst m')).
Proof.
  induction src as [|[k ms] r IH]; intros h m E; cbn [h_add_all].
  - exists m. split; [|split; [rewrite app_nil_r; apply Permutation_refl|auto]].
    now rewrite (hset_id _ _ _ E).
  - rewrite (h_add_msgs_ok _ _ _ _ _ E). cbn [bind].
    assert (Hl : f < length h) by (apply nth_error_Some; congruence).
    destruct (IH (hset f (add_msgs m k ms) h) (add_msgs m k ms) (hset_same _ _ _ Hl)) as [m' [E' [P' N']]].
    exists m'. split; [|split].
    + rewrite E'. now rewrite hset_hset.
    + rewrite P'. rewrite (entries_add_msgs m k ms). cbn [entries flat_map fst snd]. rewrite <- app_assoc. apply Permutation_refl.
    + intros Hn. apply N'. now apply keys_add_msgs_nodup.
Qed.

(* ---------- flattening ---------- *)
(* what a call getFlattenedMap(key, t, w) does in a heap where t is well formed: it returns the address of a
   FRESH map, changes no existing map, and the fresh map holds the specified pairs under key+"." *)
Definition flattened_spec (w : bool) (t : ve) : Prop :=
  forall key h, wf h t = true ->
  exists h', get_flattened w key t h = Result (length h, h') /\
             agree (length h) h h' /\ length h < length h' /\
             exists m, nth_error h' (length h) = Some m /\
                       Permutation (entries m) (map (pfx_pair (key +++ dot)) (pairs w (abs h t))).

Lemma merge_kids_spec w (l : list (string * ve)) :
  Forall (fun kc => flattened_spec w (snd kc)) l ->
  forall f pfx h m0,
    forallb (fun kc => wfn f (snd kc)) l = true -> f < length h -> nth_error h f = Some m0 ->
    exists h', merge_kids (get_flattened w) (Some f) pfx l h = Result h' /\
               length h <= length h' /\
               (forall a, a < length h -> a <> f -> nth_error h' a = nth_error h a) /\
               exists m', nth_error h' f = Some m' /\
                 Permutation (entries m')
                   (entries m0 ++
                    flat_map (fun kc => map (pfx_pair ((pfx +++ fst kc) +++ dot)) (pairs w (abs h (snd kc)))) l).
Proof.
  induction l as [|[ck c] r IHl]; intros HF f pfx h m0 Hwf Hf E; cbn [merge_kids].
  - exists h. split; [reflexivity|]. split; [lia|]. split; [auto|]. exists m0. split; [exact E|].
    simpl. rewrite app_nil_r. apply Permutation_refl.
  - inversion HF as [|? ? Hc Hr]; subst. cbn [snd fst] in *.
    cbn [forallb snd] in Hwf. apply andb_true_iff in Hwf as [Hwc Hwr].
    assert (Hwc' : wf h c = true) by (unfold wf; eapply wfn_mono; [|exact Hwc]; lia).
    destruct (Hc (pfx +++ ck) h Hwc') as [h1 [E1 [A1 [L1 [cm [Ecm Pcm]]]]]].
    rewrite E1. cbn [bind]. cbn [read_map]. unfold hget. rewrite Ecm. cbn [bind].
    assert (E0 : nth_error h1 f = Some m0) by (destruct A1 as [_ A1]; rewrite A1; [exact E|lia]).
    destruct (h_add_all_ok f cm h1 m0 E0) as [m1 [E2 [P2 _]]]. rewrite E2. cbn [bind].
    set (h2 := hset f m1 h1).
    assert (Hf2 : f < length h2) by (unfold h2; rewrite hset_length; lia).
    assert (E3 : nth_error h2 f = Some m1) by (apply hset_same; lia).
    destruct (IHl Hr f pfx h2 m1 Hwr Hf2 E3) as [h' [E4 [L4 [A4 [m' [Em' Pm']]]]]].
    exists h'. split; [exact E4|].
    assert (Lh2 : length h2 = length h1) by apply hset_length.
    split; [lia|]. split.
    + intros a Ha Hne. rewrite A4; [|lia|exact Hne]. unfold h2. rewrite hset_other; [|congruence].
      destruct A1 as [_ A1]. apply A1. exact Ha.
    + exists m'. split; [exact Em'|]. rewrite Pm', P2, Pcm. rewrite <- app_assoc. apply Permutation_app_head.
      cbn [flat_map fst snd]. apply Permutation_app_head.
      assert (Hag : agree f h h2).
      { split; [lia|]. intros a Ha. unfold h2. rewrite hset_other; [|lia]. destruct A1 as [_ A1]. apply A1. lia. }
      rewrite (flat_map_ext_in' _ (fun kc => map (pfx_pair ((pfx +++ fst kc) +++ dot)) (pairs w (abs h (snd kc))))).
      * apply Permutation_refl.
      * intros kc Hin. rewrite forallb_forall in Hwr. now rewrite (abs_agree _ _ _ Hag _ (Hwr kc Hin)).
Qed.

Lemma merge_kids_okids (rec : string -> ve -> heap -> outcome (nat * heap)) dst pfx
      (ks : option (list (string * ve))) (h : heap) :
  match ks with None => Result h | Some l => merge_kids rec dst pfx l h end = merge_kids rec dst pfx (okids ks) h.
Proof. destruct ks; reflexivity. Qed.

Lemma wfn_node n e wn ks :
  wfn n (Node e wn ks) = true ->
  ref_ok n e = true /\ ref_ok n wn = true /\ forallb (fun kc => wfn n (snd kc)) (okids ks) = true.
Proof.
  simpl. rewrite !andb_true_iff. intros [[He Hw] Hk]. repeat split; try assumption.
  destruct ks; [exact Hk|reflexivity].
Qed.

Lemma ref_ok_sel n w e wn : ref_ok n e = true -> ref_ok n wn = true -> ref_ok n (sel w e wn) = true.
Proof. now destruct w. Qed.

(* common part of getFlattenedMap and GetFlat*Map: fresh map from the node's own messages, then the children *)
Lemma flatten_node w e wn ks :
  Forall (fun kc => flattened_spec w (snd kc)) (okids ks) ->
  forall p h, wf h (Node e wn ks) = true ->
  exists h',
    bind (read_map h (sel w e wn)) (fun m =>
      let '(f, h1) := alloc (prefix_keys m p) h in
      bind (match ks with None => Result h1 | Some l => merge_kids (get_flattened w) (Some f) p l h1 end)
           (fun h2 => Result (f, h2))) = Result (length h, h') /\
    agree (length h) h h' /\ length h < length h' /\
    exists m, nth_error h' (length h) = Some m /\
              Permutation (entries m) (map (pfx_pair p) (pairs w (abs h (Node e wn ks)))).
Proof.
  intros HF p h Hwf. unfold wf in Hwf. apply wfn_node in Hwf as [He [Hw Hk]].
  rewrite (read_map_ok h _ (ref_ok_sel _ w _ _ He Hw)). cbn [bind]. unfold alloc.
  set (m0 := prefix_keys (omap (deref h (sel w e wn))) p). set (h1 := h ++ [m0]).
  rewrite merge_kids_okids.
  assert (L1 : length h1 = S (length h)) by (unfold h1; rewrite app_length; simpl; lia).
  destruct (merge_kids_spec w (okids ks) HF (length h) p h1 m0 Hk) as [h' [E [L [A [m' [Em' Pm']]]]]];
    [lia|apply nth_error_alloc|].
  rewrite E. cbn [bind]. exists h'. split; [reflexivity|].
  assert (Hag : agree (length h) h h1) by (apply agree_alloc; lia).
  split; [|split; [lia|]].
  - split; [lia|]. intros a Ha. rewrite A; [|lia|lia]. destruct Hag as [_ Hag]. now apply Hag.
  - exists m'. split; [exact Em'|]. rewrite Pm'. rewrite pairs_abs_node, map_app. unfold m0.
    rewrite entries_prefix_keys. apply Permutation_app_head. rewrite map_flat_map.
    rewrite (flat_map_ext_in' _ (fun x => map (pfx_pair p) (map (pfx_pair (fst x +++ dot)) (pairs w (abs h (snd x)))))).
    + apply Permutation_refl.
    + intros kc Hin. rewrite forallb_forall in Hk. rewrite (abs_agree _ _ _ Hag _ (Hk kc Hin)).
      rewrite map_map. apply map_ext. intros x. rewrite pfx_pair_pfx_pair. now rewrite sapp_assoc.
Qed.

Lemma get_flattened_spec w t : flattened_spec w t.
Proof.
  induction t as [e wn ks IH] using tree_ind'. intros key h Hwf. cbn [get_flattened].
  exact (flatten_node w e wn ks IH (key +++ dot) h Hwf).
Qed.

(* GetFlatErrorMap / GetFlatWarningMap *)
Lemma get_flat_spec w t h :
  wf h t = true ->
  exists h', get_flat w t h = Result (length h, h') /\
             agree (length h) h h' /\ length h < length h' /\
             exists m, nth_error h' (length h) = Some m /\ Permutation (entries m) (pairs w (abs h t)).
Proof.
  destruct t as [e wn ks]. intros Hwf. unfold get_flat.
  assert (HF : Forall (fun kc => flattened_spec w (snd kc)) (okids ks))
    by (apply Forall_forall; intros kc _; apply get_flattened_spec).
  destruct (flatten_node w e wn ks HF empty_str h Hwf) as [h' [E [A [L [m [Em Pm]]]]]].
  exists h'. split; [exact E|]. split; [exact A|]. split; [exact L|]. exists m. split; [exact Em|].
  rewrite Pm. rewrite (map_ext _ (fun x => x)); [now rewrite map_id|]. apply pfx_pair_empty.
Qed.

(* ---------- Error() ---------- *)
Lemma all_msgs_entries (m : amap) : all_msgs m = map snd (entries m).
Proof.
  unfold all_msgs, entries. rewrite map_flat_map. apply flat_map_ext. intros [k v]. simpl.
  rewrite map_map. simpl. now rewrite map_id.
Qed.

Lemma wf_agree h h' t : length h <= length h' -> wf h t = true -> wf h' t = true.
Proof. intros L. unfold wf. now apply wfn_mono. Qed.

Lemma error_lines_spec t h :
  wf h t = true ->
  exists ls h', error_lines t h = Result (ls, h') /\ agree (length h) h h' /\
                Permutation ls (spec_lines (abs h t)).
Proof.
  intros Hwf. unfold error_lines.
  destruct (get_flat_spec false t h Hwf) as [h1 [E1 [A1 [L1 [me [Eme Pme]]]]]].
  rewrite E1. cbn [bind read_map]. unfold hget. rewrite Eme. cbn [bind].
  assert (Hwf1 : wf h1 t = true) by (eapply wf_agree; [|exact Hwf]; lia).
  destruct (get_flat_spec true t h1 Hwf1) as [h2 [E2 [A2 [L2 [mw [Emw Pmw]]]]]].
  rewrite E2. cbn [bind read_map]. unfold hget. rewrite Emw. cbn [bind].
  eexists _, h2. split; [reflexivity|]. split.
  - eapply agree_trans; [exact A1|]. eapply agree_le; [|exact A2]. lia.
  - unfold spec_lines. rewrite !all_msgs_entries. apply Permutation_app.
    + now do 2 apply Permutation_map.
    + do 2 apply Permutation_map. rewrite Pmw. now rewrite (abs_agree _ _ _ A1 _ Hwf).
Qed.

(* ---------- reads ---------- *)
Definition vt_errs (a : vt) : option amap := match a with Node e _ _ => e end.
Definition vt_warns (a : vt) : option amap := match a with Node _ w _ => w end.

(* what a read must return for a ValidationError whose value is [a] *)
Definition val_spec (a : vt) (op : read_op) (v : read_val) : Prop :=
  match op, v with
  | RError, VLines ls => Permutation ls (spec_lines a)
  | RFlatE, VMap (Some m) => Permutation (entries m) (pairs false a)
  | RFlatW, VMap (Some m) => Permutation (entries m) (pairs true a)
  | RTopE, VMap m => m = vt_errs a
  | RTopW, VMap m => m = vt_warns a
  | _, _ => False
  end.

Lemma do_read_spec op t h :
  wf h t = true ->
  exists v h', do_read op t h = Result (v, h') /\ agree (length h) h h' /\ val_spec (abs h t) op v.
Proof.
  intros Hwf. destruct op; cbn [do_read].
  - destruct (error_lines_spec t h Hwf) as [ls [h' [E [A P]]]]. rewrite E. cbn [bind].
    eexists _, h'. split; [reflexivity|]. split; [exact A|exact P].
  - destruct (get_flat_spec false t h Hwf) as [h' [E [A [L [m [Em Pm]]]]]]. rewrite E. cbn [bind].
    eexists _, h'. split; [reflexivity|]. split; [exact A|]. unfold hget. rewrite Em. exact Pm.
  - destruct (get_flat_spec true t h Hwf) as [h' [E [A [L [m [Em Pm]]]]]]. rewrite E. cbn [bind].
    eexists _, h'. split; [reflexivity|]. split; [exact A|]. unfold hget. rewrite Em. exact Pm.
  - eexists _, h. split; [reflexivity|]. split; [apply agree_refl|]. now destruct t.
  - eexists _, h. split; [reflexivity|]. split; [apply agree_refl|]. now destruct t.
Qed.

Lemma run_reads_spec t ops : forall h,
  wf h t = true ->
  exists vs h', run_reads ops t h = Result (vs, h') /\ agree (length h) h h' /\
                abs h' t = abs h t /\ Forall2 (val_spec (abs h t)) ops vs.
Proof.
  induction ops as [|op r IH]; intros h Hwf; cbn [run_reads].
  - exists [], h. split; [reflexivity|]. split; [apply agree_refl|]. split; [reflexivity|constructor].
  - destruct (do_read_spec op t h Hwf) as [v [h1 [E1 [A1 V1]]]]. rewrite E1. cbn [bind].
    assert (Hwf1 : wf h1 t = true) by (eapply wf_agree; [|exact Hwf]; destruct A1; lia).
    destruct (IH h1 Hwf1) as [vs [h2 [E2 [A2 [Eabs V2]]]]]. rewrite E2. cbn [bind].
    exists (v :: vs), h2. split; [reflexivity|].
    assert (Eq1 : abs h1 t = abs h t) by (apply (abs_agree _ _ _ A1 _ Hwf)).
    split; [|split].
    + eapply agree_trans; [exact A1|]. eapply agree_le; [|exact A2]. destruct A1; lia.
    + now rewrite Eabs.
    + constructor; [exact V1|]. now rewrite <- Eq1.
Qed.

(* ---------- the constructors build well-formed trees and touch no existing map ---------- *)
Lemma new_validation_error_spec ctx msg isw h :
  let '(t, h') := new_validation_error ctx msg isw h in
  wf h' t = true /\ agree (length h) h h' /\
  abs h' t = if isw then Node (Some []) (Some [(ctx, [msg])]) None
             else Node (Some [(ctx, [msg])]) (Some []) None.
Proof.
  unfold new_validation_error, alloc. cbv beta iota zeta.
  set (h1 := h ++ _). set (h2 := h1 ++ _).
  assert (L1 : length h1 = S (length h)) by (unfold h1; rewrite app_length; simpl; lia).
  assert (L2 : length h2 = S (S (length h))) by (unfold h2; rewrite app_length; simpl; lia).
  assert (E1 : nth_error h2 (length h) = Some [(ctx, [msg])]).
  { unfold h2. rewrite nth_error_app1 by lia. apply nth_error_alloc. }
  assert (E2 : nth_error h2 (length h1) = Some []) by apply nth_error_alloc.
  assert (A : agree (length h) h h2).
  { eapply agree_trans; [apply agree_alloc; lia|]. apply agree_alloc. fold h1. lia. }
  clearbody h2. clearbody h1.
  destruct isw; (split; [|split; [exact A|]]).
  - unfold wf. simpl. rewrite L2, L1. rewrite !andb_true_iff, !Nat.ltb_lt. repeat split; lia.
  - unfold abs. simpl. unfold hget. now rewrite E1, E2.
  - unfold wf. simpl. rewrite L2, L1. rewrite !andb_true_iff, !Nat.ltb_lt. repeat split; lia.
  - unfold abs. simpl. unfold hget. now rewrite E1, E2.
Qed.

Definition kids_wf (n : nat) (ks : option (list (string * ve))) : bool :=
  forallb (fun kc => wfn n (snd kc)) (okids ks).

Lemma wfn_node_intro n e w ks :
  ref_ok n e = true -> ref_ok n w = true -> kids_wf n ks = true -> wfn n (Node e w ks) = true.
Proof. intros He Hw Hk. simpl. rewrite He, Hw. destruct ks; exact Hk. Qed.

Lemma kids_wf_mono n n' ks : n <= n' -> kids_wf n ks = true -> kids_wf n' ks = true.
Proof.
  unfold kids_wf. intros L. rewrite !forallb_forall. intros H kc Hin. eapply wfn_mono; [exact L|]. now apply H.
Qed.

Lemma new_validation_errors_spec errs ks h :
  ref_ok (length h) errs = true -> kids_wf (length h) ks = true ->
  let '(t, h') := new_validation_errors errs ks h in
  wf h' t = true /\ agree (length h) h h' /\ get_child_errors t = ks /\ get_warning_map t = None /\
  deref h' (get_error_map t) = match errs with None => Some [] | Some _ => deref h errs end.
Proof.
  intros He Hk. unfold new_validation_errors. destruct errs as [a|].
  - split; [|split; [apply agree_refl|repeat split]]. unfold wf. now apply wfn_node_intro.
  - unfold alloc. split; [|split; [apply agree_alloc; lia|repeat split]].
    + unfold wf. rewrite app_length. cbn [length]. apply wfn_node_intro; [simpl; apply Nat.ltb_lt; lia|reflexivity|].
      eapply kids_wf_mono; [|exact Hk]. lia.
    + simpl. apply nth_error_alloc.
Qed.

Lemma new_validation_errors_with_warnings_spec errs warns ks h :
  ref_ok (length h) errs = true -> ref_ok (length h) warns = true -> kids_wf (length h) ks = true ->
  let '(t, h') := new_validation_errors_with_warnings errs warns ks h in
  wf h' t = true /\ agree (length h) h h' /\ get_child_errors t = ks /\
  get_warning_map t = warns /\
  deref h' (get_error_map t) = match errs, warns with None, None => Some [] | _, _ => deref h errs end.
Proof.
  intros He Hw Hk. unfold new_validation_errors_with_warnings.
  destruct errs as [a|]; [|destruct warns as [b|]].
  - split; [|split; [apply agree_refl|repeat split]]. unfold wf. now apply wfn_node_intro.
  - split; [|split; [apply agree_refl|repeat split]]. unfold wf. now apply wfn_node_intro.
  - unfold alloc. split; [|split; [apply agree_alloc; lia|repeat split]].
    + unfold wf. rewrite app_length. cbn [length]. apply wfn_node_intro; [simpl; apply Nat.ltb_lt; lia|reflexivity|].
      eapply kids_wf_mono; [|exact Hk]. lia.
    + simpl. apply nth_error_alloc.
Qed.

(* ---------- heaps that only grow: every map keeps (at least) its pairs ---------- *)
Definition heap_le (h h' : heap) : Prop :=
  length h <= length h' /\
  forall a m, nth_error h a = Some m -> exists m', nth_error h' a = Some m' /\ msubP (entries m) (entries m').

Lemma heap_le_refl h : heap_le h h.
Proof. split; [lia|]. intros a m E. exists m. split; [exact E|apply msubP_refl]. Qed.

Lemma heap_le_trans h1 h2 h3 : heap_le h1 h2 -> heap_le h2 h3 -> heap_le h1 h3.
Proof.
  intros [L1 H1] [L2 H2]. split; [lia|]. intros a m E.
  destruct (H1 a m E) as [m' [E' S']]. destruct (H2 a m' E') as [m'' [E'' S'']].
  exists m''. split; [exact E''|]. eapply msubP_trans; eassumption.
Qed.

Lemma agree_heap_le h h' : agree (length h) h h' -> heap_le h h'.
Proof.
  intros [L A]. split; [exact L|]. intros a m E. exists m. split; [|apply msubP_refl].
  rewrite A; [exact E|]. apply nth_error_Some. congruence.
Qed.

Lemma hset_heap_le f m m' h :
  nth_error h f = Some m -> msubP (entries m) (entries m') -> heap_le h (hset f m' h).
Proof.
  intros E S. split; [rewrite hset_length; lia|]. intros a x Ea.
  destruct (Nat.eq_dec a f) as [->|Hne].
  - exists m'. split; [apply hset_same; apply nth_error_Some; congruence|]. congruence.
  - exists x. split; [rewrite hset_other; [exact Ea|congruence]|apply msubP_refl].
Qed.

Lemma deref_heap_le h h' r :
  heap_le h h' -> ref_ok (length h) r = true ->
  msubP (entries (omap (deref h r))) (entries (omap (deref h' r))).
Proof.
  intros [L H] Hr. destruct r as [a|]; simpl; [|apply msubP_refl].
  simpl in Hr. apply Nat.ltb_lt in Hr. unfold hget.
  destruct (nth_error h a) as [m|] eqn:E; [|apply nth_error_None in E; lia].
  destruct (H a m E) as [m' [E' S']]. rewrite E'. exact S'.
Qed.

Definition kid_pairs (w : bool) (h : heap) (ks : option (list (string * ve))) : list (string * string) :=
  flat_map (fun kc => map (pfx_pair (fst kc +++ dot)) (pairs w (abs h (snd kc)))) (okids ks).

Lemma pairs_abs_node' w h e wn ks :
  pairs w (abs h (Node e wn ks)) = entries (omap (deref h (sel w e wn))) ++ kid_pairs w h ks.
Proof. apply pairs_abs_node. Qed.

Lemma pairs_mono w h h' : heap_le h h' -> forall t, wf h t = true ->
  msubP (pairs w (abs h t)) (pairs w (abs h' t)).
Proof.
  intros Hle t. induction t as [e wn ks IH] using tree_ind'. intros Hwf.
  unfold wf in Hwf. apply wfn_node in Hwf as [He [Hw Hk]]. rewrite !pairs_abs_node.
  apply msubP_app.
  - apply deref_heap_le; [exact Hle|]. now apply ref_ok_sel.
  - apply msubP_flat_map. intros kc Hin. apply msubP_map. rewrite Forall_forall in IH.
    apply IH; [exact Hin|]. rewrite forallb_forall in Hk. now apply Hk.
Qed.

Lemma kid_pairs_mono w h h' ks : heap_le h h' -> kids_wf (length h) ks = true ->
  msubP (kid_pairs w h ks) (kid_pairs w h' ks).
Proof.
  intros Hle Hk. unfold kid_pairs. apply msubP_flat_map. intros kc Hin. apply msubP_map.
  apply pairs_mono; [exact Hle|]. unfold kids_wf in Hk. rewrite forallb_forall in Hk. now apply Hk.
Qed.

(* ---------- AddErrorToValidation ---------- *)
Lemma as_ve_wf h e t : err_wf h e = true -> as_ve e = Some t -> wf h t = true.
Proof.
  induction e as [| |s|t'|s e IH]; simpl; intros Hw E; try discriminate.
  - now injection E as <-.
  - now apply IH.
Qed.

Lemma as_ve_not_nil e t : as_ve e = Some t -> is_nil e = false.
Proof. destruct e; simpl; intros E; try discriminate; reflexivity. Qed.

Lemma to_ve_spec e h :
  err_wf h e = true -> is_nil e = false ->
  let '(t, h1) := to_ve e h in
  wf h1 t = true /\ agree (length h) h h1 /\ forall w, pairs w (abs h1 t) = err_pairs w h e.
Proof.
  intros Hw Hn. unfold to_ve, err_pairs. rewrite Hn. destruct (as_ve e) as [t|] eqn:E.
  - split; [eapply as_ve_wf; eassumption|]. split; [apply agree_refl|reflexivity].
  - pose proof (new_validation_error_spec empty_str (err_text e) false h) as S.
    destruct (new_validation_error empty_str (err_text e) false h) as [t h1].
    destruct S as [W [A Eabs]]. split; [exact W|]. split; [exact A|]. intros w. rewrite Eabs. now destruct w.
Qed.

Lemma ensure_spec r h :
  ref_ok (length h) r = true ->
  let '(a, h') := ensure r h in
  a < length h' /\ agree (length h) h h' /\ nth_error h' a = Some (omap (deref h r)).
Proof.
  intros Hr. destruct r as [a|]; simpl.
  - simpl in Hr. apply Nat.ltb_lt in Hr. split; [exact Hr|]. split; [apply agree_refl|]. unfold hget.
    destruct (nth_error h a) eqn:E; [reflexivity|]. apply nth_error_None in E. lia.
  - split; [rewrite app_length; simpl; lia|]. split; [apply agree_alloc; lia|apply nth_error_alloc].
Qed.

Lemma heap_le_get h h' a m :
  heap_le h h' -> nth_error h a = Some m -> exists m', nth_error h' a = Some m' /\ msubP (entries m) (entries m').
Proof. intros [_ H]. apply H. Qed.

Lemma heap_le_length h h' : heap_le h h' -> length h <= length h'.
Proof. now intros [L _]. Qed.

Lemma perm_swap_tail {A} (a b c : list A) : Permutation ((a ++ b) ++ c) ((a ++ c) ++ b).
Proof. rewrite <- !app_assoc. apply Permutation_app_head. apply Permutation_app_comm. Qed.

Lemma agree_len n h h' : agree n h h' -> length h <= length h'.
Proof. now intros [L _]. Qed.

Theorem add_contains e1 e2 h :
  err_wf h e1 = true -> err_wf h e2 = true ->
  exists r h', add_error_to_validation e1 e2 h = Result (r, h') /\
    heap_le h h' /\
    match r with Some t => wf h' t = true | None => True end /\
    forall w, msubP (err_pairs w h e1 ++ err_pairs w h e2) (res_pairs w h' r).
Proof.
  intros W1 W2. unfold add_error_to_validation.
  destruct (is_nil e1) eqn:N1.
  - destruct (is_nil e2) eqn:N2.
    + exists None, h. split; [reflexivity|]. split; [apply heap_le_refl|]. split; [exact I|].
      intros w. unfold err_pairs. rewrite N1, N2. apply msubP_refl.
    + pose proof (to_ve_spec e2 h W2 N2) as S. destruct (to_ve e2 h) as [t h1]. destruct S as [Wt [A P]].
      exists (Some t), h1. split; [reflexivity|]. split; [now apply agree_heap_le|]. split; [exact Wt|].
      intros w. cbn [res_pairs]. rewrite P. unfold err_pairs at 1. rewrite N1. apply msubP_refl.
  - pose proof (to_ve_spec e1 h W1 N1) as S. destruct (to_ve e1 h) as [t1 h1]. destruct S as [Wt [A1 P1]].
    destruct t1 as [e w ks].
    assert (LE01 : heap_le h h1) by now apply agree_heap_le.
    destruct (is_nil e2) eqn:N2.
    + exists (Some (Node e w ks)), h1. split; [reflexivity|]. split; [exact LE01|]. split; [exact Wt|].
      intros w'. cbn [res_pairs]. rewrite P1. unfold err_pairs at 2. rewrite N2, app_nil_r. apply msubP_refl.
    + pose proof Wt as Wt'. unfold wf in Wt'. apply wfn_node in Wt' as [He [Hw Hk]].
      pose proof (ensure_spec e h1 He) as S. destruct (ensure e h1) as [ea h2]. destruct S as [Lea [A2 Eea]].
      pose proof (agree_len _ _ _ A1) as L01. pose proof (agree_len _ _ _ A2) as L12.
      assert (LE12 : heap_le h1 h2) by now apply agree_heap_le.
      destruct (as_ve e2) as [o|] eqn:Eo.
      * (* the second argument is (or wraps) a ValidationError *)
        assert (Wo : wf h o = true) by (eapply as_ve_wf; eassumption).
        assert (Wo2 : wf h2 o = true) by (eapply wf_agree; [|exact Wo]; lia).
        destruct (get_flat_spec false o h2 Wo2) as [h3 [E3 [A3 [L3 [me [Eme Pme]]]]]].
        rewrite E3. cbn [bind read_map]. unfold hget. rewrite Eme. cbn [bind].
        assert (Eea3 : nth_error h3 ea = Some (omap (deref h1 e))).
        { destruct A3 as [_ A3]. rewrite A3; [exact Eea|exact Lea]. }
        destruct (h_add_all_ok ea me h3 _ Eea3) as [m1 [E4 [P4 _]]]. rewrite E4. cbn [bind].
        set (h4 := hset ea m1 h3).
        assert (L34 : length h4 = length h3) by apply hset_length.
        assert (LE23 : heap_le h2 h3) by now apply agree_heap_le.
        assert (LE34 : heap_le h3 h4).
        { eapply hset_heap_le; [exact Eea3|]. eapply msubP_perm_r; [symmetry; exact P4|]. apply msubP_app_r. }
        assert (Hw4 : ref_ok (length h4) w = true) by (eapply ref_ok_mono; [|exact Hw]; lia).
        pose proof (ensure_spec w h4 Hw4) as S. destruct (ensure w h4) as [wa h5]. destruct S as [Lwa [A5 Ewa]].
        pose proof (agree_len _ _ _ A5) as L45.
        assert (LE45 : heap_le h4 h5) by now apply agree_heap_le.
        assert (Wo5 : wf h5 o = true) by (eapply wf_agree; [|exact Wo]; lia).
        destruct (get_flat_spec true o h5 Wo5) as [h6 [E6 [A6 [L6 [mw [Emw Pmw]]]]]].
        rewrite E6. cbn [bind read_map]. unfold hget. rewrite Emw. cbn [bind].
        assert (Ewa6 : nth_error h6 wa = Some (omap (deref h4 w))).
        { destruct A6 as [_ A6]. rewrite A6; [exact Ewa|exact Lwa]. }
        destruct (h_add_all_ok wa mw h6 _ Ewa6) as [m2 [E7 [P7 _]]]. rewrite E7. cbn [bind].
        set (h7 := hset wa m2 h6).
        assert (L67 : length h7 = length h6) by apply hset_length.
        assert (LE56 : heap_le h5 h6) by now apply agree_heap_le.
        assert (LE67 : heap_le h6 h7).
        { eapply hset_heap_le; [exact Ewa6|]. eapply msubP_perm_r; [symmetry; exact P7|]. apply msubP_app_r. }
        assert (LE47 : heap_le h4 h7) by (eapply heap_le_trans; [exact LE45|]; eapply heap_le_trans; [exact LE56|exact LE67]).
        assert (LE14 : heap_le h1 h4) by (eapply heap_le_trans; [exact LE12|]; eapply heap_le_trans; [exact LE23|exact LE34]).
        assert (LE17 : heap_le h1 h7) by (eapply heap_le_trans; [exact LE14|exact LE47]).
        assert (LE05 : heap_le h h5) by (eapply heap_le_trans; [exact LE01|]; eapply heap_le_trans; [exact LE14|exact LE45]).
        exists (Some (Node (Some ea) (Some wa) ks)), h7. split; [reflexivity|].
        split; [eapply heap_le_trans; [exact LE01|exact LE17]|].
        split.
        { unfold wf. apply wfn_node_intro.
          - simpl. apply Nat.ltb_lt. lia.
          - simpl. apply Nat.ltb_lt. lia.
          - eapply kids_wf_mono; [|exact Hk]. lia. }
        assert (Ee2 : forall w', err_pairs w' h e2 = pairs w' (abs h o)) by (intros w'; unfold err_pairs; now rewrite N2, Eo).
        assert (K17 : forall w', msubP (kid_pairs w' h1 ks) (kid_pairs w' h7 ks)) by (intros w'; now apply kid_pairs_mono).
        intros [|]; cbn [res_pairs]; rewrite <- P1, Ee2, !pairs_abs_node'; cbn [sel];
          (eapply msubP_perm_l; [apply perm_swap_tail|]); apply msubP_app; try apply K17.
        -- (* warnings *)
           cbn [deref]. unfold hget. unfold h7 at 1. rewrite hset_same by lia. cbn [omap].
           eapply msubP_perm_r; [symmetry; exact P7|]. apply msubP_app.
           ++ apply deref_heap_le; [exact LE14|exact Hw].
           ++ eapply msubP_perm_r; [symmetry; exact Pmw|]. apply pairs_mono; [exact LE05|exact Wo].
        -- (* errors *)
           cbn [deref]. unfold hget.
           assert (E4ea : nth_error h4 ea = Some m1) by (unfold h4; apply hset_same; lia).
           destruct (heap_le_get _ _ _ _ LE47 E4ea) as [m' [Em' Sm']]. rewrite Em'. cbn [omap].
           eapply msubP_trans; [|exact Sm']. eapply msubP_perm_r; [symmetry; exact P4|].
           apply msubP_app; [apply msubP_refl|]. apply msubP_of_perm. rewrite Pme.
           assert (A02 : agree (length h) h h2) by (eapply agree_trans; [exact A1|]; eapply agree_le; [|exact A2]; lia).
           now rewrite (abs_agree _ _ _ A02 _ Wo).
      * (* the second argument is some other error: its text becomes an error under the empty key *)
        rewrite (h_add_msgs_ok _ _ _ _ _ Eea). cbn [bind].
        set (m0 := omap (deref h1 e)) in *. set (h3 := hset ea _ h2).
        assert (L23 : length h3 = length h2) by apply hset_length.
        assert (LE23 : heap_le h2 h3).
        { eapply hset_heap_le; [exact Eea|]. eapply msubP_perm_r; [symmetry; apply entries_add_msgs|]. apply msubP_app_r. }
        assert (LE13 : heap_le h1 h3) by (eapply heap_le_trans; [exact LE12|exact LE23]).
        exists (Some (Node (Some ea) w ks)), h3. split; [reflexivity|].
        split; [eapply heap_le_trans; [exact LE01|exact LE13]|].
        split.
        { unfold wf. apply wfn_node_intro.
          - simpl. apply Nat.ltb_lt. lia.
          - eapply ref_ok_mono; [|exact Hw]. lia.
          - eapply kids_wf_mono; [|exact Hk]. lia. }
        assert (K13 : forall w', msubP (kid_pairs w' h1 ks) (kid_pairs w' h3 ks)) by (intros w'; now apply kid_pairs_mono).
        intros [|]; cbn [res_pairs]; rewrite <- P1; unfold err_pairs; rewrite N2, Eo; rewrite !pairs_abs_node'; cbn [sel].
        -- rewrite app_nil_r. apply msubP_app; [|apply K13]. apply deref_heap_le; [exact LE13|exact Hw].
        -- eapply msubP_perm_l; [apply perm_swap_tail|]. apply msubP_app; [|apply K13].
           cbn [deref]. unfold hget, h3. rewrite hset_same by lia. cbn [omap].
           apply msubP_of_perm. symmetry. apply entries_add_msgs.
Qed.

(* ---------- the specification itself: paths, kinds apart, iteration order ---------- *)
(* [has_msg w t k m]: message m is stored in the w-map of some node of t under a field f, and k is the
   dot-separated path of child names leading to that node followed by f *)
Inductive has_msg (w : bool) : vt -> string -> string -> Prop :=
| HM_here e wn ks f ms m :
    In (f, ms) (omap (sel w e wn)) -> In m ms -> has_msg w (Node e wn ks) f m
| HM_child e wn l c t' k m :
    In (c, t') l -> has_msg w t' k m -> has_msg w (Node e wn (Some l)) (c +++ dot +++ k) m.

Lemma in_entries (m : amap) k x : In (k, x) (entries m) <-> exists ms, In (k, ms) m /\ In x ms.
Proof.
  unfold entries. rewrite in_flat_map. split.
  - intros [[k' ms] [Hin Hx]]. simpl in Hx. apply in_map_iff in Hx as [y [Hy Hin']]. injection Hy as -> ->.
    exists ms. now split.
  - intros [ms [Hin Hx]]. exists (k, ms). split; [exact Hin|]. simpl. apply in_map_iff. now exists x.
Qed.

Lemma pairs_paths w t : forall k m, In (k, m) (pairs w t) <-> has_msg w t k m.
Proof.
  induction t as [e wn ks IH] using tree_ind'. intros k m. cbn [pairs]. rewrite in_app_iff. split.
  - intros [Hin | Hin].
    + apply in_entries in Hin as [ms [H1 H2]]. econstructor; eassumption.
    + destruct ks as [l|]; [|destruct Hin]. apply in_flat_map in Hin as [[c t'] [Hin Hx]].
      simpl in Hx. apply in_map_iff in Hx as [[k' m'] [Hy Hin']]. unfold pfx_pair in Hy. simpl in Hy.
      injection Hy as <- <-. rewrite sapp_assoc. apply HM_child with (t' := t'); [exact Hin|].
      simpl in IH. rewrite Forall_forall in IH. apply (IH (c, t') Hin). exact Hin'.
  - intros H. inversion H as [? ? ? f ms ? H1 H2|? ? l c t' k' ? H1 H2]; subst.
    + left. apply in_entries. now exists ms.
    + right. apply in_flat_map. exists (c, t'). split; [exact H1|]. simpl. apply in_map_iff.
      exists (k', m). split; [unfold pfx_pair; simpl; now rewrite sapp_assoc|].
      simpl in IH. rewrite Forall_forall in IH. apply (IH (c, t') H1). exact H2.
Qed.

(* keep only the errors (w = false) or only the warnings (w = true) of every node *)
Fixpoint only (w : bool) (t : vt) : vt :=
  match t with
  | Node e wn ks =>
      Node (if w then None else e) (if w then wn else None)
           (match ks with None => None | Some l => Some (map (fun kc => (fst kc, only w (snd kc))) l) end)
  end.

Lemma pairs_only_same w t : pairs w (only w t) = pairs w t.
Proof.
  induction t as [e wn ks IH] using tree_ind'. cbn [only pairs]. f_equal; [now destruct w|].
  destruct ks as [l|]; [|reflexivity]. rewrite flat_map_map'. apply flat_map_ext_in'. intros kc Hin. simpl.
  cbn [okids] in IH. rewrite Forall_forall in IH. f_equal. exact (IH kc Hin).
Qed.

Lemma pairs_only_other w t : pairs (negb w) (only w t) = [].
Proof.
  induction t as [e wn ks IH] using tree_ind'. cbn [only pairs].
  replace (entries (omap (sel (negb w) (if w then None else e) (if w then wn else None)))) with (@nil (string * string))
    by now destruct w.
  destruct ks as [l|]; [|reflexivity]. simpl. rewrite flat_map_map'. cbn [okids] in IH.
  induction l as [|kc l IHl]; [reflexivity|]. inversion IH as [|? ? H1 H2]; subst. simpl. change (snd kc) with (snd kc : vt) in H1.
  unfold vt in *. rewrite H1. simpl. now apply IHl.
Qed.

(* the specification does not depend on the order of map entries or of children, at any level *)
Lemma entries_perm (m m' : amap) : Permutation m m' -> Permutation (entries m) (entries m').
Proof. apply flat_map_perm_list. Qed.

Lemma pairs_perm_top w e wn e' wn' ks :
  Permutation (omap (sel w e wn)) (omap (sel w e' wn')) ->
  Permutation (pairs w (Node e wn ks)) (pairs w (Node e' wn' ks)).
Proof. intros H. cbn [pairs]. apply Permutation_app_tail. now apply entries_perm. Qed.

Lemma pairs_perm_kids w e wn l l' :
  Permutation l l' -> Permutation (pairs w (Node e wn (Some l))) (pairs w (Node e wn (Some l'))).
Proof. intros H. cbn [pairs]. apply Permutation_app_head. now apply flat_map_perm_list. Qed.

Lemma pairs_perm_congr w e wn l l' :
  Forall2 (fun kc kc' => fst kc = fst kc' /\ Permutation (pairs w (snd kc)) (pairs w (snd kc'))) l l' ->
  Permutation (pairs w (Node e wn (Some l))) (pairs w (Node e wn (Some l'))).
Proof.
  intros H. cbn [pairs]. apply Permutation_app_head. induction H as [|kc kc' l l' [Hk Hp] _ IH]; simpl; [constructor|].
  apply Permutation_app; [|exact IH]. rewrite Hk. now apply Permutation_map.
Qed.

(* two answers to the same read of the same value are the same up to iteration order *)
Definition val_equiv (v1 v2 : read_val) : Prop :=
  match v1, v2 with
  | VLines a, VLines b => Permutation a b
  | VMap (Some a), VMap (Some b) => Permutation (entries a) (entries b)
  | VMap None, VMap None => True
  | _, _ => False
  end.

Lemma val_spec_equiv a op v1 v2 : val_spec a op v1 -> val_spec a op v2 -> val_equiv v1 v2.
Proof.
  destruct op, v1 as [l1|[m1|]], v2 as [l2|[m2|]]; simpl; intros H1 H2; try contradiction; try discriminate;
    try (rewrite H1, H2; reflexivity); try (rewrite H1; symmetry; exact H2); try exact I;
    try (subst m1; subst m2; reflexivity).
  all: try (rewrite <- H2 in H1; injection H1 as ->; reflexivity).
  all: try (rewrite <- H2 in H1; discriminate).
Qed.

(* ---------- every nesting of constructor calls yields a well-formed tree ---------- *)
Section BexpInd.
  Variable P : bexp -> Prop.
  Hypothesis Hnew : forall c m w, P (BNew c m w).
  Hypothesis Herrs : forall e ks,
      Forall (fun kb => P (snd kb)) (match ks with Some l => l | None => [] end) -> P (BErrs e ks).
  Hypothesis Hww : forall e w ks,
      Forall (fun kb => P (snd kb)) (match ks with Some l => l | None => [] end) -> P (BWW e w ks).
  Fixpoint bexp_ind' (b : bexp) : P b :=
    let go := fix go (l : list (string * bexp)) : Forall (fun kb => P (snd kb)) l :=
                match l with
                | [] => Forall_nil _
                | kb :: r => Forall_cons kb (bexp_ind' (snd kb)) (go r)
                end in
    match b with
    | BNew c m w => Hnew c m w
    | BErrs e ks =>
        Herrs e ks (match ks as k0 return Forall (fun kb => P (snd kb)) (match k0 with Some l => l | None => [] end) with
                    | None => Forall_nil _ | Some l => go l end)
    | BWW e w ks =>
        Hww e w ks (match ks as k0 return Forall (fun kb => P (snd kb)) (match k0 with Some l => l | None => [] end) with
                    | None => Forall_nil _ | Some l => go l end)
    end.
End BexpInd.

Definition built_ok (n : nat) (b : bexp) : Prop :=
  forall h t h', n <= length h -> bexp_ok n b = true -> build b h = (t, h') ->
                 wf h' t = true /\ agree (length h) h h'.

Lemma build_list_ok n (l : list (string * bexp)) :
  Forall (fun kb => built_ok n (snd kb)) l ->
  forall h l' h', n <= length h -> forallb (fun kb => bexp_ok n (snd kb)) l = true ->
    build_list build l h = (l', h') ->
    forallb (fun kc => wfn (length h') (snd kc)) l' = true /\ agree (length h) h h'.
Proof.
  induction l as [|[k b] r IH]; intros HF h l' h' Hn Hok E; cbn [build_list] in E.
  - injection E as <- <-. split; [reflexivity|apply agree_refl].
  - inversion HF as [|? ? Hb Hr]; subst. cbn [snd] in Hb. cbn [forallb snd] in Hok.
    apply andb_true_iff in Hok as [Hokb Hokr].
    destruct (build b h) as [t h1] eqn:Eb. destruct (build_list build r h1) as [r' h2] eqn:Er.
    injection E as <- <-.
    destruct (Hb h t h1 Hn Hokb Eb) as [Wt A1]. pose proof (agree_len _ _ _ A1) as L1.
    destruct (IH Hr h1 r' h2 ltac:(lia) Hokr Er) as [Wr A2]. pose proof (agree_len _ _ _ A2) as L2.
    split.
    + cbn [forallb snd]. rewrite Wr, andb_true_r. eapply wfn_mono; [|exact Wt]. exact L2.
    + eapply agree_trans; [exact A1|]. eapply agree_le; [|exact A2]. exact L1.
Qed.

Lemma build_ok n b : built_ok n b.
Proof.
  induction b as [c m w|e ks IH|e w ks IH] using bexp_ind'; intros h t h' Hn Hok E; cbn [build] in E.
  - pose proof (new_validation_error_spec c m w h) as S. rewrite E in S. destruct S as [W [A _]]. now split.
  - cbn [bexp_ok] in Hok. apply andb_true_iff in Hok as [He Hk].
    assert (K : exists ks' h1, new_validation_errors e ks' h1 = (t, h') /\
                               kids_wf (length h1) ks' = true /\ agree (length h) h h1).
    { destruct ks as [l|].
      - destruct (build_list build l h) as [l' h1] eqn:El.
        exists (Some l'), h1. split; [exact E|]. exact (build_list_ok n l IH h l' h1 Hn Hk El).
      - exists None, h. split; [exact E|]. split; [reflexivity|apply agree_refl]. }
    destruct K as [ks' [h1 [E' [Wk A1]]]]. pose proof (agree_len _ _ _ A1) as L1.
    assert (He1 : ref_ok (length h1) e = true) by (eapply ref_ok_mono; [|exact He]; lia).
    pose proof (new_validation_errors_spec e ks' h1 He1 Wk) as S. rewrite E' in S. destruct S as [W [A2 _]].
    split; [exact W|]. eapply agree_trans; [exact A1|]. eapply agree_le; [|exact A2]. exact L1.
  - cbn [bexp_ok] in Hok. apply andb_true_iff in Hok as [Hew Hk]. apply andb_true_iff in Hew as [He Hw].
    assert (K : exists ks' h1, new_validation_errors_with_warnings e w ks' h1 = (t, h') /\
                               kids_wf (length h1) ks' = true /\ agree (length h) h h1).
    { destruct ks as [l|].
      - destruct (build_list build l h) as [l' h1] eqn:El.
        exists (Some l'), h1. split; [exact E|]. exact (build_list_ok n l IH h l' h1 Hn Hk El).
      - exists None, h. split; [exact E|]. split; [reflexivity|apply agree_refl]. }
    destruct K as [ks' [h1 [E' [Wk A1]]]]. pose proof (agree_len _ _ _ A1) as L1.
    assert (He1 : ref_ok (length h1) e = true) by (eapply ref_ok_mono; [|exact He]; lia).
    assert (Hw1 : ref_ok (length h1) w = true) by (eapply ref_ok_mono; [|exact Hw]; lia).
    pose proof (new_validation_errors_with_warnings_spec e w ks' h1 He1 Hw1 Wk) as S. rewrite E' in S.
    destruct S as [W [A2 _]].
    split; [exact W|]. eapply agree_trans; [exact A1|]. eapply agree_le; [|exact A2]. exact L1.
Qed.

(* ---------- histories: reads and AddErrorToValidation calls interleaved on one running object ---------- *)
Lemma build_earg_ok n a : forall h e h1,
  n <= length h -> earg_ok n a = true -> build_earg a h = (e, h1) ->
  err_wf h1 e = true /\ agree (length h) h h1.
Proof.
  induction a as [| |s|b|s a IH]; intros h e h1 Hn Hok E; cbn [build_earg] in E.
  - injection E as <- <-. split; [reflexivity|apply agree_refl].
  - injection E as <- <-. split; [reflexivity|apply agree_refl].
  - injection E as <- <-. split; [reflexivity|apply agree_refl].
  - destruct (build b h) as [t h'] eqn:Eb. injection E as <- <-.
    exact (build_ok n b h t h' Hn Hok Eb).
  - destruct (build_earg a h) as [e' h'] eqn:Ea. injection E as <- <-.
    exact (IH h e' h' Hn Hok Ea).
Qed.

Lemma kid_lookup_in l k c : kid_lookup l k = Some c -> In (k, c) l.
Proof.
  induction l as [|[k' c'] r IH]; simpl; [discriminate|].
  destruct (String.eqb_spec k' k) as [->|_]; intros E; [injection E as ->; now left|right; now apply IH].
Qed.

Lemma child_at_wf n p : forall t c, wfn n t = true -> child_at t p = Some c -> wfn n c = true.
Proof.
  induction p as [|k r IH]; intros t c Hw E; cbn [child_at] in E.
  - now injection E as <-.
  - destruct t as [e w ks]. apply wfn_node in Hw as [_ [_ Hk]].
    destruct (kid_lookup (okids ks) k) as [c'|] eqn:El; [|discriminate].
    apply kid_lookup_in in El. rewrite forallb_forall in Hk. apply (IH c' c); [exact (Hk _ El)|exact E].
Qed.

Lemma cur_err_pairs w h cur : err_pairs w h (cur_err cur) = res_pairs w h cur.
Proof. now destruct cur. Qed.

Lemma cur_err_wf h cur : err_wf h (cur_err cur) = cur_wf h cur.
Proof. now destruct cur. Qed.

Lemma cur_wf_len h h' cur : length h <= length h' -> cur_wf h cur = true -> cur_wf h' cur = true.
Proof. destruct cur; [apply wf_agree|reflexivity]. Qed.

Lemma res_pairs_agree w h h' cur :
  agree (length h) h h' -> cur_wf h cur = true -> res_pairs w h' cur = res_pairs w h cur.
Proof. intros A W. destruct cur as [t|]; [|reflexivity]. simpl. now rewrite (abs_agree _ _ _ A _ W). Qed.

(* what one step guarantees *)
Definition hstep_ok (o : hop) (cur : option ve) (h : heap) (x : hres) (cur' : option ve) (h' : heap) : Prop :=
  cur_wf h' cur' = true /\ heap_le h h' /\
  (forall w, msubP (res_pairs w h cur) (res_pairs w h' cur')) /\
  match o with
  | HRead op =>
      cur' = cur /\ agree (length h) h h' /\
      match cur with
      | Some t => exists v, x = HVal v /\ val_spec (abs h t) op v /\ abs h' t = abs h t
      | None => x = HSkip
      end
  | HReadChild p op =>
      cur' = cur /\ agree (length h) h h' /\
      match cur with
      | Some t => abs h' t = abs h t /\
                  match child_at t p with
                  | Some c => exists v, x = HVal v /\ val_spec (abs h c) op v
                  | None => x = HSkip
                  end
      | None => x = HSkip
      end
  | HAdd a | HAddTo a =>
      x = HAbs (option_map (abs h') cur') /\
      forall e h1, build_earg a h = (e, h1) ->
                   forall w, msubP (res_pairs w h cur ++ err_pairs w h1 e) (res_pairs w h' cur')
  | HAddChild p a => cur' = cur
  end.

Lemma hstep_spec n o cur h :
  n <= length h -> hop_ok n o = true -> cur_wf h cur = true ->
  exists x cur' h', hstep o cur h = Result (x, cur', h') /\ hstep_ok o cur h x cur' h'.
Proof.
  intros Hn Hok Hw. destruct o as [op|p op|a|a|p a]; cbn [hstep].
  - (* read *)
    destruct cur as [t|].
    + destruct (do_read_spec op t h Hw) as [v [h' [E [A V]]]]. rewrite E. cbn [bind].
      exists (HVal v), (Some t), h'. split; [reflexivity|].
      assert (Eq : abs h' t = abs h t) by apply (abs_agree _ _ _ A _ Hw).
      split; [eapply wf_agree; [|exact Hw]; exact (agree_len _ _ _ A)|].
      split; [now apply agree_heap_le|]. split; [intros w; simpl; rewrite Eq; apply msubP_refl|].
      split; [reflexivity|]. split; [exact A|]. exists v. now repeat split.
    + exists HSkip, None, h. split; [reflexivity|]. split; [reflexivity|]. split; [apply heap_le_refl|].
      split; [intros w; apply msubP_refl|]. split; [reflexivity|]. split; [apply agree_refl|reflexivity].
  - (* read of a descendant *)
    destruct cur as [t|].
    + destruct (child_at t p) as [c|] eqn:Ec.
      * assert (Wc : wf h c = true) by (eapply child_at_wf; eassumption).
        destruct (do_read_spec op c h Wc) as [v [h' [E [A V]]]]. rewrite E. cbn [bind].
        exists (HVal v), (Some t), h'. split; [reflexivity|].
        assert (Eq : abs h' t = abs h t) by apply (abs_agree _ _ _ A _ Hw).
        split; [eapply wf_agree; [|exact Hw]; exact (agree_len _ _ _ A)|].
        split; [now apply agree_heap_le|]. split; [intros w; simpl; rewrite Eq; apply msubP_refl|].
        split; [reflexivity|]. split; [exact A|]. split; [exact Eq|]. rewrite Ec. now exists v.
      * exists HSkip, (Some t), h. split; [reflexivity|]. split; [exact Hw|]. split; [apply heap_le_refl|].
        split; [intros w; apply msubP_refl|]. split; [reflexivity|]. split; [apply agree_refl|].
        split; [reflexivity|]. now rewrite Ec.
    + exists HSkip, None, h. split; [reflexivity|]. split; [reflexivity|]. split; [apply heap_le_refl|].
      split; [intros w; apply msubP_refl|]. split; [reflexivity|]. split; [apply agree_refl|reflexivity].
  - (* cur = AddErrorToValidation(cur, a) *)
    destruct (build_earg a h) as [e h1] eqn:Eb.
    destruct (build_earg_ok n a h e h1 Hn Hok Eb) as [We A1]. pose proof (agree_len _ _ _ A1) as L1.
    assert (Wc1 : err_wf h1 (cur_err cur) = true) by (rewrite cur_err_wf; eapply cur_wf_len; eassumption).
    destruct (add_contains (cur_err cur) e h1 Wc1 We) as [r [h2 [E [LE [Wr C]]]]]. rewrite E. cbn [bind].
    exists (HAbs (option_map (abs h2) r)), r, h2. split; [reflexivity|].
    assert (C' : forall w, msubP (res_pairs w h cur ++ err_pairs w h1 e) (res_pairs w h2 r)).
    { intros w. specialize (C w). rewrite cur_err_pairs in C. now rewrite (res_pairs_agree w h h1 cur A1 Hw) in C. }
    split; [destruct r; [exact Wr|reflexivity]|].
    split; [eapply heap_le_trans; [apply agree_heap_le; exact A1|exact LE]|].
    split; [intros w; eapply msubP_trans; [apply msubP_app_r|apply C']|].
    split; [reflexivity|]. intros e' h1' Eb'. rewrite Eb in Eb'. injection Eb' as <- <-. exact C'.
  - (* cur = AddErrorToValidation(a, cur) *)
    destruct (build_earg a h) as [e h1] eqn:Eb.
    destruct (build_earg_ok n a h e h1 Hn Hok Eb) as [We A1]. pose proof (agree_len _ _ _ A1) as L1.
    assert (Wc1 : err_wf h1 (cur_err cur) = true) by (rewrite cur_err_wf; eapply cur_wf_len; eassumption).
    destruct (add_contains e (cur_err cur) h1 We Wc1) as [r [h2 [E [LE [Wr C]]]]]. rewrite E. cbn [bind].
    exists (HAbs (option_map (abs h2) r)), r, h2. split; [reflexivity|].
    assert (C' : forall w, msubP (res_pairs w h cur ++ err_pairs w h1 e) (res_pairs w h2 r)).
    { intros w. specialize (C w). rewrite cur_err_pairs in C. rewrite (res_pairs_agree w h h1 cur A1 Hw) in C.
      eapply msubP_perm_l; [apply Permutation_app_comm|exact C]. }
    split; [destruct r; [exact Wr|reflexivity]|].
    split; [eapply heap_le_trans; [apply agree_heap_le; exact A1|exact LE]|].
    split; [intros w; eapply msubP_trans; [apply msubP_app_r|apply C']|].
    split; [reflexivity|]. intros e' h1' Eb'. rewrite Eb in Eb'. injection Eb' as <- <-. exact C'.
  - (* a descendant is extended *)
    destruct cur as [t|].
    + destruct (child_at t p) as [c|] eqn:Ec.
      * destruct (build_earg a h) as [e h1] eqn:Eb.
        destruct (build_earg_ok n a h e h1 Hn Hok Eb) as [We A1]. pose proof (agree_len _ _ _ A1) as L1.
        assert (Wc : wf h1 c = true) by (eapply wf_agree; [exact L1|]; eapply child_at_wf; eassumption).
        destruct (add_contains (EVE c) e h1 Wc We) as [r [h2 [E [LE [_ _]]]]]. rewrite E. cbn [bind].
        exists (HAbs (Some (abs h2 t))), (Some t), h2. split; [reflexivity|].
        assert (LE02 : heap_le h h2) by (eapply heap_le_trans; [apply agree_heap_le; exact A1|exact LE]).
        split; [eapply wf_agree; [|exact Hw]; exact (heap_le_length _ _ LE02)|].
        split; [exact LE02|]. split; [intros w; simpl; now apply pairs_mono|reflexivity].
      * exists HSkip, (Some t), h. split; [reflexivity|]. split; [exact Hw|]. split; [apply heap_le_refl|].
        split; [intros w; apply msubP_refl|reflexivity].
    + exists HSkip, None, h. split; [reflexivity|]. split; [reflexivity|]. split; [apply heap_le_refl|].
      split; [intros w; apply msubP_refl|reflexivity].
Qed.

(* a whole history: every step is as specified, from the state the previous step left *)
Inductive hist_ok : list hop -> option ve -> heap -> list hres -> option ve -> heap -> Prop :=
| hist_nil cur h : hist_ok [] cur h [] cur h
| hist_cons o ops cur h x cur1 h1 xs cur2 h2 :
    hstep_ok o cur h x cur1 h1 -> hist_ok ops cur1 h1 xs cur2 h2 ->
    hist_ok (o :: ops) cur h (x :: xs) cur2 h2.

Lemma run_history_spec n ops : forall cur h,
  n <= length h -> forallb (hop_ok n) ops = true -> cur_wf h cur = true ->
  exists xs cur' h', run_history ops cur h = Result (xs, cur', h') /\ hist_ok ops cur h xs cur' h'.
Proof.
  induction ops as [|o r IH]; intros cur h Hn Hok Hw; cbn [run_history].
  - exists [], cur, h. split; [reflexivity|constructor].
  - cbn [forallb] in Hok. apply andb_true_iff in Hok as [Ho Hr].
    destruct (hstep_spec n o cur h Hn Ho Hw) as [x [cur1 [h1 [E S]]]]. rewrite E. cbn [bind].
    pose proof S as [W1 [LE1 _]].
    destruct (IH cur1 h1 ltac:(pose proof (heap_le_length _ _ LE1); lia) Hr W1) as [xs [cur2 [h2 [E2 S2]]]].
    rewrite E2. cbn [bind]. exists (x :: xs), cur2, h2. split; [reflexivity|]. econstructor; eassumption.
Qed.

Lemma hist_nothing_lost ops cur h xs cur' h' :
  hist_ok ops cur h xs cur' h' ->
  heap_le h h' /\ forall w, msubP (res_pairs w h cur) (res_pairs w h' cur').
Proof.
  induction 1 as [|o ops cur h x cur1 h1 xs cur2 h2 S _ IH].
  - split; [apply heap_le_refl|intros w; apply msubP_refl].
  - destruct S as [_ [LE [M _]]]. destruct IH as [LE' M']. split; [eapply heap_le_trans; eassumption|].
    intros w. eapply msubP_trans; [apply M|apply M'].
Qed.
