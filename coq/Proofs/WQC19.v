(* C19 (partial): Stop / Break on an idle queue are safe; Break skips the waiting work. *)
From Coq Require Import List Arith ZArith Bool Lia.
From TC.Lib Require Import GoHeap GoHeapProofs.
From TC.Model Require Import WQ.
From TC.Proofs Require Import WQHeap WQInv WQCons.
Import ListNotations.

(* nothing submitted is unfinished: what C04_stuck_free concludes *)
Definition all_idle (s : state) : Prop :=
  producers s = [] /\ heap s = [] /\ buffer s = [] /\ running s = [] /\ senderr s = [] /\ deleting s = [] /\
  posting s = 0 /\ tokens s = 0 /\ held (disp s) = [] /\
  (match disp s with PhGot _ | PhFullWait _ | PhFullSend _ _ | PhTokSend _ => False | _ => True end).

(* after Stop/Break on such a state *)
Definition stopped_idle (s : state) : Prop :=
  panicked s = false /\ stopped s = true /\ all_idle s /\
  (forall x, In x (removed s ++ dropped s) -> ist x = false /\ ipos x = (-1)%Z).

Lemma idle_find s id i :
  all_idle s -> find_item id s = Some i -> In i (removed s ++ dropped s).
Proof.
  intros (A1 & A2 & A3 & A4 & A5 & A6 & A7 & A8 & A9 & A10) Hf.
  apply find_item_spec in Hf. destruct Hf as (_ & Hin & _). unfold all_items in Hin.
  rewrite A1, A2, A3, A4, A5, A6, A9 in Hin. exact Hin.
Qed.

Lemma stopped_idle_step s l s' : stopped_idle s -> step fixed s l = Some s' -> stopped_idle s'.
Proof.
  intros (Hnp & Hst & Hidle & Hrd) H.
  pose proof (idle_find s) as Hfind. specialize (fun id i => Hfind id i Hidle).
  destruct Hidle as (A1 & A2 & A3 & A4 & A5 & A6 & A7 & A8 & A9 & A10).
  unfold stopped_idle, all_idle.
  step_inv H; unset;
    repeat match goal with
      | E : producers s = _ |- _ => rewrite E in *
      | E : heap s = _ |- _ => rewrite E in *
      | E : buffer s = _ |- _ => rewrite E in *
      | E : running s = _ |- _ => rewrite E in *
      | E : senderr s = _ |- _ => rewrite E in *
      | E : deleting s = _ |- _ => rewrite E in *
      | E : posting s = _ |- _ => rewrite E in *
      | E : tokens s = _ |- _ => rewrite E in *
      | E : disp s = _ |- _ => rewrite E in *
      end;
    cbn [take_item take_err held] in *; try discriminate; try contradiction; try congruence.
  all: try (repeat split; try assumption; try reflexivity; try exact I; fail).
  all: repeat match goal with
         | |- _ /\ _ => split
         end; try assumption; try reflexivity; try exact I; try congruence.
  1: { (* Enq on a stopped queue *)
    intros x Hx. rewrite app_assoc in Hx. apply in_app_or in Hx. destruct Hx as [Hx|[<-|[]]]; [apply Hrd, Hx|split; reflexivity]. }
  all: exfalso; try match goal with H : position_default_zero fixed = true |- _ => discriminate H end.
  all: match goal with Hf : find_item _ _ = Some _ |- _ => destruct (Hrd _ (Hfind _ _ Hf)) as [_ Hp] end.
  all: repeat match goal with H : context[(ipos _ <? 0)%Z] |- _ => rewrite Hp in H; cbn in H; discriminate H end.
Qed.

Lemma stopped_idle_run ls : forall s s', stopped_idle s -> run fixed s ls = Some s' -> stopped_idle s'.
Proof.
  induction ls as [|l t IH]; simpl; intros s s' Hs H; [injection H as <-; exact Hs|].
  destruct (step fixed s l) as [s1|] eqn:E; [|discriminate]. eapply IH; [|exact H]. eapply stopped_idle_step; eauto.
Qed.

(* Stop or Break on a queue with nothing unfinished *)
Lemma stop_idle s l s' :
  panicked s = false -> all_idle s ->
  (forall x, In x (removed s ++ dropped s) -> ist x = false /\ ipos x = (-1)%Z) ->
  (l = Stop \/ l = Break) -> step fixed s l = Some s' -> stopped_idle s'.
Proof.
  intros Hnp Hi Hrd Hl H. destruct Hl as [-> | ->]; unfold step in H; rewrite Hnp in H; injection H as <-;
    unfold stopped_idle, all_idle in *; unset; (split; [exact Hnp|split; [reflexivity|split; [exact Hi|exact Hrd]]]).
Qed.

(* removed and dropped items are IN_QUEUE with position -1, as long as the drain has not begun *)
Lemma removed_dropped_fields s :
  reach fixed s -> predrain s = true ->
  forall x, In x (removed s ++ dropped s) -> ipos x = (-1)%Z.
Proof.
  intros R Hpre x Hx. apply (proj1 (pos_out_reach s R) Hpre). apply in_others.
  apply in_app_or in Hx. tauto.
Qed.

(* the dispatcher exits: from a stopped idle state whose dispatcher is at its select, six internal steps *)
Lemma dispatcher_exits s :
  stopped_idle s -> cancelled s = true -> disp s = PhIdle ->
  exists s', run fixed s [DCancel; DDrainStep; DClose; DClose; DClose; DClose] = Some s' /\ disp s' = PhExited /\
             panicked s' = false.
Proof.
  intros (Hnp & _ & (_ & Hh & _) & _) Hc Hd.
  set (s1 := set_disp (PhDrain (heap s)) (set_heap [] s)).
  assert (E1 : step fixed s DCancel = Some s1) by (unfold step; rewrite Hnp, Hd, Hc; reflexivity).
  set (s2 := set_disp (PhClosing 0) s1).
  assert (E2 : step fixed s1 DDrainStep = Some s2).
  { unfold step. change (panicked s1) with (panicked s). rewrite Hnp. change (disp s1) with (PhDrain (heap s)).
    rewrite Hh. reflexivity. }
  set (s3 := set_disp (PhClosing 1) (set_sem_closed true s2)).
  assert (E3 : step fixed s2 DClose = Some s3) by (unfold step; change (panicked s2) with (panicked s); rewrite Hnp; reflexivity).
  set (s4 := set_disp (PhClosing 2) (set_wch_closed true s3)).
  assert (E4 : step fixed s3 DClose = Some s4) by (unfold step; change (panicked s3) with (panicked s); rewrite Hnp; reflexivity).
  set (s5 := set_disp (PhClosing 3) (set_err_closed true s4)).
  assert (E5 : step fixed s4 DClose = Some s5) by (unfold step; change (panicked s4) with (panicked s); rewrite Hnp; reflexivity).
  set (s6 := set_disp PhExited (set_work_closed true s5)).
  assert (E6 : step fixed s5 DClose = Some s6) by (unfold step; change (panicked s5) with (panicked s); rewrite Hnp; reflexivity).
  exists s6. split; [cbn [run]; rewrite E1, E2, E3, E4, E5, E6; reflexivity|]. split; [reflexivity|exact Hnp].
Qed.

(* nothing finishes any more: [done] is frozen *)
Lemma done_frozen_step s l s' : stopped_idle s -> step fixed s l = Some s' -> done s' = done s.
Proof.
  intros (_ & _ & (_ & _ & _ & _ & _ & A6 & _) & _) H. step_inv H; unset;
    repeat match goal with D : decide _ _ _ = Some _ |- _ => apply decide_frame in D; destruct D as (? & ->); unset end;
    try reflexivity.
  rewrite A6 in Heqo. discriminate Heqo.
Qed.
Lemma done_frozen ls : forall s s', stopped_idle s -> run fixed s ls = Some s' -> done s' = done s.
Proof.
  induction ls as [|l t IH]; simpl; intros s s' Hs H; [injection H as <-; reflexivity|].
  destruct (step fixed s l) as [s1|] eqn:E; [|discriminate].
  rewrite (IH s1 s' (stopped_idle_step _ _ _ Hs E) H). eapply done_frozen_step; eauto.
Qed.
