(* GenericStack model refines the FIFO queue specification; concurrent conservation invariant. *)
From Coq Require Import List ZArith Bool Lia Permutation Sorted.
From TC.Lib Require Import ListAux GoHeap GoHeapProofs.
From TC.Model Require Import GStack.
Import ListNotations.

Section GStackProofs.
  Context {V : Type}.
  Variable zero : V.
  Notation entry := (@entry V).
  Notation elt := (@elt V).
  Notation nopos := (@nopos V).

  (* ---- the order on entries satisfies the GoHeap hypotheses ---- *)
  Lemma elt_pos_l : forall p (x y : entry), elt (nopos p x) y = elt x y.
  Proof. reflexivity. Qed.
  Lemma elt_pos_r : forall p (x y : entry), elt x (nopos p y) = elt x y.
  Proof. reflexivity. Qed.
  Lemma ele_total : forall x y : entry, le elt x y = true \/ le elt y x = true.
  Proof. intros x y. unfold le, elt. destruct (Z.ltb_spec (fst y) (fst x)), (Z.ltb_spec (fst x) (fst y)); simpl; auto; lia. Qed.
  Lemma ele_trans : forall x y z : entry, le elt x y = true -> le elt y z = true -> le elt x z = true.
  Proof.
    intros x y z. unfold le, elt.
    destruct (Z.ltb_spec (fst y) (fst x)), (Z.ltb_spec (fst z) (fst y)), (Z.ltb_spec (fst z) (fst x)); simpl; auto; lia.
  Qed.
  Lemma ele_iff (x y : entry) : le elt x y = true <-> (fst x <= fst y)%Z.
  Proof. unfold le, elt. destruct (Z.ltb_spec (fst y) (fst x)); simpl; split; intros; try lia; try discriminate; auto. Qed.
  Lemma id_pos : forall p (x : entry), (fun e : entry => e) (nopos p x) = (fun e : entry => e) x.
  Proof. reflexivity. Qed.

  Definition hok := heap_ok elt.

  Lemma push_ok l (e : entry) : hok l -> hok (h_push elt nopos l e).
  Proof. apply (h_push_ok elt nopos elt_pos_l elt_pos_r ele_total ele_trans). Qed.

  Lemma push_perm l (e : entry) : Permutation (h_push elt nopos l e) (e :: l).
  Proof.
    pose proof (h_push_perm elt nopos (fun x : entry => x) id_pos l e) as H.
    rewrite !map_id in H. exact H.
  Qed.

  Lemma pop_ok l (x : entry) l' :
    hok l -> h_pop elt nopos l = Some (x, l') ->
    hok l' /\ Permutation (x :: l') l /\ (forall y, In y l -> (fst x <= fst y)%Z).
  Proof.
    intros Hl Hp.
    destruct (h_pop_ok elt nopos (fun e : entry => e) elt_pos_l elt_pos_r ele_total ele_trans id_pos l x l' Hl Hp)
      as (H1 & H2 & H3).
    rewrite !map_id in H2. split; [exact H1|]. split; [exact H2|].
    intros y Hy. apply ele_iff. apply H3. exact Hy.
  Qed.

  Lemma pop_some l : l <> [] -> exists x l', h_pop elt nopos l = Some (x, l').
  Proof.
    intros Hne. destruct (h_pop elt nopos l) as [[x l']|] eqn:E; [eauto|].
    apply (h_pop_none elt nopos) in E. contradiction.
  Qed.

  (* ---- strictly id-sorted lists ---- *)
  Definition idlt (a b : entry) : Prop := (fst a < fst b)%Z.
  Definition sorted := StronglySorted idlt.

  Lemma sorted_nodup (l : list entry) : sorted l -> NoDup (map fst l).
  Proof.
    induction 1 as [|a l Hs IH Hall]; simpl; constructor; auto.
    intros Hin. apply in_map_iff in Hin. destruct Hin as (b & Hb & Hin).
    rewrite Forall_forall in Hall. specialize (Hall b Hin). unfold idlt in Hall. lia.
  Qed.

  Lemma sorted_perm_eq (l1 : list entry) : forall l2, sorted l1 -> sorted l2 -> Permutation l1 l2 -> l1 = l2.
  Proof.
    induction l1 as [|a t1 IH]; intros l2 H1 H2 Hp.
    - apply Permutation_nil in Hp. auto.
    - destruct l2 as [|b t2]; [apply Permutation_sym, Permutation_nil in Hp; discriminate|].
      inversion H1 as [|? ? Hs1 Ha1]; subst. inversion H2 as [|? ? Hs2 Hb2]; subst.
      rewrite Forall_forall in Ha1, Hb2.
      assert (a = b).
      { assert (Hina : In a (b :: t2)) by (eapply Permutation_in; [exact Hp|left; reflexivity]).
        assert (Hinb : In b (a :: t1)) by (eapply Permutation_in; [exact (Permutation_sym Hp)|left; reflexivity]).
        destruct Hina as [->|Hina]; [reflexivity|]. destruct Hinb as [->|Hinb]; [reflexivity|].
        specialize (Ha1 b Hinb). specialize (Hb2 a Hina). unfold idlt in *. lia. }
      subst b. f_equal. apply IH; auto. eapply Permutation_cons_inv. exact Hp.
  Qed.

  Lemma ins_perm (e : entry) l : Permutation (ins e l) (e :: l).
  Proof.
    induction l as [|x t IH]; simpl; [reflexivity|].
    destruct (elt e x); [reflexivity|].
    rewrite IH. apply perm_swap.
  Qed.

  Lemma ins_sorted (e : entry) l : sorted l -> ~ In (fst e) (map fst l) -> sorted (ins e l).
  Proof.
    induction 1 as [|x t Hs IH Hall]; intros Hn; simpl.
    - constructor; constructor.
    - unfold elt at 1. destruct (Z.ltb_spec (fst e) (fst x)) as [Hlt|Hge].
      + constructor; [constructor; assumption|].
        constructor; [exact Hlt|]. rewrite Forall_forall in *. intros y Hy.
        specialize (Hall y Hy). unfold idlt in *. lia.
      + simpl in Hn. constructor; [apply IH; tauto|].
        rewrite Forall_forall in *. intros y Hy.
        apply (Permutation_in _ (ins_perm e t)) in Hy. destruct Hy as [<-|Hy]; [|auto].
        unfold idlt. assert (fst x <> fst e) by tauto. lia.
  Qed.

  Lemma sort_perm (l : list entry) : Permutation (sort_by_id l) l.
  Proof. induction l as [|x t IH]; simpl; [reflexivity|]. rewrite ins_perm. constructor. exact IH. Qed.

  Lemma sort_sorted (l : list entry) : NoDup (map fst l) -> sorted (sort_by_id l).
  Proof.
    induction l as [|x t IH]; simpl; intros Hnd; [constructor|].
    inversion Hnd as [|? ? Hn Hnd']; subst. apply ins_sorted; [auto|].
    intros Hin. apply Hn. apply in_map_iff in Hin. destruct Hin as (y & Hy & Hin).
    apply in_map_iff. exists y. split; [exact Hy|]. apply (Permutation_in _ (sort_perm t)). exact Hin.
  Qed.

  Lemma scan_In id (l : list entry) v : NoDup (map fst l) -> (scan id l = Some v <-> In (id, v) l).
  Proof.
    induction l as [|[i w] t IH]; simpl; intros Hnd; [split; [discriminate|tauto]|].
    inversion Hnd as [|? ? Hn Hnd']; subst.
    destruct (Z.eqb_spec i id) as [->|Hne].
    - split; [intros [= ->]; auto|]. intros [[= ->]|Hin]; [reflexivity|].
      exfalso. apply Hn. apply in_map_iff. exists (id, v). auto.
    - rewrite (IH Hnd'). split; [auto|]. intros [[= -> ->]|Hin]; [congruence|exact Hin].
  Qed.

  Lemma scan_perm id (l1 l2 : list entry) :
    NoDup (map fst l1) -> Permutation l1 l2 -> scan id l1 = scan id l2.
  Proof.
    intros Hnd Hp.
    assert (Hnd2 : NoDup (map fst l2)) by (eapply Permutation_NoDup; [apply Permutation_map; exact Hp|exact Hnd]).
    destruct (scan id l1) as [v|] eqn:E1, (scan id l2) as [w|] eqn:E2; auto.
    - apply scan_In in E1; [|assumption]. apply (Permutation_in _ Hp) in E1.
      apply scan_In in E1; [|assumption]. congruence.
    - apply scan_In in E1; [|assumption]. apply (Permutation_in _ Hp) in E1.
      apply scan_In in E1; [|assumption]. congruence.
    - apply scan_In in E2; [|assumption]. apply (Permutation_in _ (Permutation_sym Hp)) in E2.
      apply scan_In in E2; [|assumption]. congruence.
  Qed.

  (* ---- refinement relation ---- *)
  Definition R (s : gstack) (q : qspec) : Prop :=
    hok (entries s) /\ Permutation (entries s) (items q) /\ sorted (items q)
    /\ (forall e, In e (items q) -> (fst e <= qnext q)%Z) /\ next s = qnext q.

  Lemma R_init : R (@init V) (@qinit V).
  Proof.
    unfold R; simpl. repeat split; try constructor.
    - intros c H1 H2. simpl in H2. lia.
    - intros e [].
  Qed.

  Lemma sorted_snoc l (e : entry) : sorted l -> (forall x, In x l -> (fst x < fst e)%Z) -> sorted (l ++ [e]).
  Proof.
    induction 1 as [|x t Hs IH Hall]; intros Hlt; simpl.
    - constructor; constructor.
    - constructor; [apply IH; intros y Hy; apply Hlt; right; exact Hy|].
      rewrite Forall_forall in *. intros y Hy. apply in_app_iff in Hy.
      destruct Hy as [Hy|[<-|[]]]; [auto|]. apply Hlt. left. reflexivity.
  Qed.

  Lemma step_refines s q o :
    R s q ->
    let '(s', r) := step zero s o in
    let '(q', r') := qstep zero q o in
    r = r' /\ R s' q'.
  Proof.
    intros (Hh & Hp & Hs & Hb & Hn). destruct o as [v| |id| |]; simpl.
    - (* Push *) rewrite Hn. split; [reflexivity|]. unfold R; simpl. repeat split.
      + apply push_ok. exact Hh.
      + rewrite push_perm. rewrite Hp. apply Permutation_cons_append.
      + apply sorted_snoc; [exact Hs|]. intros x Hx. specialize (Hb x Hx). simpl. lia.
      + intros e He. apply in_app_iff in He. destruct He as [He|[<-|[]]]; [specialize (Hb e He); lia|simpl; lia].
    - (* Pop *) unfold pop_locked. destruct (entries s) as [|e0 l0] eqn:El.
      + apply Permutation_nil in Hp. rewrite Hp. split; [reflexivity|].
        unfold R. rewrite El, Hp in *. repeat split; auto; try constructor.
      + rewrite <- El in *.
        destruct (pop_some (entries s)) as (x & l' & Epop); [rewrite El; discriminate|].
        rewrite Epop. destruct (pop_ok _ _ _ Hh Epop) as (Hh' & Hp' & Hmin).
        destruct (items q) as [|a t] eqn:Ei.
        { apply Permutation_sym, Permutation_nil in Hp. rewrite El in Hp. discriminate. }
        assert (Hxa : x = a).
        { assert (Hinx : In x (a :: t)).
          { apply (Permutation_in _ Hp). apply (Permutation_in _ Hp'). left. reflexivity. }
          destruct Hinx as [->|Hinx]; [reflexivity|].
          assert (Hina : In a (entries s)) by (apply (Permutation_in _ (Permutation_sym Hp)); left; reflexivity).
          specialize (Hmin a Hina).
          inversion Hs as [|? ? _ Hall]; subst. rewrite Forall_forall in Hall.
          specialize (Hall x Hinx). unfold idlt in Hall. lia. }
        subst x. split; [reflexivity|]. unfold R; simpl. repeat split; auto.
        * apply (Permutation_cons_inv (a := a)). rewrite Hp'. exact Hp.
        * inversion Hs; assumption.
        * intros e He. apply Hb. right. exact He.
    - (* Peek *) split; [|unfold R; auto]. f_equal. apply scan_perm; [|exact Hp].
      eapply Permutation_NoDup; [apply Permutation_map, Permutation_sym; exact Hp|apply sorted_nodup; exact Hs].
    - (* Len *) split; [|unfold R; auto]. f_equal. apply Permutation_length. exact Hp.
    - (* Values *) split; [|unfold R; auto]. f_equal. f_equal.
      apply sorted_perm_eq; [|exact Hs|rewrite sort_perm; exact Hp].
      apply sort_sorted.
      eapply Permutation_NoDup; [apply Permutation_map, Permutation_sym; exact Hp|apply sorted_nodup; exact Hs].
  Qed.

  Lemma run_refines ops : forall s q, R s q -> snd (run zero s ops) = snd (qrun zero q ops).
  Proof.
    induction ops as [|o t IH]; intros s q HR; simpl; [reflexivity|].
    pose proof (step_refines s q o HR) as H.
    destruct (step zero s o) as [s1 r]. destruct (qstep zero q o) as [q1 r'].
    destruct H as [-> HR1]. specialize (IH s1 q1 HR1).
    destruct (run zero s1 t) as [s2 rs]. destruct (qrun zero q1 t) as [q2 rs']. simpl in *. congruence.
  Qed.

  Theorem gstack_refines_queue ops : snd (run zero init ops) = snd (qrun zero qinit ops).
  Proof. apply run_refines. apply R_init. Qed.

  (* ---- consequences read off the specification ---- *)
  (* ids handed out by the queue specification are 1, 2, 3, ... in call order *)
  Fixpoint push_ids (outs : list (@out V)) : list Z :=
    match outs with
    | [] => []
    | OId id :: t => id :: push_ids t
    | _ :: t => push_ids t
    end.
  Fixpoint zseq (from : Z) (n : nat) : list Z :=
    match n with 0 => [] | S k => from :: zseq (from + 1) k end.

  Lemma qrun_ids ops : forall q,
    push_ids (snd (qrun zero q ops)) = zseq (qnext q + 1) (length (push_ids (snd (qrun zero q ops)))).
  Proof.
    induction ops as [|o t IH]; intros q; simpl; [reflexivity|].
    destruct o as [v| |id| |]; simpl.
    - specialize (IH {| items := items q ++ [((qnext q + 1)%Z, v)]; qnext := (qnext q + 1)%Z |}).
      destruct (qrun zero _ t) as [q2 rs]. simpl in *. f_equal. exact IH.
    - destruct (items q) as [|e l].
      + specialize (IH q). destruct (qrun zero q t) as [q2 rs]. exact IH.
      + specialize (IH {| items := l; qnext := qnext q |}). destruct (qrun zero _ t) as [q2 rs]. exact IH.
    - specialize (IH q). destruct (qrun zero q t) as [q2 rs]. exact IH.
    - specialize (IH q). destruct (qrun zero q t) as [q2 rs]. exact IH.
    - specialize (IH q). destruct (qrun zero q t) as [q2 rs]. exact IH.
  Qed.

  Theorem gstack_ids ops :
    let outs := snd (run zero init ops) in
    push_ids outs = zseq 1 (length (push_ids outs)).
  Proof. simpl. rewrite gstack_refines_queue. apply (qrun_ids ops qinit). Qed.

  (* ---- concurrent invariant ---- *)
  Definition CInv (c : @cstate V) : Prop :=
    hok (entries (st c))
    /\ panicked c = false
    /\ NoDup (map fst (issued c))
    /\ (0 <= next (st c))%Z
    /\ (forall e, In e (issued c) -> (1 <= fst e <= next (st c))%Z)
    /\ Permutation (issued c) (pending c ++ inserted c)
    /\ Permutation (inserted c) (popped c ++ entries (st c)).

  Lemma CInv_init : CInv (@cinit V).
  Proof.
    unfold CInv; simpl. split; [|split; [|split; [|split; [|split; [|split]]]]].
    - intros c H1 H2. simpl in H2. lia.
    - reflexivity.
    - constructor.
    - lia.
    - intros e [].
    - constructor.
    - constructor.
  Qed.

  Lemma remove_nth_perm {A} k (l : list A) e : nth_error l k = Some e -> Permutation l (e :: remove_nth k l).
  Proof.
    revert k; induction l as [|x t IH]; intros [|k] H; simpl in *; try discriminate.
    - injection H as ->. reflexivity.
    - rewrite (IH k H) at 1. apply perm_swap.
  Qed.

  Lemma cstep_inv c l c' : CInv c -> cstep c l = Some c' -> CInv c'.
  Proof.
    intros (Hh & Hpn & Hnd & Hn0 & Hrng & Hiss & Hins) Hs. destruct l as [v|k| |id| |]; simpl in Hs.
    - injection Hs as <-. unfold CInv; simpl.
      split; [exact Hh|]. split; [exact Hpn|]. split; [|split; [lia|split; [|split; [|exact Hins]]]].
      + constructor; [|exact Hnd]. intros Hin. apply in_map_iff in Hin.
        destruct Hin as (e & He & Hin). specialize (Hrng e Hin). simpl in He. lia.
      + intros e [<-|H]; [simpl; lia|]. specialize (Hrng e H). lia.
      + rewrite Hiss. rewrite <- app_assoc. simpl.
        apply Permutation_cons_app. reflexivity.
    - destruct (nth_error (pending c) k) as [e|] eqn:En; [|discriminate]. injection Hs as <-.
      unfold CInv; simpl.
      split; [apply push_ok; exact Hh|]. split; [exact Hpn|]. split; [exact Hnd|]. split; [exact Hn0|].
      split; [exact Hrng|]. split.
      + rewrite Hiss. rewrite (remove_nth_perm k _ e En) at 1. simpl.
        apply Permutation_cons_app. reflexivity.
      + rewrite push_perm. rewrite Hins at 1.
        apply Permutation_cons_app. reflexivity.
    - destruct (entries (st c)) as [|e0 l0] eqn:El.
      { injection Hs as <-. unfold CInv. rewrite El. auto 10. }
      rewrite <- El in *.
      destruct (pop_some (entries (st c))) as (x & l' & Epop); [rewrite El; discriminate|].
      rewrite Epop in Hs. injection Hs as <-.
      destruct (pop_ok _ _ _ Hh Epop) as (Hh' & Hp' & _).
      unfold CInv; simpl.
      split; [exact Hh'|]. split; [exact Hpn|]. split; [exact Hnd|]. split; [exact Hn0|].
      split; [exact Hrng|]. split; [exact Hiss|].
      rewrite Hins. rewrite <- Hp'. apply Permutation_sym, Permutation_cons_app. reflexivity.
    - injection Hs as <-. unfold CInv; auto 10.
    - injection Hs as <-. unfold CInv; auto 10.
    - injection Hs as <-. unfold CInv; auto 10.
  Qed.

  Theorem crun_inv ls : forall c c', CInv c -> crun c ls = Some c' -> CInv c'.
  Proof.
    induction ls as [|l t IH]; intros c c' Hc Hr; simpl in Hr; [injection Hr as <-; exact Hc|].
    destruct (cstep c l) as [c1|] eqn:E; [|discriminate].
    eapply IH; [|exact Hr]. eapply cstep_inv; eauto.
  Qed.

  Theorem gstack_conc_safe ls c :
    crun (@cinit V) ls = Some c ->
    panicked c = false
    /\ NoDup (map fst (issued c))
    /\ Permutation (issued c) (pending c ++ popped c ++ entries (st c)).
  Proof.
    intros Hr. destruct (crun_inv ls _ _ CInv_init Hr) as (_ & Hpn & Hnd & _ & _ & Hiss & Hins).
    split; [exact Hpn|]. split; [exact Hnd|]. rewrite Hiss. apply Permutation_app_head. exact Hins.
  Qed.

  (* a concurrent Pop removes the smallest id present at that moment *)
  Theorem gstack_conc_pop_min ls c c' :
    crun (@cinit V) ls = Some c -> cstep c LPop = Some c' -> entries (st c) <> [] ->
    exists e, popped c' = e :: popped c /\ In e (entries (st c))
              /\ (forall y, In y (entries (st c)) -> (fst e <= fst y)%Z)
              /\ Permutation (e :: entries (st c')) (entries (st c)).
  Proof.
    intros Hr Hs Hne. destruct (crun_inv ls _ _ CInv_init Hr) as (Hh & _).
    simpl in Hs. destruct (entries (st c)) as [|e0 l0] eqn:El; [contradiction|]. rewrite <- El in *.
    destruct (pop_some (entries (st c))) as (x & l' & Epop); [rewrite El; discriminate|].
    rewrite Epop in Hs. injection Hs as <-. destruct (pop_ok _ _ _ Hh Epop) as (_ & Hp' & Hmin).
    exists x. simpl. repeat split; auto. apply (Permutation_in _ Hp'). left. reflexivity.
  Qed.

  (* a concurrent Peek (one locked scan of the heap array) sees exactly the issued (id, value) pairs that are
     neither waiting for their insertion nor popped - whatever gaps concurrent pushers have left among the ids *)
  Theorem gstack_conc_peek ls c id v :
    crun (@cinit V) ls = Some c ->
    (scan id (entries (st c)) = Some v
     <-> In (id, v) (issued c) /\ ~ In (id, v) (pending c) /\ ~ In (id, v) (popped c)).
  Proof.
    intros Hr. destruct (gstack_conc_safe ls c Hr) as (_ & Hnd & Hp).
    assert (Hnd' : NoDup (map fst (pending c ++ popped c ++ entries (st c)))).
    { eapply Permutation_NoDup; [|exact Hnd]. apply Permutation_map. exact Hp. }
    assert (HndE : NoDup (map fst (entries (st c)))).
    { rewrite !map_app in Hnd'. apply NoDup_app_remove_l in Hnd'. apply NoDup_app_remove_l in Hnd'. exact Hnd'. }
    assert (Hsplit : forall {A} (a b : list A) x, NoDup (a ++ b) -> In x a -> In x b -> False).
    { intros A a. induction a as [|h t IHa]; intros b x Hn Ha Hb; [contradiction|].
      simpl in Hn. inversion Hn as [|? ? Hnh Hnt]; subst. destruct Ha as [->|Ha].
      - apply Hnh. rewrite in_app_iff. right. exact Hb.
      - exact (IHa b x Hnt Ha Hb). }
    assert (Hdisj : forall w, In (id, w) (entries (st c)) ->
                    ~ In (id, v) (pending c) /\ ~ In (id, v) (popped c)).
    { intros w Hw. rewrite !map_app in Hnd'. apply (in_map fst) in Hw. simpl in Hw. split; intros Hin.
      - apply (in_map fst) in Hin. simpl in Hin.
        apply (Hsplit _ _ _ id Hnd' Hin). rewrite in_app_iff. right. exact Hw.
      - apply (in_map fst) in Hin. simpl in Hin. apply NoDup_app_remove_l in Hnd'.
        exact (Hsplit _ _ _ id Hnd' Hin Hw). }
    rewrite (scan_In id _ v HndE). split.
    - intros Hin. split; [apply (Permutation_in _ (Permutation_sym Hp)); rewrite !in_app_iff; auto|].
      exact (Hdisj v Hin).
    - intros (Hi & Hnp & Hnq). apply (Permutation_in _ Hp) in Hi. rewrite !in_app_iff in Hi.
      destruct Hi as [Hi|[Hi|Hi]]; [contradiction|contradiction|exact Hi].
  Qed.
End GStackProofs.
