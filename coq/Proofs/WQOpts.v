(* NewQueue's option list: the effective configuration (Model/WQ.v [effective]). *)
From Coq Require Import List Arith Lia.
From TC.Model Require Import WQ.
Import ListNotations.

(* the last option of each kind, or the default *)
Fixpoint last_workers (d : nat) (opts : list qopt) : nat :=
  match opts with [] => d | OptWorkers n :: r => last_workers n r | OptLength _ :: r => last_workers d r end.
Fixpoint last_length (d : nat) (opts : list qopt) : nat :=
  match opts with [] => d | OptLength n :: r => last_length n r | OptWorkers _ :: r => last_length d r end.

Lemma fold_effective opts : forall w l,
  fold_left apply_opt opts (w, l) = (last_workers w opts, last_length l opts).
Proof. induction opts as [|[k|k] r IH]; intros w l; cbn; [reflexivity|apply IH|apply IH]. Qed.

(* last one wins, absent options leave the defaults NumCPU and 2*NumCPU *)
Lemma effective_spec ncpu opts :
  effective ncpu opts = (last_workers ncpu opts, last_length (2 * ncpu) opts).
Proof. apply fold_effective. Qed.

(* options of different kinds commute: the order in which WithWorkers and WithQueueLength are given is irrelevant *)
Lemma apply_opt_comm cfg w l :
  apply_opt (apply_opt cfg (OptWorkers w)) (OptLength l) = apply_opt (apply_opt cfg (OptLength l)) (OptWorkers w).
Proof. reflexivity. Qed.

Lemma effective_swap ncpu pre w l post :
  effective ncpu (pre ++ OptWorkers w :: OptLength l :: post) = effective ncpu (pre ++ OptLength l :: OptWorkers w :: post).
Proof. unfold effective. rewrite !fold_left_app. reflexivity. Qed.

(* a worker-count option never changes the length and vice versa *)
Lemma last_length_workers d w opts : last_length d (OptWorkers w :: opts) = last_length d opts.
Proof. reflexivity. Qed.
