(* Proofs about Model/SliceOps.v: list operations equal their specifications on the whole backing array. *)
From Coq Require Import List Arith Bool Lia Permutation.
From TC.Lib Require Import ListAux.
From TC.Model Require Import SliceOps.
Import ListNotations.

Section ListOps.
  Context {A : Type}.
  Variable zero : A.

  Lemma set_nth_length (a : list A) i x : length (set_nth a i x) = length a.
  Proof. revert i; induction a as [|h t IH]; intros [|i]; simpl; auto. Qed.

  Lemma set_nth_spec (a : list A) i x :
    i < length a -> set_nth a i x = firstn i a ++ x :: skipn (S i) a.
  Proof.
    revert i; induction a as [|h t IH]; intros [|i] Hi; simpl in *; try lia; auto.
    f_equal. apply IH. lia.
  Qed.

  Lemma zero_range_spec (a : list A) from cnt :
    from + cnt <= length a ->
    zero_range zero a from cnt = firstn from a ++ repeat zero cnt ++ skipn (from + cnt) a.
  Proof.
    revert a from; induction cnt as [|c IH]; intros a from H.
    - simpl. rewrite Nat.add_0_r, firstn_skipn. reflexivity.
    - cbn [zero_range]. rewrite IH by (rewrite set_nth_length; lia).
      rewrite set_nth_spec by lia.
      replace (S from) with (from + 1) at 1 by lia.
      rewrite firstn_app, firstn_firstn, firstn_length.
      replace (Nat.min (from + 1) from) with from by lia.
      replace (from + 1 - Nat.min from (length a)) with 1 by lia.
      cbn [firstn]. rewrite <- app_assoc. f_equal. cbn [app repeat]. f_equal. f_equal.
      rewrite skipn_app, firstn_length.
      replace (S from + c - Nat.min from (length a)) with (S c) by lia.
      rewrite (skipn_all2 (firstn from a)) by (rewrite firstn_length; lia).
      cbn [app]. change (skipn (S c) (zero :: skipn (S from) a)) with (skipn c (skipn (S from) a)). rewrite skipn_skipn. f_equal. lia.
  Qed.

  Lemma go_copy_spec (dst src : list A) off :
    off + length src <= length dst ->
    go_copy dst off src = firstn off dst ++ src ++ skipn (off + length src) dst.
  Proof.
    intros H. unfold go_copy.
    replace (Nat.min (length dst - off) (length src)) with (length src) by lia.
    rewrite firstn_all. reflexivity.
  Qed.

  (* ---- Remove ---- *)
  Theorem remove_spec (b : list A) len i j :
    i <= j -> j <= len -> len <= length b ->
    remove zero b len i j =
      Some (firstn i b ++ skipn j (firstn len b) ++ repeat zero (j - i) ++ skipn len b,
            len - (j - i)).
  Proof.
    intros Hij Hjl Hlb. unfold remove.
    replace (i <=? j) with true by (symmetry; apply Nat.leb_le; lia).
    replace (j <=? len) with true by (symmetry; apply Nat.leb_le; lia).
    replace (len <=? length b) with true by (symmetry; apply Nat.leb_le; lia).
    cbn [andb]. f_equal. f_equal; [|lia].
    set (l := firstn len b).
    assert (Hl : length l = len) by (unfold l; rewrite firstn_length; lia).
    rewrite go_copy_spec by (rewrite skipn_length; lia).
    rewrite skipn_length, Hl.
    rewrite zero_range_spec
      by (rewrite !app_length, firstn_length, !skipn_length, Hl; lia).
    replace (len - (len - j + i)) with (j - i) by lia.
    assert (H1 : length (firstn i l ++ skipn j l) = len - j + i)
      by (rewrite app_length, firstn_length, skipn_length, Hl; lia).
    rewrite !(app_assoc (firstn i l) (skipn j l)).
    rewrite firstn_app, H1, Nat.sub_diag. cbn [firstn].
    rewrite app_nil_r, firstn_all2 by lia.
    rewrite (skipn_all2 (n := len - j + i + (j - i)))
      by (rewrite !app_length, firstn_length, !skipn_length, Hl; lia).
    rewrite app_nil_r. unfold l at 1. rewrite firstn_firstn.
    replace (Nat.min i len) with i by lia.
    rewrite <- !app_assoc. reflexivity.
  Qed.

  (* visible result of Remove *)
  Corollary remove_visible (b : list A) len i j b' len' :
    i <= j -> j <= len -> len <= length b ->
    remove zero b len i j = Some (b', len') ->
    firstn len' b' = firstn i (firstn len b) ++ skipn j (firstn len b)
    /\ length b' = length b
    /\ firstn (j - i) (skipn len' b') = repeat zero (j - i)
    /\ skipn len b' = skipn len b.
  Proof.
    intros Hij Hjl Hlb H. rewrite remove_spec in H by assumption.
    injection H as <- <-.
    set (l := firstn len b).
    assert (Hl : length l = len) by (unfold l; rewrite firstn_length; lia).
    assert (Hfi : firstn i b = firstn i l)
      by (unfold l; rewrite firstn_firstn; f_equal; lia).
    rewrite Hfi.
    assert (H1 : length (firstn i l ++ skipn j l) = len - (j - i))
      by (rewrite app_length, firstn_length, skipn_length, Hl; lia).
    repeat split.
    - rewrite app_assoc, firstn_app, H1, Nat.sub_diag. cbn [firstn].
      rewrite app_nil_r. apply firstn_all2. lia.
    - rewrite !app_length, firstn_length, !skipn_length, repeat_length, Hl. lia.
    - rewrite app_assoc, skipn_app, H1, Nat.sub_diag. cbn [skipn].
      rewrite skipn_all2 by lia. cbn [app].
      rewrite firstn_app, repeat_length, Nat.sub_diag. cbn [firstn].
      rewrite app_nil_r. apply firstn_all2. rewrite repeat_length. lia.
    - rewrite app_assoc, app_assoc, skipn_app.
      assert (H2 : length ((firstn i l ++ skipn j l) ++ repeat zero (j - i)) = len)
        by (rewrite app_length, H1, repeat_length; lia).
      rewrite H2, Nat.sub_diag. cbn [skipn].
      rewrite skipn_all2 by lia. reflexivity.
  Qed.

  Theorem cut_spec (b : list A) len i j :
    i <= j -> j <= len -> len <= length b ->
    cut zero b len i j =
      Some (firstn (j - i) (skipn i (firstn len b)),
            firstn i b ++ skipn j (firstn len b) ++ repeat zero (j - i) ++ skipn len b,
            len - (j - i)).
  Proof. intros. unfold cut. rewrite remove_spec by assumption. reflexivity. Qed.

  Theorem insert_spec (s v : list A) i :
    i <= length s -> insert s i v = Some (firstn i s ++ v ++ skipn i s).
  Proof.
    intros H. unfold insert.
    replace (i <=? length s) with true by (symmetry; apply Nat.leb_le; lia). reflexivity.
  Qed.

  Theorem push_spec (s v : list A) : push s v = v ++ s.
  Proof. reflexivity. Qed.

  (* ---- FilterInPlace ---- *)
  Lemma nth_error_skipn_hd (a : list A) idx :
    nth_error a idx = hd_error (skipn idx a).
  Proof.
    revert idx; induction a as [|h t IH]; intros [|idx]; simpl; auto.
  Qed.

  Lemma skipn_S_tl (a : list A) idx : skipn (S idx) a = tl (skipn idx a).
  Proof.
    revert idx; induction a as [|h t IH]; intros idx.
    - destruct idx; reflexivity.
    - destruct idx as [|idx]; [reflexivity|].
      change (skipn (S (S idx)) (h :: t)) with (skipn (S idx) t).
      change (skipn (S idx) (h :: t)) with (skipn idx t). apply IH.
  Qed.

  Lemma filter_loop_spec (keep : A -> bool) (l : list A) :
    forall fuel a idx w,
      w <= idx -> idx + fuel = length l -> length a = length l ->
      skipn idx a = skipn idx l ->
      firstn w a = filter keep (firstn idx l) ->
      exists a',
        filter_loop keep a idx w fuel = (a', length (filter keep l))
        /\ length a' = length l
        /\ firstn (length (filter keep l)) a' = filter keep l.
  Proof.
    induction fuel as [|f IH]; intros a idx w Hw Hf Hla Hsk Hfw.
    - assert (idx = length l) by lia. subst idx.
      rewrite firstn_all in Hfw.
      assert (Hwl : w = length (filter keep l)).
      { rewrite <- Hfw, firstn_length. lia. }
      exists a. cbn [filter_loop]. rewrite <- Hwl. repeat split; auto.
    - cbn [filter_loop].
      assert (Hidx : idx < length l) by lia.
      rewrite nth_error_skipn_hd, Hsk.
      destruct (skipn idx l) as [|e rest] eqn:Hs.
      { apply (f_equal (@length A)) in Hs. rewrite skipn_length in Hs. simpl in Hs. lia. }
      cbn [hd_error].
      assert (Hfi : firstn (S idx) l = firstn idx l ++ [e]).
      { rewrite <- (firstn_skipn idx l) at 1. rewrite Hs.
        rewrite firstn_app, firstn_length.
        replace (Nat.min idx (length l)) with idx by lia.
        replace (S idx - idx) with 1 by lia.
        rewrite firstn_firstn. replace (Nat.min (S idx) idx) with idx by lia.
        reflexivity. }
      assert (Hsk' : forall a0, length a0 = length l -> skipn idx a0 = e :: rest ->
                                skipn (S idx) a0 = skipn (S idx) l).
      { intros a0 _ H0. rewrite !skipn_S_tl, H0, Hs. reflexivity. }
      destruct (keep e) eqn:Hk.
      + apply IH; try lia.
        * rewrite set_nth_length. exact Hla.
        * rewrite set_nth_spec by lia.
          rewrite skipn_app, firstn_length.
          replace (Nat.min w (length a)) with w by lia.
          rewrite (skipn_all2 (firstn w a)) by (rewrite firstn_length; lia).
          cbn [app].
          replace (S idx - w) with (S (idx - w)) by lia.
          change (skipn (S (idx - w)) (e :: skipn (S w) a)) with (skipn (idx - w) (skipn (S w) a)).
          rewrite skipn_skipn. replace (S w + (idx - w)) with (S idx) by lia.
          apply Hsk'; auto.
        * rewrite set_nth_spec by lia.
          replace (S w) with (w + 1) by lia.
          rewrite firstn_app, firstn_length.
          replace (Nat.min w (length a)) with w by lia.
          rewrite firstn_firstn. replace (Nat.min (w + 1) w) with w by lia.
          replace (w + 1 - w) with 1 by lia.
          change (firstn 1 (e :: skipn (S w) a)) with [e].
          rewrite Hfw, Hfi, filter_app. cbn [filter]. rewrite Hk. reflexivity.
      + apply IH; try lia; auto.
        rewrite Hfw, Hfi, filter_app. cbn [filter]. rewrite Hk, app_nil_r. reflexivity.
  Qed.

  Theorem filter_spec (keep : A -> bool) (b : list A) len :
    len <= length b ->
    let l := firstn len b in
    filter_in_place zero keep b len =
      Some (filter keep l ++ repeat zero (len - length (filter keep l)) ++ skipn len b,
            length (filter keep l)).
  Proof.
    intros Hlb l. unfold filter_in_place.
    replace (len <=? length b) with true by (symmetry; apply Nat.leb_le; lia).
    assert (Hl : length l = len) by (unfold l; rewrite firstn_length; lia).
    destruct (filter_loop_spec keep l len l 0 0) as (a' & Hloop & Hla' & Hfa'); auto; try lia.
    fold l. rewrite Hloop.
    assert (Hfl : length (filter keep l) <= len).
    { rewrite <- Hl. apply filter_length_le. }
    rewrite zero_range_spec by lia.
    rewrite Hfa'.
    replace (length (filter keep l) + (len - length (filter keep l))) with len by lia.
    rewrite (skipn_all2 a') by lia. rewrite app_nil_r, <- app_assoc. reflexivity.
  Qed.

  Theorem pop_spec (b : list A) len :
    len <= length b ->
    pop zero b len =
      match firstn len b with
      | [] => Some (zero, b, 0)
      | x :: rest => Some (x, rest ++ [zero] ++ skipn len b, len - 1)
      end.
  Proof.
    intros Hlb. unfold pop.
    replace (len <=? length b) with true by (symmetry; apply Nat.leb_le; lia).
    destruct len as [|n]; [reflexivity|].
    destruct b as [|x t]; [simpl in Hlb; lia|].
    rewrite remove_spec by (simpl in *; lia).
    cbn [nth_error firstn skipn app repeat Nat.sub]. rewrite Nat.sub_0_r. reflexivity.
  Qed.
End ListOps.
