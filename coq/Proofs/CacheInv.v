(* Inductive invariant of the sequential cache model and its preservation by Set/Delete/Sweep/Clear. *)
From Coq Require Import List Arith Bool Lia.
From TC.Lib Require Import ListAux Assoc AssocProofs.
From TC.Model Require Import Cache.
Import ListNotations.

Section CacheInv.
  Context {K V : Type}.
  Variable keqb : K -> K -> bool.
  Hypothesis keqb_spec : forall x y, reflect (x = y) (keqb x y).

  Notation state := (@state K V).
  Notation amap := (@amap K).
  Notation lookup := (lookup keqb).
  Notation upsert := (upsert keqb).
  Notation remove := (remove keqb).
  Notation has := (has keqb).
  Notation set := (set keqb).
  Notation fresh := (fresh keqb).
  Notation delete := (delete keqb).
  Notation get := (get keqb).

  Definition ids (ps : list (nat * amap V)) : list nat := map fst ps.
  Ltac sproj := cbn [parts next cur index P C with_parts with_index open_part sweep].

  (* ---- peek / put ---- *)
  Lemma peek_In id (ps : list (nat * amap V)) m : peek id ps = Some m -> In (id, m) ps.
  Proof.
    induction ps as [|[i m'] t IH]; simpl; [discriminate|].
    destruct (Nat.eqb_spec i id) as [->|Hne]; [intros [= ->]; auto|auto].
  Qed.

  Lemma peek_None id (ps : list (nat * amap V)) : peek id ps = None <-> ~ In id (ids ps).
  Proof.
    induction ps as [|[i m'] t IH]; simpl; [tauto|].
    destruct (Nat.eqb_spec i id) as [->|Hne]; [split; [discriminate|tauto]|].
    rewrite IH. split; [intros H [E|E]; [congruence|tauto]|tauto].
  Qed.

  Lemma peek_Some_ids id (ps : list (nat * amap V)) m : peek id ps = Some m -> In id (ids ps).
  Proof. intros H. apply peek_In in H. apply (in_map fst) in H. exact H. Qed.

  Lemma In_peek id (ps : list (nat * amap V)) m : NoDup (ids ps) -> In (id, m) ps -> peek id ps = Some m.
  Proof.
    induction ps as [|[i m'] t IH]; simpl; intros Hnd Hin; [tauto|].
    inversion Hnd as [|? ? Hn Hnd']; subst.
    destruct Hin as [[= -> ->]|Hin]; [rewrite Nat.eqb_refl; reflexivity|].
    destruct (Nat.eqb_spec i id) as [->|Hne]; [|auto].
    exfalso. apply Hn. apply (in_map fst) in Hin. exact Hin.
  Qed.

  Lemma ids_put id m (ps : list (nat * amap V)) : ids (put id m ps) = ids ps.
  Proof.
    induction ps as [|[i m'] t IH]; simpl; [reflexivity|].
    destruct (i =? id); simpl; [reflexivity|]. f_equal. exact IH.
  Qed.

  Lemma length_put id m (ps : list (nat * amap V)) : length (put id m ps) = length ps.
  Proof. rewrite <- (map_length fst), <- (map_length fst ps). f_equal. apply ids_put. Qed.

  Lemma peek_put_eq id m (ps : list (nat * amap V)) : In id (ids ps) -> peek id (put id m ps) = Some m.
  Proof.
    induction ps as [|[i m'] t IH]; simpl; [tauto|].
    destruct (Nat.eqb_spec i id) as [->|Hne]; simpl.
    - rewrite Nat.eqb_refl. reflexivity.
    - intros [H|H]; [congruence|]. destruct (Nat.eqb_spec i id); [congruence|auto].
  Qed.

  Lemma peek_put_neq id id' m (ps : list (nat * amap V)) : id' <> id -> peek id' (put id m ps) = peek id' ps.
  Proof.
    intros Hne. induction ps as [|[i m'] t IH]; simpl; [reflexivity|].
    destruct (Nat.eqb_spec i id) as [->|Hne2]; simpl.
    - destruct (Nat.eqb_spec id id'); [congruence|reflexivity].
    - destruct (Nat.eqb_spec i id'); [reflexivity|exact IH].
  Qed.

  Lemma peek_app id (ps qs : list (nat * amap V)) :
    peek id (ps ++ qs) = match peek id ps with Some m => Some m | None => peek id qs end.
  Proof.
    induction ps as [|[i m'] t IH]; simpl; [reflexivity|].
    destruct (i =? id); [reflexivity|exact IH].
  Qed.

  Lemma skipn_seq d lo n : skipn d (seq lo n) = seq (lo + d) (n - d).
  Proof.
    revert lo n; induction d as [|d IH]; intros lo n; simpl.
    - rewrite Nat.add_0_r, Nat.sub_0_r. reflexivity.
    - destruct n as [|n]; simpl; [reflexivity|]. rewrite IH. f_equal. lia.
  Qed.

  (* ---- the invariant ---- *)
  Record Inv (s : state) : Prop := {
    inv_ids : ids (parts s) = seq (S (next s) - length (parts s)) (length (parts s));
    inv_len : length (parts s) <= next s;
    inv_cur : cur s = next s;
    inv_nd : forall id m, peek id (parts s) = Some m -> NoDup (keys m);
    inv_idx : forall id m k, peek id (parts s) = Some m -> In k (keys m) -> lookup k (index s) = Some id;
    inv_live : forall k id m, lookup k (index s) = Some id -> peek id (parts s) = Some m -> In k (keys m);
    inv_cap : forall id m, peek id (parts s) = Some m -> length m <= C s;
    inv_pc : 1 <= P s /\ 1 <= C s;
    inv_ixnd : NoDup (keys (index s));
    inv_ixrange : forall k id, lookup k (index s) = Some id -> 1 <= id <= next s
  }.

  Lemma Inv_nodup_ids s : Inv s -> NoDup (ids (parts s)).
  Proof. intros H. rewrite (inv_ids s H). apply seq_NoDup. Qed.

  Lemma Inv_id_range s id : Inv s -> (In id (ids (parts s)) <-> S (next s) - length (parts s) <= id <= next s).
  Proof.
    intros H. rewrite (inv_ids s H), in_seq. pose proof (inv_len s H). lia.
  Qed.

  Lemma Inv_init p c : 1 <= p -> 1 <= c -> Inv (init p c).
  Proof.
    intros Hp Hc. constructor; simpl; try discriminate; auto; try lia.
    - constructor.
  Qed.

  Lemma Inv_clear_with p c : 1 <= p -> 1 <= c -> Inv (clear_with p c).
  Proof.
    intros Hp Hc. constructor; simpl; auto; try lia; try discriminate.
    - intros id m. destruct id as [|[|id]]; try discriminate. intros [= <-]. constructor.
    - intros id m k. destruct id as [|[|id]]; try discriminate. intros [= <-] [].
    - intros id m. destruct id as [|[|id]]; try discriminate. intros [= <-]. simpl. lia.
    - constructor.
  Qed.

  Lemma Inv_clear s : Inv s -> Inv (clear s).
  Proof. intros H. destruct (inv_pc s H). apply Inv_clear_with; assumption. Qed.

  (* ---- Sweep ---- *)
  Lemma peek_skipn id d (ps : list (nat * amap V)) m :
    NoDup (ids ps) -> peek id (skipn d ps) = Some m -> peek id ps = Some m.
  Proof.
    intros Hnd H. apply In_peek; [exact Hnd|]. apply peek_In in H.
    rewrite <- (firstn_skipn d ps). apply in_or_app. right. exact H.
  Qed.

  Lemma Inv_sweep s : Inv s -> Inv (sweep s).
  Proof.
    intros H. pose proof (Inv_nodup_ids s H) as Hnd.
    set (d := length (parts s) - P s).
    constructor; unfold sweep; sproj; fold d.
    - unfold ids. rewrite <- skipn_map. fold (ids (parts s)). rewrite (inv_ids s H), skipn_seq, skipn_length.
      f_equal. pose proof (inv_len s H). lia.
    - rewrite skipn_length. pose proof (inv_len s H). lia.
    - exact (inv_cur s H).
    - intros id m Hp. eapply (inv_nd s H). eapply peek_skipn; eauto.
    - intros id m k Hp. eapply (inv_idx s H). eapply peek_skipn; eauto.
    - intros k id m Hl Hp. eapply (inv_live s H); eauto. eapply peek_skipn; eauto.
    - intros id m Hp. eapply (inv_cap s H). eapply peek_skipn; eauto.
    - exact (inv_pc s H).
    - exact (inv_ixnd s H).
    - exact (inv_ixrange s H).
  Qed.

  Lemma sweep_length s : Inv s -> length (parts (sweep s)) <= P s.
  Proof. intros _. unfold sweep; simpl. rewrite skipn_length. lia. Qed.

  (* ---- open a partition ---- *)
  Lemma Inv_open s : Inv s -> Inv (open_part s).
  Proof.
    intros H. pose proof (inv_len s H) as Hlen.
    constructor; unfold open_part; sproj.
    - unfold ids. rewrite map_app, app_length. cbn [map fst length]. fold (ids (parts s)). rewrite (inv_ids s H).
      replace (length (parts s) + 1) with (S (length (parts s))) by lia.
      replace (S (S (next s)) - S (length (parts s))) with (S (next s) - length (parts s)) by lia.
      rewrite seq_S. f_equal. f_equal. lia.
    - rewrite app_length. cbn [length]. lia.
    - reflexivity.
    - intros id m. rewrite peek_app. destruct (peek id (parts s)) eqn:E.
      + intros [= <-]. eapply (inv_nd s H); eauto.
      + cbn [peek]. destruct (S (next s) =? id); [intros [= <-]; constructor|discriminate].
    - intros id m k. rewrite peek_app. destruct (peek id (parts s)) eqn:E.
      + intros [= <-]. eapply (inv_idx s H); eauto.
      + cbn [peek]. destruct (S (next s) =? id); [intros [= <-] []|discriminate].
    - intros k id m Hl. rewrite peek_app. destruct (peek id (parts s)) eqn:E.
      + intros [= <-]. eapply (inv_live s H); eauto.
      + cbn [peek]. destruct (Nat.eqb_spec (S (next s)) id) as [<-|Hne]; [|discriminate].
        pose proof (inv_ixrange s H k _ Hl). lia.
    - intros id m. rewrite peek_app. destruct (peek id (parts s)) eqn:E.
      + intros [= <-]. eapply (inv_cap s H); eauto.
      + cbn [peek]. destruct (S (next s) =? id); [intros [= <-]; simpl; lia|discriminate].
    - exact (inv_pc s H).
    - exact (inv_ixnd s H).
    - intros k id Hl. pose proof (inv_ixrange s H k id Hl). lia.
  Qed.

  Lemma peek_open_cur s : Inv s -> peek (cur (open_part s)) (parts (open_part s)) = Some [].
  Proof.
    intros H. unfold open_part; sproj. rewrite peek_app.
    destruct (peek (S (next s)) (parts s)) eqn:E.
    - apply peek_Some_ids in E. apply (Inv_id_range s _ H) in E. lia.
    - cbn [peek]. rewrite Nat.eqb_refl. reflexivity.
  Qed.

  (* [absent s k]: Set takes the insertion path for k *)
  Definition absent (s : state) (k : K) : Prop :=
    forall id, lookup k (index s) = Some id -> peek id (parts s) = None.

  Lemma absent_open s k : Inv s -> absent s k -> absent (open_part s) k.
  Proof.
    intros H Ha id Hl. cbn [open_part index] in Hl. unfold open_part; sproj. rewrite peek_app, (Ha id Hl). cbn [peek].
    destruct (Nat.eqb_spec (S (next s)) id) as [<-|]; [|reflexivity].
    pose proof (inv_ixrange s H k _ Hl). lia.
  Qed.

  (* insertion of an absent key into a current partition that has room *)
  Lemma Inv_insert s k v m :
    Inv s -> absent s k -> peek (cur s) (parts s) = Some m -> length m < C s ->
    Inv (with_index (with_parts s (put (cur s) (upsert k v m) (parts s))) (upsert k (cur s) (index s))).
  Proof.
    intros H Ha Hm Hroom.
    assert (Hcid : In (cur s) (ids (parts s))) by (eapply peek_Some_ids; eauto).
    assert (Hnk : ~ In k (keys m)).
    { intros Hin. pose proof (inv_idx s H _ _ _ Hm Hin) as Hl. specialize (Ha _ Hl). congruence. }
    assert (Hhas : has k m = false) by (apply has_false; assumption).
    constructor; simpl.
    - rewrite ids_put, length_put. exact (inv_ids s H).
    - rewrite length_put. exact (inv_len s H).
    - exact (inv_cur s H).
    - intros id m'. destruct (Nat.eq_dec id (cur s)) as [->|Hne].
      + rewrite peek_put_eq by assumption. intros [= <-]. apply NoDup_upsert; auto. eapply (inv_nd s H); eauto.
      + rewrite peek_put_neq by assumption. apply (inv_nd s H).
    - intros id m' k'. destruct (Nat.eq_dec id (cur s)) as [->|Hne].
      + rewrite peek_put_eq by assumption. intros [= <-] Hin.
        apply keys_upsert_in in Hin; auto. destruct Hin as [->|Hin].
        * apply lookup_upsert_eq; auto.
        * destruct (keqb_spec k' k) as [->|Hnk']; [tauto|].
          rewrite lookup_upsert_neq by assumption. eapply (inv_idx s H); eauto.
      + rewrite peek_put_neq by assumption. intros Hp Hin.
        destruct (keqb_spec k' k) as [->|Hnk'].
        * pose proof (inv_idx s H _ _ _ Hp Hin) as Hl. specialize (Ha _ Hl). congruence.
        * rewrite lookup_upsert_neq by assumption. eapply (inv_idx s H); eauto.
    - intros k' id m'. destruct (keqb_spec k' k) as [->|Hnk'].
      + rewrite lookup_upsert_eq by assumption. intros [= <-].
        rewrite peek_put_eq by assumption. intros [= <-]. apply keys_upsert_in; auto.
      + rewrite lookup_upsert_neq by assumption. intros Hl.
        destruct (Nat.eq_dec id (cur s)) as [->|Hne].
        * rewrite peek_put_eq by assumption. intros [= <-]. apply keys_upsert_in; auto. right.
          eapply (inv_live s H); eauto.
        * rewrite peek_put_neq by assumption. apply (inv_live s H). exact Hl.
    - intros id m'. destruct (Nat.eq_dec id (cur s)) as [->|Hne].
      + rewrite peek_put_eq by assumption. intros [= <-]. rewrite length_upsert by assumption. rewrite Hhas. lia.
      + rewrite peek_put_neq by assumption. apply (inv_cap s H).
    - exact (inv_pc s H).
    - apply NoDup_upsert; auto. exact (inv_ixnd s H).
    - intros k' id. destruct (keqb_spec k' k) as [->|Hnk'].
      + rewrite lookup_upsert_eq by assumption. intros [= <-].
        apply (Inv_id_range s _ H) in Hcid. pose proof (inv_len s H). lia.
      + rewrite lookup_upsert_neq by assumption. apply (inv_ixrange s H).
  Qed.

  Lemma room_true (s : state) : room s = true -> exists m, peek (cur s) (parts s) = Some m /\ length m < C s.
  Proof.
    unfold room. destruct (peek (cur s) (parts s)) as [m|]; [|discriminate].
    intros Hlt. apply Nat.ltb_lt in Hlt. eauto.
  Qed.

  Lemma Inv_fresh s k v : Inv s -> absent s k -> Inv (fresh s k v).
  Proof.
    intros H Ha. unfold Cache.fresh. destruct (room s) eqn:Er.
    - destruct (room_true s Er) as (m & Hm & Hlt). rewrite Hm. apply Inv_insert; assumption.
    - rewrite (peek_open_cur s H).
      apply (Inv_insert (open_part s) k v []); auto using Inv_open, absent_open, peek_open_cur.
      simpl. destruct (inv_pc s H). lia.
  Qed.

  Lemma Inv_set s k v : Inv s -> Inv (set s k v).
  Proof.
    intros H. unfold Cache.set.
    destruct (lookup k (index s)) as [id|] eqn:El.
    - destruct (peek id (parts s)) as [m|] eqn:Ep.
      + (* in place *)
        assert (Hid : In id (ids (parts s))) by (eapply peek_Some_ids; eauto).
        assert (Hk : In k (keys m)) by (eapply (inv_live s H); eauto).
        assert (Hhas : has k m = true) by (apply has_In; assumption).
        assert (Hkeys : keys (upsert k v m) = keys m) by (rewrite keys_upsert, Hhas; auto).
        constructor; simpl.
        * rewrite ids_put, length_put. exact (inv_ids s H).
        * rewrite length_put. exact (inv_len s H).
        * exact (inv_cur s H).
        * intros id' m'. destruct (Nat.eq_dec id' id) as [->|Hne].
          -- rewrite peek_put_eq by assumption. intros [= <-]. rewrite Hkeys. eapply (inv_nd s H); eauto.
          -- rewrite peek_put_neq by assumption. apply (inv_nd s H).
        * intros id' m' k'. destruct (Nat.eq_dec id' id) as [->|Hne].
          -- rewrite peek_put_eq by assumption. intros [= <-]. rewrite Hkeys. eapply (inv_idx s H); eauto.
          -- rewrite peek_put_neq by assumption. apply (inv_idx s H).
        * intros k' id' m' Hl. destruct (Nat.eq_dec id' id) as [->|Hne].
          -- rewrite peek_put_eq by assumption. intros [= <-]. rewrite Hkeys. eapply (inv_live s H); eauto.
          -- rewrite peek_put_neq by assumption. apply (inv_live s H). exact Hl.
        * intros id' m'. destruct (Nat.eq_dec id' id) as [->|Hne].
          -- rewrite peek_put_eq by assumption. intros [= <-]. rewrite length_upsert by assumption. rewrite Hhas.
             eapply (inv_cap s H); eauto.
          -- rewrite peek_put_neq by assumption. apply (inv_cap s H).
        * exact (inv_pc s H).
        * exact (inv_ixnd s H).
        * exact (inv_ixrange s H).
      + apply Inv_fresh; [exact H|]. intros id' Hl'. congruence.
    - apply Inv_fresh; [exact H|]. intros id' Hl'. congruence.
  Qed.

  Lemma Inv_delete s k : Inv s -> Inv (delete s k).
  Proof.
    intros H. unfold Cache.delete.
    destruct (lookup k (index s)) as [id|] eqn:El; [|exact H].
    destruct (peek id (parts s)) as [m|] eqn:Ep; [|exact H].
    destruct (has k m) eqn:Eh; [|exact H].
    assert (Hid : In id (ids (parts s))) by (eapply peek_Some_ids; eauto).
    assert (Hndm : NoDup (keys m)) by (eapply (inv_nd s H); eauto).
    pose proof (inv_ixnd s H) as Hndi.
    constructor; simpl.
    - rewrite ids_put, length_put. exact (inv_ids s H).
    - rewrite length_put. exact (inv_len s H).
    - exact (inv_cur s H).
    - intros id' m'. destruct (Nat.eq_dec id' id) as [->|Hne].
      + rewrite peek_put_eq by assumption. intros [= <-]. apply NoDup_remove. exact Hndm.
      + rewrite peek_put_neq by assumption. apply (inv_nd s H).
    - intros id' m' k'. destruct (Nat.eq_dec id' id) as [->|Hne].
      + rewrite peek_put_eq by assumption. intros [= <-] Hin.
        apply keys_remove_in in Hin; auto. destruct Hin as [Hnk Hin].
        rewrite lookup_remove_neq by assumption. eapply (inv_idx s H); eauto.
      + rewrite peek_put_neq by assumption. intros Hp Hin.
        pose proof (inv_idx s H _ _ _ Hp Hin) as Hl.
        destruct (keqb_spec k' k) as [->|Hnk]; [congruence|].
        rewrite lookup_remove_neq by assumption. exact Hl.
    - intros k' id' m'. destruct (keqb_spec k' k) as [->|Hnk].
      + rewrite lookup_remove_eq by assumption. discriminate.
      + rewrite lookup_remove_neq by assumption. intros Hl.
        destruct (Nat.eq_dec id' id) as [->|Hne].
        * rewrite peek_put_eq by assumption. intros [= <-]. apply keys_remove_in; auto. split; [exact Hnk|].
          eapply (inv_live s H); eauto.
        * rewrite peek_put_neq by assumption. apply (inv_live s H). exact Hl.
    - intros id' m'. destruct (Nat.eq_dec id' id) as [->|Hne].
      + rewrite peek_put_eq by assumption. intros [= <-].
        pose proof (length_remove keqb k m). pose proof (inv_cap s H _ _ Ep). lia.
      + rewrite peek_put_neq by assumption. apply (inv_cap s H).
    - exact (inv_pc s H).
    - apply NoDup_remove. exact Hndi.
    - intros k' id'. destruct (keqb_spec k' k) as [->|Hnk].
      + rewrite lookup_remove_eq by assumption. discriminate.
      + rewrite lookup_remove_neq by assumption. apply (inv_ixrange s H).
  Qed.
End CacheInv.
