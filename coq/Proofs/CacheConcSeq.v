(* Sequential projection: on a state with no operation in flight, spawning an operation of the concurrent model
   and letting its goroutine run alone to completion is exactly the corresponding step of the sequential cache
   model Model/Cache.v (after F1/F2), under the abstraction [absf]. *)
From Coq Require Import List Arith Bool Lia.
From TC.Lib Require Import Assoc.
From TC.Model Require Cache.
From TC.Model Require Import CacheConc CacheConcSeq.
From TC.Proofs Require Import CacheConcBase CacheConcSafe.
Import ListNotations.

Lemma upd_upd {A} i (x y : A) l : upd i x (upd i y l) = upd i x l.
Proof. revert i; induction l as [|z t IH]; intros [|i]; simpl; auto. f_equal; auto. Qed.

Section SeqProofs.
  Context {K V : Type}.
  Variable keqb : K -> K -> bool.
  Variable zero : V.
  Hypothesis keqb_spec : forall a b, reflect (a = b) (keqb a b).
  Variable c : config.
  Hypothesis Hre : recheck c = true.
  Hypothesis Hdel : delidx c = true.
  Notation state := (@CacheConc.state K V).
  Notation step := (@CacheConc.step K V keqb zero).
  Notation run := (@CacheConc.run K V keqb zero).
  Notation absf := (@absf K V).
  Notation WF := (@WF K V).

  (* the two association-list libraries agree *)
  Lemma lookup_eq {B} k (m : list (K * B)) : CacheConc.lookup keqb k m = Assoc.lookup keqb k m.
  Proof. induction m as [|[k' b] t IH]; simpl; auto. rewrite IH. reflexivity. Qed.
  Lemma aset_eq {B} k (b : B) m : aset keqb k b m = upsert keqb k b m.
  Proof.
    induction m as [|[k' b'] t IH]; simpl; auto.
    destruct (keqb_spec k k') as [->|]; [reflexivity|]. rewrite IH. reflexivity.
  Qed.
  Lemma adel_eq {B} k (m : list (K * B)) : adel keqb k m = remove keqb k m.
  Proof. induction m as [|[k' b'] t IH]; simpl; auto. rewrite IH. reflexivity. Qed.
  Lemma amem_eq {B} k (m : list (K * B)) : amem keqb k m = has keqb k m.
  Proof. unfold amem, has. rewrite lookup_eq. reflexivity. Qed.

  (* no operation in flight: locks free, the current stack well-formed *)
  Definition stack_ok (st : stk) : Prop :=
    (forall e, In e (ents st) -> 1 <= fst e <= ctr st) /\ NoDup (map snd (ents st)).
  Definition Q (s : state) : Prop :=
    cpmw s = false /\ cpmr s = 0 /\ swm s = false
    /\ exists st ix, nth_error (stacks s) (fparts s) = Some st /\ nth_error (idxs s) (findex s) = Some ix /\ stack_ok st.

  Lemma Q_init : Q (@CacheConc.init K V).
  Proof.
    unfold Q, stack_ok; simpl. split; [reflexivity|]. split; [reflexivity|]. split; [reflexivity|].
    exists stk_empty, []. simpl. split; [reflexivity|]. split; [reflexivity|]. split; [intros x []|constructor].
  Qed.

  Definition at_pc (s : state) (n : nat) (o : op) (p : pc) : Prop := nth_error (threads s) n = Some (o, p).

  Lemma at_set_pc s n o p q : at_pc s n o p -> at_pc (set_pc s n o q) n o q.
  Proof. unfold at_pc. intros H. simpl. apply nth_error_upd_eq. eapply nth_error_lt; eauto. Qed.

  Lemma set_pc_twice (s : state) n o p q : set_pc (set_pc s n o p) n o q = set_pc s n o q.
  Proof. unfold set_pc. simpl. rewrite upd_upd. reflexivity. Qed.

  Lemma step_at s n o p : at_pc s n o p -> step c s (LStep n) = step_thread keqb zero c s n o p.
  Proof. unfold at_pc. intros H. simpl. rewrite H. reflexivity. Qed.

  Lemma run_solo_S s n m : run c s (solo n (S m)) = match step c s (LStep n) with Some s1 => run c s1 (solo n m) | None => None end.
  Proof. reflexivity. Qed.

  Lemma run_WF ls : forall s s', WF s -> run c s ls = Some s' -> WF s'.
  Proof. apply (run_inv keqb zero WF c (step_WF keqb zero c)). Qed.

  (* peeking in the abstraction = peeking in the stack and reading the partition *)
  Lemma peek_abs (pm : list (list (K * V))) id l :
    Cache.peek id (map (fun e => (fst e, nth (snd e) pm [])) l)
    = match peek_ents id l with Some p => Some (nth p pm []) | None => None end.
  Proof. induction l as [|[i p] t IH]; simpl; auto. destruct (i =? id); auto. Qed.

  (* writing a partition object = putting the new contents at its id (prefs are not shared) *)
  Lemma put_abs (pm : list (list (K * V))) id p m' l :
    NoDup (map snd l) -> peek_ents id l = Some p -> p < length pm ->
    map (fun e => (fst e, nth (snd e) (upd p m' pm) [])) l
    = Cache.put id m' (map (fun e => (fst e, nth (snd e) pm [])) l).
  Proof.
    induction l as [|[i q] t IH]; simpl; intros Hnd Hp Hlt; [discriminate|].
    inv Hnd. destruct (i =? id).
    - inv Hp. rewrite nth_upd_eq by auto. f_equal. apply map_ext_in. intros [i' q'] Hin. simpl.
      rewrite nth_upd_neq; auto. intros ->. apply H1. apply in_map_iff. exists (i', q'). auto.
    - rewrite nth_upd_neq.
      + f_equal. apply IH; auto.
      + intros ->. apply H1. apply peek_ents_In in Hp. apply in_map_iff. exists (id, q). auto.
  Qed.
End SeqProofs.
