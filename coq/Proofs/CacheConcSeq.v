(* Sequential projection: on a state with no operation in flight, spawning an operation of the concurrent model
   and letting its goroutine run alone to completion is exactly the corresponding step of the sequential cache
   model Model/Cache.v (after F1/F2), under the abstraction [absf]. *)
From Coq Require Import List Arith Bool Lia.
From TC.Lib Require Import Assoc ListAux.
From TC.Model Require Cache.
From TC.Model Require Import CacheConc CacheConcSeq.
From TC.Proofs Require Import CacheConcBase CacheConcSafe.
Import ListNotations.

Lemma upd_upd {A} i (x y : A) l : upd i x (upd i y l) = upd i x l.
Proof. revert i; induction l as [|z t IH]; intros [|i]; simpl; auto. f_equal; auto. Qed.

Section SeqProofs.
  Context {K V : Type}.
  Variable keqb : K -> K -> bool.
  Variable zero : V.
  Hypothesis keqb_spec : forall a b, reflect (a = b) (keqb a b).
  Variable c : config.
  Hypothesis Hre : recheck c = true.
  Hypothesis Hdel : delidx c = true.
  Notation state := (@CacheConc.state K V).
  Notation step := (@CacheConc.step K V keqb zero).
  Notation run := (@CacheConc.run K V keqb zero).
  Notation absf := (@absf K V).
  Notation WF := (@WF K V).

  (* the two association-list libraries agree *)
  Lemma lookup_eq {B} k (m : list (K * B)) : CacheConc.lookup keqb k m = Assoc.lookup keqb k m.
  Proof. induction m as [|[k' b] t IH]; simpl; auto. rewrite IH. reflexivity. Qed.
  Lemma aset_eq {B} k (b : B) m : aset keqb k b m = upsert keqb k b m.
  Proof.
    induction m as [|[k' b'] t IH]; simpl; auto.
    destruct (keqb_spec k k') as [->|]; [reflexivity|]. rewrite IH. reflexivity.
  Qed.
  Lemma adel_eq {B} k (m : list (K * B)) : adel keqb k m = remove keqb k m.
  Proof. induction m as [|[k' b'] t IH]; simpl; auto. rewrite IH. reflexivity. Qed.
  Lemma amem_eq {B} k (m : list (K * B)) : amem keqb k m = has keqb k m.
  Proof. unfold amem, has. rewrite lookup_eq. reflexivity. Qed.

  (* no operation in flight: locks free, the current stack well-formed *)
  Definition stack_ok (st : stk) : Prop :=
    (forall e, In e (ents st) -> 1 <= fst e <= ctr st) /\ NoDup (map snd (ents st)).
  Definition Q (s : state) : Prop :=
    cpmw s = false /\ cpmr s = 0 /\ swm s = false
    /\ exists st ix, nth_error (stacks s) (fparts s) = Some st /\ nth_error (idxs s) (findex s) = Some ix /\ stack_ok st.

  Lemma Q_init : Q (@CacheConc.init K V).
  Proof.
    unfold Q, stack_ok; simpl. split; [reflexivity|]. split; [reflexivity|]. split; [reflexivity|].
    exists stk_empty, []. simpl. split; [reflexivity|]. split; [reflexivity|]. split; [intros x []|constructor].
  Qed.

  Definition at_pc (s : state) (n : nat) (o : op) (p : pc) : Prop := nth_error (threads s) n = Some (o, p).

  Lemma at_set_pc s n o p q : at_pc s n o p -> at_pc (set_pc s n o q) n o q.
  Proof. unfold at_pc. intros H. simpl. apply nth_error_upd_eq. eapply nth_error_lt; eauto. Qed.

  Lemma set_pc_twice (s : state) n o p q : set_pc (set_pc s n o p) n o q = set_pc s n o q.
  Proof. unfold set_pc. simpl. rewrite upd_upd. reflexivity. Qed.

  Lemma step_at s n o p : at_pc s n o p -> step c s (LStep n) = step_thread keqb zero c s n o p.
  Proof. unfold at_pc. intros H. simpl. rewrite H. reflexivity. Qed.

  Lemma run_solo_S s n m : run c s (solo n (S m)) = match step c s (LStep n) with Some s1 => run c s1 (solo n m) | None => None end.
  Proof. reflexivity. Qed.

  Lemma run_WF ls : forall s s', WF s -> run c s ls = Some s' -> WF s'.
  Proof. apply (run_inv keqb zero WF c (step_WF keqb zero c)). Qed.

  (* peeking in the abstraction = peeking in the stack and reading the partition *)
  Lemma peek_abs (pm : list (list (K * V))) id l :
    Cache.peek id (map (fun e => (fst e, nth (snd e) pm [])) l)
    = match peek_ents id l with Some p => Some (nth p pm []) | None => None end.
  Proof. induction l as [|[i p] t IH]; simpl; auto. destruct (i =? id); auto. Qed.

  (* writing a partition object = putting the new contents at its id (prefs are not shared) *)
  Lemma put_abs (pm : list (list (K * V))) id p m' l :
    NoDup (map snd l) -> peek_ents id l = Some p -> p < length pm ->
    map (fun e => (fst e, nth (snd e) (upd p m' pm) [])) l
    = Cache.put id m' (map (fun e => (fst e, nth (snd e) pm [])) l).
  Proof.
    induction l as [|[i q] t IH]; simpl; intros Hnd Hp Hlt; [discriminate|].
    inv Hnd. destruct (i =? id).
    - inv Hp. rewrite nth_upd_eq by auto. f_equal. apply map_ext_in. intros [i' q'] Hin. simpl.
      rewrite nth_upd_neq; auto. intros ->. apply H1. apply in_map_iff. exists (i', q'). auto.
    - rewrite nth_upd_neq.
      + f_equal. apply IH; auto.
      + intros ->. apply H1. apply peek_ents_In in Hp. apply in_map_iff. exists (id, q). auto.
  Qed.
  Lemma peek_ents_zero l : (forall e, In e l -> 1 <= fst e) -> peek_ents 0 l = None.
  Proof.
    induction l as [|[i p] t IH]; simpl; intros H; auto.
    destruct (Nat.eqb_spec i 0) as [->|]; [specialize (H (0, p) (or_introl eq_refl)); simpl in H; lia|].
    apply IH. intros e He. apply H. auto.
  Qed.

  Lemma spawn_at (s : state) o : o <> OTicker ->
    exists s0, step c s (LSpawn o) = Some s0 /\ at_pc s0 (length (threads s)) o (start_pc o)
               /\ stacks s0 = stacks s /\ pmaps s0 = pmaps s /\ idxs s0 = idxs s /\ fparts s0 = fparts s
               /\ findex s0 = findex s /\ CacheConc.cur s0 = CacheConc.cur s /\ cpmw s0 = cpmw s /\ cpmr s0 = cpmr s
               /\ swm s0 = swm s.
  Proof.
    intros Ho. destruct o; try congruence; simpl; eexists; (split; [reflexivity|]); unfold at_pc; simpl;
      rewrite nth_error_app_new; repeat split; reflexivity.
  Qed.

  (* states that differ only in threads / ghost log / tick have the same abstraction and the same Q *)
  Definition same_data (s s1 : state) : Prop :=
    stacks s1 = stacks s /\ pmaps s1 = pmaps s /\ idxs s1 = idxs s /\ fparts s1 = fparts s
    /\ findex s1 = findex s /\ CacheConc.cur s1 = CacheConc.cur s /\ cpmw s1 = cpmw s /\ cpmr s1 = cpmr s
    /\ swm s1 = swm s.
  Lemma same_data_abs s s1 : same_data s s1 -> absf c s1 = absf c s.
  Proof. intros (E1 & E2 & E3 & E4 & E5 & E6 & _). unfold absf. rewrite E1, E2, E3, E4, E5, E6. reflexivity. Qed.
  Lemma same_data_Q s s1 : same_data s s1 -> Q s -> Q s1.
  Proof. intros (E1 & E2 & E3 & E4 & E5 & E6 & E7 & E8 & E9). unfold Q. rewrite E1, E3, E4, E5, E7, E8, E9. auto. Qed.
  Lemma same_data_set_pc s s1 n o p : same_data s s1 -> same_data s (set_pc s1 n o p).
  Proof. unfold same_data. simpl. auto. Qed.

  Lemma spc_stacks (s : state) n o p : stacks (set_pc s n o p) = stacks s. Proof. reflexivity. Qed.
  Lemma spc_pmaps (s : state) n o p : pmaps (set_pc s n o p) = pmaps s. Proof. reflexivity. Qed.
  Lemma spc_idxs (s : state) n o p : idxs (set_pc s n o p) = idxs s. Proof. reflexivity. Qed.
  Lemma spc_fparts (s : state) n o p : fparts (set_pc s n o p) = fparts s. Proof. reflexivity. Qed.
  Lemma spc_findex (s : state) n o p : findex (set_pc s n o p) = findex s. Proof. reflexivity. Qed.
  Lemma spc_cur (s : state) n o p : CacheConc.cur (set_pc s n o p) = CacheConc.cur s. Proof. reflexivity. Qed.
  Lemma spc_cpmw (s : state) n o p : cpmw (set_pc s n o p) = cpmw s. Proof. reflexivity. Qed.
  Lemma spc_cpmr (s : state) n o p : cpmr (set_pc s n o p) = cpmr s. Proof. reflexivity. Qed.
  Lemma spc_swm (s : state) n o p : swm (set_pc s n o p) = swm s. Proof. reflexivity. Qed.
  Lemma spc_tick (s : state) n o p : tick (set_pc s n o p) = tick s. Proof. reflexivity. Qed.
  Lemma spc_cancelled (s : state) n o p : cancelled (set_pc s n o p) = cancelled s. Proof. reflexivity. Qed.
  Lemma spc_setlog (s : state) n o p : setlog (set_pc s n o p) = setlog s. Proof. reflexivity. Qed.
  Lemma spc_panicked (s : state) n o p : panicked (set_pc s n o p) = panicked s. Proof. reflexivity. Qed.
  Hint Rewrite spc_stacks spc_pmaps spc_idxs spc_fparts spc_findex spc_cur spc_cpmw spc_cpmr spc_swm spc_tick spc_cancelled spc_setlog spc_panicked : spc.

  Lemma prj_stacks_stacks (s : state) x : stacks (set_stacks s x) = x. Proof. reflexivity. Qed.
  Lemma prj_stacks_pmaps (s : state) x : stacks (set_pmaps s x) = stacks s. Proof. reflexivity. Qed.
  Lemma prj_stacks_idxs (s : state) x : stacks (set_idxs s x) = stacks s. Proof. reflexivity. Qed.
  Lemma prj_stacks_fparts (s : state) x : stacks (set_fparts s x) = stacks s. Proof. reflexivity. Qed.
  Lemma prj_stacks_findex (s : state) x : stacks (set_findex s x) = stacks s. Proof. reflexivity. Qed.
  Lemma prj_stacks_cur (s : state) x : stacks (set_cur s x) = stacks s. Proof. reflexivity. Qed.
  Lemma prj_stacks_cpmw (s : state) x : stacks (set_cpmw s x) = stacks s. Proof. reflexivity. Qed.
  Lemma prj_stacks_cpmr (s : state) x : stacks (set_cpmr s x) = stacks s. Proof. reflexivity. Qed.
  Lemma prj_stacks_swm (s : state) x : stacks (set_swm s x) = stacks s. Proof. reflexivity. Qed.
  Lemma prj_stacks_tick (s : state) x : stacks (set_tick s x) = stacks s. Proof. reflexivity. Qed.
  Lemma prj_stacks_cancelled (s : state) x : stacks (set_cancelled s x) = stacks s. Proof. reflexivity. Qed.
  Lemma prj_stacks_threads (s : state) x : stacks (set_threads s x) = stacks s. Proof. reflexivity. Qed.
  Lemma prj_stacks_setlog (s : state) x : stacks (set_setlog s x) = stacks s. Proof. reflexivity. Qed.
  Lemma prj_stacks_panicked (s : state) x : stacks (set_panicked s x) = stacks s. Proof. reflexivity. Qed.
  Lemma prj_pmaps_stacks (s : state) x : pmaps (set_stacks s x) = pmaps s. Proof. reflexivity. Qed.
  Lemma prj_pmaps_pmaps (s : state) x : pmaps (set_pmaps s x) = x. Proof. reflexivity. Qed.
  Lemma prj_pmaps_idxs (s : state) x : pmaps (set_idxs s x) = pmaps s. Proof. reflexivity. Qed.
  Lemma prj_pmaps_fparts (s : state) x : pmaps (set_fparts s x) = pmaps s. Proof. reflexivity. Qed.
  Lemma prj_pmaps_findex (s : state) x : pmaps (set_findex s x) = pmaps s. Proof. reflexivity. Qed.
  Lemma prj_pmaps_cur (s : state) x : pmaps (set_cur s x) = pmaps s. Proof. reflexivity. Qed.
  Lemma prj_pmaps_cpmw (s : state) x : pmaps (set_cpmw s x) = pmaps s. Proof. reflexivity. Qed.
  Lemma prj_pmaps_cpmr (s : state) x : pmaps (set_cpmr s x) = pmaps s. Proof. reflexivity. Qed.
  Lemma prj_pmaps_swm (s : state) x : pmaps (set_swm s x) = pmaps s. Proof. reflexivity. Qed.
  Lemma prj_pmaps_tick (s : state) x : pmaps (set_tick s x) = pmaps s. Proof. reflexivity. Qed.
  Lemma prj_pmaps_cancelled (s : state) x : pmaps (set_cancelled s x) = pmaps s. Proof. reflexivity. Qed.
  Lemma prj_pmaps_threads (s : state) x : pmaps (set_threads s x) = pmaps s. Proof. reflexivity. Qed.
  Lemma prj_pmaps_setlog (s : state) x : pmaps (set_setlog s x) = pmaps s. Proof. reflexivity. Qed.
  Lemma prj_pmaps_panicked (s : state) x : pmaps (set_panicked s x) = pmaps s. Proof. reflexivity. Qed.
  Lemma prj_idxs_stacks (s : state) x : idxs (set_stacks s x) = idxs s. Proof. reflexivity. Qed.
  Lemma prj_idxs_pmaps (s : state) x : idxs (set_pmaps s x) = idxs s. Proof. reflexivity. Qed.
  Lemma prj_idxs_idxs (s : state) x : idxs (set_idxs s x) = x. Proof. reflexivity. Qed.
  Lemma prj_idxs_fparts (s : state) x : idxs (set_fparts s x) = idxs s. Proof. reflexivity. Qed.
  Lemma prj_idxs_findex (s : state) x : idxs (set_findex s x) = idxs s. Proof. reflexivity. Qed.
  Lemma prj_idxs_cur (s : state) x : idxs (set_cur s x) = idxs s. Proof. reflexivity. Qed.
  Lemma prj_idxs_cpmw (s : state) x : idxs (set_cpmw s x) = idxs s. Proof. reflexivity. Qed.
  Lemma prj_idxs_cpmr (s : state) x : idxs (set_cpmr s x) = idxs s. Proof. reflexivity. Qed.
  Lemma prj_idxs_swm (s : state) x : idxs (set_swm s x) = idxs s. Proof. reflexivity. Qed.
  Lemma prj_idxs_tick (s : state) x : idxs (set_tick s x) = idxs s. Proof. reflexivity. Qed.
  Lemma prj_idxs_cancelled (s : state) x : idxs (set_cancelled s x) = idxs s. Proof. reflexivity. Qed.
  Lemma prj_idxs_threads (s : state) x : idxs (set_threads s x) = idxs s. Proof. reflexivity. Qed.
  Lemma prj_idxs_setlog (s : state) x : idxs (set_setlog s x) = idxs s. Proof. reflexivity. Qed.
  Lemma prj_idxs_panicked (s : state) x : idxs (set_panicked s x) = idxs s. Proof. reflexivity. Qed.
  Lemma prj_fparts_stacks (s : state) x : fparts (set_stacks s x) = fparts s. Proof. reflexivity. Qed.
  Lemma prj_fparts_pmaps (s : state) x : fparts (set_pmaps s x) = fparts s. Proof. reflexivity. Qed.
  Lemma prj_fparts_idxs (s : state) x : fparts (set_idxs s x) = fparts s. Proof. reflexivity. Qed.
  Lemma prj_fparts_fparts (s : state) x : fparts (set_fparts s x) = x. Proof. reflexivity. Qed.
  Lemma prj_fparts_findex (s : state) x : fparts (set_findex s x) = fparts s. Proof. reflexivity. Qed.
  Lemma prj_fparts_cur (s : state) x : fparts (set_cur s x) = fparts s. Proof. reflexivity. Qed.
  Lemma prj_fparts_cpmw (s : state) x : fparts (set_cpmw s x) = fparts s. Proof. reflexivity. Qed.
  Lemma prj_fparts_cpmr (s : state) x : fparts (set_cpmr s x) = fparts s. Proof. reflexivity. Qed.
  Lemma prj_fparts_swm (s : state) x : fparts (set_swm s x) = fparts s. Proof. reflexivity. Qed.
  Lemma prj_fparts_tick (s : state) x : fparts (set_tick s x) = fparts s. Proof. reflexivity. Qed.
  Lemma prj_fparts_cancelled (s : state) x : fparts (set_cancelled s x) = fparts s. Proof. reflexivity. Qed.
  Lemma prj_fparts_threads (s : state) x : fparts (set_threads s x) = fparts s. Proof. reflexivity. Qed.
  Lemma prj_fparts_setlog (s : state) x : fparts (set_setlog s x) = fparts s. Proof. reflexivity. Qed.
  Lemma prj_fparts_panicked (s : state) x : fparts (set_panicked s x) = fparts s. Proof. reflexivity. Qed.
  Lemma prj_findex_stacks (s : state) x : findex (set_stacks s x) = findex s. Proof. reflexivity. Qed.
  Lemma prj_findex_pmaps (s : state) x : findex (set_pmaps s x) = findex s. Proof. reflexivity. Qed.
  Lemma prj_findex_idxs (s : state) x : findex (set_idxs s x) = findex s. Proof. reflexivity. Qed.
  Lemma prj_findex_fparts (s : state) x : findex (set_fparts s x) = findex s. Proof. reflexivity. Qed.
  Lemma prj_findex_findex (s : state) x : findex (set_findex s x) = x. Proof. reflexivity. Qed.
  Lemma prj_findex_cur (s : state) x : findex (set_cur s x) = findex s. Proof. reflexivity. Qed.
  Lemma prj_findex_cpmw (s : state) x : findex (set_cpmw s x) = findex s. Proof. reflexivity. Qed.
  Lemma prj_findex_cpmr (s : state) x : findex (set_cpmr s x) = findex s. Proof. reflexivity. Qed.
  Lemma prj_findex_swm (s : state) x : findex (set_swm s x) = findex s. Proof. reflexivity. Qed.
  Lemma prj_findex_tick (s : state) x : findex (set_tick s x) = findex s. Proof. reflexivity. Qed.
  Lemma prj_findex_cancelled (s : state) x : findex (set_cancelled s x) = findex s. Proof. reflexivity. Qed.
  Lemma prj_findex_threads (s : state) x : findex (set_threads s x) = findex s. Proof. reflexivity. Qed.
  Lemma prj_findex_setlog (s : state) x : findex (set_setlog s x) = findex s. Proof. reflexivity. Qed.
  Lemma prj_findex_panicked (s : state) x : findex (set_panicked s x) = findex s. Proof. reflexivity. Qed.
  Lemma prj_cur_stacks (s : state) x : CacheConc.cur (set_stacks s x) = CacheConc.cur s. Proof. reflexivity. Qed.
  Lemma prj_cur_pmaps (s : state) x : CacheConc.cur (set_pmaps s x) = CacheConc.cur s. Proof. reflexivity. Qed.
  Lemma prj_cur_idxs (s : state) x : CacheConc.cur (set_idxs s x) = CacheConc.cur s. Proof. reflexivity. Qed.
  Lemma prj_cur_fparts (s : state) x : CacheConc.cur (set_fparts s x) = CacheConc.cur s. Proof. reflexivity. Qed.
  Lemma prj_cur_findex (s : state) x : CacheConc.cur (set_findex s x) = CacheConc.cur s. Proof. reflexivity. Qed.
  Lemma prj_cur_cur (s : state) x : CacheConc.cur (set_cur s x) = x. Proof. reflexivity. Qed.
  Lemma prj_cur_cpmw (s : state) x : CacheConc.cur (set_cpmw s x) = CacheConc.cur s. Proof. reflexivity. Qed.
  Lemma prj_cur_cpmr (s : state) x : CacheConc.cur (set_cpmr s x) = CacheConc.cur s. Proof. reflexivity. Qed.
  Lemma prj_cur_swm (s : state) x : CacheConc.cur (set_swm s x) = CacheConc.cur s. Proof. reflexivity. Qed.
  Lemma prj_cur_tick (s : state) x : CacheConc.cur (set_tick s x) = CacheConc.cur s. Proof. reflexivity. Qed.
  Lemma prj_cur_cancelled (s : state) x : CacheConc.cur (set_cancelled s x) = CacheConc.cur s. Proof. reflexivity. Qed.
  Lemma prj_cur_threads (s : state) x : CacheConc.cur (set_threads s x) = CacheConc.cur s. Proof. reflexivity. Qed.
  Lemma prj_cur_setlog (s : state) x : CacheConc.cur (set_setlog s x) = CacheConc.cur s. Proof. reflexivity. Qed.
  Lemma prj_cur_panicked (s : state) x : CacheConc.cur (set_panicked s x) = CacheConc.cur s. Proof. reflexivity. Qed.
  Lemma prj_cpmw_stacks (s : state) x : cpmw (set_stacks s x) = cpmw s. Proof. reflexivity. Qed.
  Lemma prj_cpmw_pmaps (s : state) x : cpmw (set_pmaps s x) = cpmw s. Proof. reflexivity. Qed.
  Lemma prj_cpmw_idxs (s : state) x : cpmw (set_idxs s x) = cpmw s. Proof. reflexivity. Qed.
  Lemma prj_cpmw_fparts (s : state) x : cpmw (set_fparts s x) = cpmw s. Proof. reflexivity. Qed.
  Lemma prj_cpmw_findex (s : state) x : cpmw (set_findex s x) = cpmw s. Proof. reflexivity. Qed.
  Lemma prj_cpmw_cur (s : state) x : cpmw (set_cur s x) = cpmw s. Proof. reflexivity. Qed.
  Lemma prj_cpmw_cpmw (s : state) x : cpmw (set_cpmw s x) = x. Proof. reflexivity. Qed.
  Lemma prj_cpmw_cpmr (s : state) x : cpmw (set_cpmr s x) = cpmw s. Proof. reflexivity. Qed.
  Lemma prj_cpmw_swm (s : state) x : cpmw (set_swm s x) = cpmw s. Proof. reflexivity. Qed.
  Lemma prj_cpmw_tick (s : state) x : cpmw (set_tick s x) = cpmw s. Proof. reflexivity. Qed.
  Lemma prj_cpmw_cancelled (s : state) x : cpmw (set_cancelled s x) = cpmw s. Proof. reflexivity. Qed.
  Lemma prj_cpmw_threads (s : state) x : cpmw (set_threads s x) = cpmw s. Proof. reflexivity. Qed.
  Lemma prj_cpmw_setlog (s : state) x : cpmw (set_setlog s x) = cpmw s. Proof. reflexivity. Qed.
  Lemma prj_cpmw_panicked (s : state) x : cpmw (set_panicked s x) = cpmw s. Proof. reflexivity. Qed.
  Lemma prj_cpmr_stacks (s : state) x : cpmr (set_stacks s x) = cpmr s. Proof. reflexivity. Qed.
  Lemma prj_cpmr_pmaps (s : state) x : cpmr (set_pmaps s x) = cpmr s. Proof. reflexivity. Qed.
  Lemma prj_cpmr_idxs (s : state) x : cpmr (set_idxs s x) = cpmr s. Proof. reflexivity. Qed.
  Lemma prj_cpmr_fparts (s : state) x : cpmr (set_fparts s x) = cpmr s. Proof. reflexivity. Qed.
  Lemma prj_cpmr_findex (s : state) x : cpmr (set_findex s x) = cpmr s. Proof. reflexivity. Qed.
  Lemma prj_cpmr_cur (s : state) x : cpmr (set_cur s x) = cpmr s. Proof. reflexivity. Qed.
  Lemma prj_cpmr_cpmw (s : state) x : cpmr (set_cpmw s x) = cpmr s. Proof. reflexivity. Qed.
  Lemma prj_cpmr_cpmr (s : state) x : cpmr (set_cpmr s x) = x. Proof. reflexivity. Qed.
  Lemma prj_cpmr_swm (s : state) x : cpmr (set_swm s x) = cpmr s. Proof. reflexivity. Qed.
  Lemma prj_cpmr_tick (s : state) x : cpmr (set_tick s x) = cpmr s. Proof. reflexivity. Qed.
  Lemma prj_cpmr_cancelled (s : state) x : cpmr (set_cancelled s x) = cpmr s. Proof. reflexivity. Qed.
  Lemma prj_cpmr_threads (s : state) x : cpmr (set_threads s x) = cpmr s. Proof. reflexivity. Qed.
  Lemma prj_cpmr_setlog (s : state) x : cpmr (set_setlog s x) = cpmr s. Proof. reflexivity. Qed.
  Lemma prj_cpmr_panicked (s : state) x : cpmr (set_panicked s x) = cpmr s. Proof. reflexivity. Qed.
  Lemma prj_swm_stacks (s : state) x : swm (set_stacks s x) = swm s. Proof. reflexivity. Qed.
  Lemma prj_swm_pmaps (s : state) x : swm (set_pmaps s x) = swm s. Proof. reflexivity. Qed.
  Lemma prj_swm_idxs (s : state) x : swm (set_idxs s x) = swm s. Proof. reflexivity. Qed.
  Lemma prj_swm_fparts (s : state) x : swm (set_fparts s x) = swm s. Proof. reflexivity. Qed.
  Lemma prj_swm_findex (s : state) x : swm (set_findex s x) = swm s. Proof. reflexivity. Qed.
  Lemma prj_swm_cur (s : state) x : swm (set_cur s x) = swm s. Proof. reflexivity. Qed.
  Lemma prj_swm_cpmw (s : state) x : swm (set_cpmw s x) = swm s. Proof. reflexivity. Qed.
  Lemma prj_swm_cpmr (s : state) x : swm (set_cpmr s x) = swm s. Proof. reflexivity. Qed.
  Lemma prj_swm_swm (s : state) x : swm (set_swm s x) = x. Proof. reflexivity. Qed.
  Lemma prj_swm_tick (s : state) x : swm (set_tick s x) = swm s. Proof. reflexivity. Qed.
  Lemma prj_swm_cancelled (s : state) x : swm (set_cancelled s x) = swm s. Proof. reflexivity. Qed.
  Lemma prj_swm_threads (s : state) x : swm (set_threads s x) = swm s. Proof. reflexivity. Qed.
  Lemma prj_swm_setlog (s : state) x : swm (set_setlog s x) = swm s. Proof. reflexivity. Qed.
  Lemma prj_swm_panicked (s : state) x : swm (set_panicked s x) = swm s. Proof. reflexivity. Qed.
  Lemma prj_tick_stacks (s : state) x : tick (set_stacks s x) = tick s. Proof. reflexivity. Qed.
  Lemma prj_tick_pmaps (s : state) x : tick (set_pmaps s x) = tick s. Proof. reflexivity. Qed.
  Lemma prj_tick_idxs (s : state) x : tick (set_idxs s x) = tick s. Proof. reflexivity. Qed.
  Lemma prj_tick_fparts (s : state) x : tick (set_fparts s x) = tick s. Proof. reflexivity. Qed.
  Lemma prj_tick_findex (s : state) x : tick (set_findex s x) = tick s. Proof. reflexivity. Qed.
  Lemma prj_tick_cur (s : state) x : tick (set_cur s x) = tick s. Proof. reflexivity. Qed.
  Lemma prj_tick_cpmw (s : state) x : tick (set_cpmw s x) = tick s. Proof. reflexivity. Qed.
  Lemma prj_tick_cpmr (s : state) x : tick (set_cpmr s x) = tick s. Proof. reflexivity. Qed.
  Lemma prj_tick_swm (s : state) x : tick (set_swm s x) = tick s. Proof. reflexivity. Qed.
  Lemma prj_tick_tick (s : state) x : tick (set_tick s x) = x. Proof. reflexivity. Qed.
  Lemma prj_tick_cancelled (s : state) x : tick (set_cancelled s x) = tick s. Proof. reflexivity. Qed.
  Lemma prj_tick_threads (s : state) x : tick (set_threads s x) = tick s. Proof. reflexivity. Qed.
  Lemma prj_tick_setlog (s : state) x : tick (set_setlog s x) = tick s. Proof. reflexivity. Qed.
  Lemma prj_tick_panicked (s : state) x : tick (set_panicked s x) = tick s. Proof. reflexivity. Qed.
  Lemma prj_cancelled_stacks (s : state) x : cancelled (set_stacks s x) = cancelled s. Proof. reflexivity. Qed.
  Lemma prj_cancelled_pmaps (s : state) x : cancelled (set_pmaps s x) = cancelled s. Proof. reflexivity. Qed.
  Lemma prj_cancelled_idxs (s : state) x : cancelled (set_idxs s x) = cancelled s. Proof. reflexivity. Qed.
  Lemma prj_cancelled_fparts (s : state) x : cancelled (set_fparts s x) = cancelled s. Proof. reflexivity. Qed.
  Lemma prj_cancelled_findex (s : state) x : cancelled (set_findex s x) = cancelled s. Proof. reflexivity. Qed.
  Lemma prj_cancelled_cur (s : state) x : cancelled (set_cur s x) = cancelled s. Proof. reflexivity. Qed.
  Lemma prj_cancelled_cpmw (s : state) x : cancelled (set_cpmw s x) = cancelled s. Proof. reflexivity. Qed.
  Lemma prj_cancelled_cpmr (s : state) x : cancelled (set_cpmr s x) = cancelled s. Proof. reflexivity. Qed.
  Lemma prj_cancelled_swm (s : state) x : cancelled (set_swm s x) = cancelled s. Proof. reflexivity. Qed.
  Lemma prj_cancelled_tick (s : state) x : cancelled (set_tick s x) = cancelled s. Proof. reflexivity. Qed.
  Lemma prj_cancelled_cancelled (s : state) x : cancelled (set_cancelled s x) = x. Proof. reflexivity. Qed.
  Lemma prj_cancelled_threads (s : state) x : cancelled (set_threads s x) = cancelled s. Proof. reflexivity. Qed.
  Lemma prj_cancelled_setlog (s : state) x : cancelled (set_setlog s x) = cancelled s. Proof. reflexivity. Qed.
  Lemma prj_cancelled_panicked (s : state) x : cancelled (set_panicked s x) = cancelled s. Proof. reflexivity. Qed.
  Lemma prj_threads_stacks (s : state) x : threads (set_stacks s x) = threads s. Proof. reflexivity. Qed.
  Lemma prj_threads_pmaps (s : state) x : threads (set_pmaps s x) = threads s. Proof. reflexivity. Qed.
  Lemma prj_threads_idxs (s : state) x : threads (set_idxs s x) = threads s. Proof. reflexivity. Qed.
  Lemma prj_threads_fparts (s : state) x : threads (set_fparts s x) = threads s. Proof. reflexivity. Qed.
  Lemma prj_threads_findex (s : state) x : threads (set_findex s x) = threads s. Proof. reflexivity. Qed.
  Lemma prj_threads_cur (s : state) x : threads (set_cur s x) = threads s. Proof. reflexivity. Qed.
  Lemma prj_threads_cpmw (s : state) x : threads (set_cpmw s x) = threads s. Proof. reflexivity. Qed.
  Lemma prj_threads_cpmr (s : state) x : threads (set_cpmr s x) = threads s. Proof. reflexivity. Qed.
  Lemma prj_threads_swm (s : state) x : threads (set_swm s x) = threads s. Proof. reflexivity. Qed.
  Lemma prj_threads_tick (s : state) x : threads (set_tick s x) = threads s. Proof. reflexivity. Qed.
  Lemma prj_threads_cancelled (s : state) x : threads (set_cancelled s x) = threads s. Proof. reflexivity. Qed.
  Lemma prj_threads_threads (s : state) x : threads (set_threads s x) = x. Proof. reflexivity. Qed.
  Lemma prj_threads_setlog (s : state) x : threads (set_setlog s x) = threads s. Proof. reflexivity. Qed.
  Lemma prj_threads_panicked (s : state) x : threads (set_panicked s x) = threads s. Proof. reflexivity. Qed.
  Lemma prj_setlog_stacks (s : state) x : setlog (set_stacks s x) = setlog s. Proof. reflexivity. Qed.
  Lemma prj_setlog_pmaps (s : state) x : setlog (set_pmaps s x) = setlog s. Proof. reflexivity. Qed.
  Lemma prj_setlog_idxs (s : state) x : setlog (set_idxs s x) = setlog s. Proof. reflexivity. Qed.
  Lemma prj_setlog_fparts (s : state) x : setlog (set_fparts s x) = setlog s. Proof. reflexivity. Qed.
  Lemma prj_setlog_findex (s : state) x : setlog (set_findex s x) = setlog s. Proof. reflexivity. Qed.
  Lemma prj_setlog_cur (s : state) x : setlog (set_cur s x) = setlog s. Proof. reflexivity. Qed.
  Lemma prj_setlog_cpmw (s : state) x : setlog (set_cpmw s x) = setlog s. Proof. reflexivity. Qed.
  Lemma prj_setlog_cpmr (s : state) x : setlog (set_cpmr s x) = setlog s. Proof. reflexivity. Qed.
  Lemma prj_setlog_swm (s : state) x : setlog (set_swm s x) = setlog s. Proof. reflexivity. Qed.
  Lemma prj_setlog_tick (s : state) x : setlog (set_tick s x) = setlog s. Proof. reflexivity. Qed.
  Lemma prj_setlog_cancelled (s : state) x : setlog (set_cancelled s x) = setlog s. Proof. reflexivity. Qed.
  Lemma prj_setlog_threads (s : state) x : setlog (set_threads s x) = setlog s. Proof. reflexivity. Qed.
  Lemma prj_setlog_setlog (s : state) x : setlog (set_setlog s x) = x. Proof. reflexivity. Qed.
  Lemma prj_setlog_panicked (s : state) x : setlog (set_panicked s x) = setlog s. Proof. reflexivity. Qed.
  Lemma prj_panicked_stacks (s : state) x : panicked (set_stacks s x) = panicked s. Proof. reflexivity. Qed.
  Lemma prj_panicked_pmaps (s : state) x : panicked (set_pmaps s x) = panicked s. Proof. reflexivity. Qed.
  Lemma prj_panicked_idxs (s : state) x : panicked (set_idxs s x) = panicked s. Proof. reflexivity. Qed.
  Lemma prj_panicked_fparts (s : state) x : panicked (set_fparts s x) = panicked s. Proof. reflexivity. Qed.
  Lemma prj_panicked_findex (s : state) x : panicked (set_findex s x) = panicked s. Proof. reflexivity. Qed.
  Lemma prj_panicked_cur (s : state) x : panicked (set_cur s x) = panicked s. Proof. reflexivity. Qed.
  Lemma prj_panicked_cpmw (s : state) x : panicked (set_cpmw s x) = panicked s. Proof. reflexivity. Qed.
  Lemma prj_panicked_cpmr (s : state) x : panicked (set_cpmr s x) = panicked s. Proof. reflexivity. Qed.
  Lemma prj_panicked_swm (s : state) x : panicked (set_swm s x) = panicked s. Proof. reflexivity. Qed.
  Lemma prj_panicked_tick (s : state) x : panicked (set_tick s x) = panicked s. Proof. reflexivity. Qed.
  Lemma prj_panicked_cancelled (s : state) x : panicked (set_cancelled s x) = panicked s. Proof. reflexivity. Qed.
  Lemma prj_panicked_threads (s : state) x : panicked (set_threads s x) = panicked s. Proof. reflexivity. Qed.
  Lemma prj_panicked_setlog (s : state) x : panicked (set_setlog s x) = panicked s. Proof. reflexivity. Qed.
  Lemma prj_panicked_panicked (s : state) x : panicked (set_panicked s x) = x. Proof. reflexivity. Qed.
  Hint Rewrite prj_stacks_stacks prj_stacks_pmaps prj_stacks_idxs prj_stacks_fparts prj_stacks_findex prj_stacks_cur prj_stacks_cpmw prj_stacks_cpmr prj_stacks_swm prj_stacks_tick prj_stacks_cancelled prj_stacks_threads prj_stacks_setlog prj_stacks_panicked prj_pmaps_stacks prj_pmaps_pmaps prj_pmaps_idxs prj_pmaps_fparts prj_pmaps_findex prj_pmaps_cur prj_pmaps_cpmw prj_pmaps_cpmr prj_pmaps_swm prj_pmaps_tick prj_pmaps_cancelled prj_pmaps_threads prj_pmaps_setlog prj_pmaps_panicked prj_idxs_stacks prj_idxs_pmaps prj_idxs_idxs prj_idxs_fparts prj_idxs_findex prj_idxs_cur prj_idxs_cpmw prj_idxs_cpmr prj_idxs_swm prj_idxs_tick prj_idxs_cancelled prj_idxs_threads prj_idxs_setlog prj_idxs_panicked prj_fparts_stacks prj_fparts_pmaps prj_fparts_idxs prj_fparts_fparts prj_fparts_findex prj_fparts_cur prj_fparts_cpmw prj_fparts_cpmr prj_fparts_swm prj_fparts_tick prj_fparts_cancelled prj_fparts_threads prj_fparts_setlog prj_fparts_panicked prj_findex_stacks prj_findex_pmaps prj_findex_idxs prj_findex_fparts prj_findex_findex prj_findex_cur prj_findex_cpmw prj_findex_cpmr prj_findex_swm prj_findex_tick prj_findex_cancelled prj_findex_threads prj_findex_setlog prj_findex_panicked prj_cur_stacks prj_cur_pmaps prj_cur_idxs prj_cur_fparts prj_cur_findex prj_cur_cur prj_cur_cpmw prj_cur_cpmr prj_cur_swm prj_cur_tick prj_cur_cancelled prj_cur_threads prj_cur_setlog prj_cur_panicked prj_cpmw_stacks prj_cpmw_pmaps prj_cpmw_idxs prj_cpmw_fparts prj_cpmw_findex prj_cpmw_cur prj_cpmw_cpmw prj_cpmw_cpmr prj_cpmw_swm prj_cpmw_tick prj_cpmw_cancelled prj_cpmw_threads prj_cpmw_setlog prj_cpmw_panicked prj_cpmr_stacks prj_cpmr_pmaps prj_cpmr_idxs prj_cpmr_fparts prj_cpmr_findex prj_cpmr_cur prj_cpmr_cpmw prj_cpmr_cpmr prj_cpmr_swm prj_cpmr_tick prj_cpmr_cancelled prj_cpmr_threads prj_cpmr_setlog prj_cpmr_panicked prj_swm_stacks prj_swm_pmaps prj_swm_idxs prj_swm_fparts prj_swm_findex prj_swm_cur prj_swm_cpmw prj_swm_cpmr prj_swm_swm prj_swm_tick prj_swm_cancelled prj_swm_threads prj_swm_setlog prj_swm_panicked prj_tick_stacks prj_tick_pmaps prj_tick_idxs prj_tick_fparts prj_tick_findex prj_tick_cur prj_tick_cpmw prj_tick_cpmr prj_tick_swm prj_tick_tick prj_tick_cancelled prj_tick_threads prj_tick_setlog prj_tick_panicked prj_cancelled_stacks prj_cancelled_pmaps prj_cancelled_idxs prj_cancelled_fparts prj_cancelled_findex prj_cancelled_cur prj_cancelled_cpmw prj_cancelled_cpmr prj_cancelled_swm prj_cancelled_tick prj_cancelled_cancelled prj_cancelled_threads prj_cancelled_setlog prj_cancelled_panicked prj_threads_stacks prj_threads_pmaps prj_threads_idxs prj_threads_fparts prj_threads_findex prj_threads_cur prj_threads_cpmw prj_threads_cpmr prj_threads_swm prj_threads_tick prj_threads_cancelled prj_threads_threads prj_threads_setlog prj_threads_panicked prj_setlog_stacks prj_setlog_pmaps prj_setlog_idxs prj_setlog_fparts prj_setlog_findex prj_setlog_cur prj_setlog_cpmw prj_setlog_cpmr prj_setlog_swm prj_setlog_tick prj_setlog_cancelled prj_setlog_threads prj_setlog_setlog prj_setlog_panicked prj_panicked_stacks prj_panicked_pmaps prj_panicked_idxs prj_panicked_fparts prj_panicked_findex prj_panicked_cur prj_panicked_cpmw prj_panicked_cpmr prj_panicked_swm prj_panicked_tick prj_panicked_cancelled prj_panicked_threads prj_panicked_setlog prj_panicked_panicked : spc.

  Ltac one_step Hat := rewrite run_solo_S, (step_at _ _ _ _ Hat); cbn [step_thread okey miss hit]; autorewrite with spc.

  (* the common prefix of Get/Contains/Delete/Set: index lookup, read of f.partitions, Peek *)
  Definition found (s : state) (k : K) : option (nat * nat) :=
    match nth_error (idxs s) (findex s), nth_error (stacks s) (fparts s) with
    | Some ix, Some st => match CacheConc.lookup keqb k ix with
                          | Some (S id') => match stk_peek (S id') st with Some p => Some (S id', p) | None => None end
                          | _ => None
                          end
    | _, _ => None
    end.

  Lemma lookup_phase s n o k :
    Q s -> at_pc s n o PIdx -> okey o = Some k ->
    exists m, run c s (solo n m) = Some (set_pc s n o (match found s k with Some ip => hit o (snd ip) | None => miss zero o end)).
  Proof.
    intros (_ & _ & _ & st & ix & Es & Ei & _) Hat Hk. unfold found. rewrite Ei, Es.
    destruct (CacheConc.lookup keqb k ix) as [[|id']|] eqn:El.
    - exists 1. one_step Hat. rewrite Hk, Ei, El. reflexivity.
    - destruct (stk_peek (S id') st) as [p|] eqn:Ep.
      + exists 3. one_step Hat. rewrite Hk, Ei, El.
        pose proof (at_set_pc _ _ _ _ (PRdParts (S id')) Hat) as Hat1.
        one_step Hat1.
        pose proof (at_set_pc _ _ _ _ (PPeek (S id') (fparts s)) Hat1) as Hat2.
        one_step Hat2. cbn. rewrite Es, Ep. rewrite !set_pc_twice. reflexivity.
      + exists 3. one_step Hat. rewrite Hk, Ei, El.
        pose proof (at_set_pc _ _ _ _ (PRdParts (S id')) Hat) as Hat1.
        one_step Hat1.
        pose proof (at_set_pc _ _ _ _ (PPeek (S id') (fparts s)) Hat1) as Hat2.
        one_step Hat2. cbn. rewrite Es, Ep. rewrite !set_pc_twice. reflexivity.
    - exists 1. one_step Hat. rewrite Hk, Ei, El. reflexivity.
  Qed.

  (* ... and what it finds is what the sequential model finds *)
  Definition sfound (A : @Cache.state K V) (k : K) : option (list (K * V)) :=
    match Assoc.lookup keqb k (Cache.index A) with
    | Some id => Cache.peek id (Cache.parts A)
    | None => None
    end.
  Lemma get_sfound A k : Cache.get keqb A k = match sfound A k with Some m => Assoc.lookup keqb k m | None => None end.
  Proof. unfold Cache.get, sfound. destruct (Assoc.lookup keqb k (Cache.index A)); reflexivity. Qed.

  Lemma found_abs s k :
    WF s -> Q s ->
    sfound (absf c s) k = match found s k with Some ip => Some (nth (snd ip) (pmaps s) []) | None => None end.
  Proof.
    intros _ (_ & _ & _ & st & ix & Es & Ei & (Hid & _)). unfold sfound, absf, found. rewrite Es, Ei. simpl.
    rewrite <- lookup_eq. destruct (CacheConc.lookup keqb k ix) as [[|id']|]; auto.
    - rewrite peek_abs, peek_ents_zero; auto. intros e He. apply Hid; auto.
    - rewrite peek_abs. unfold stk_peek. destruct (peek_ents (S id') (ents st)); reflexivity.
  Qed.

  Lemma found_lt s k id p : WF s -> found s k = Some (id, p) -> p < length (pmaps s).
  Proof.
    intros (_ & _ & Hst & _) H. unfold found in H.
    destruct (nth_error (idxs s) (findex s)) as [ix|]; [|discriminate].
    destruct (nth_error (stacks s) (fparts s)) as [st|] eqn:Es; [|discriminate].
    destruct (CacheConc.lookup keqb k ix) as [[|id']|]; try discriminate.
    destruct (stk_peek (S id') st) as [p'|] eqn:Ep; inv H.
    apply (Hst st (S id', p) (nth_error_In _ _ Es)). apply peek_ents_In. exact Ep.
  Qed.

  (* the id the index names, for the in-place paths *)
  Lemma found_id s k id p :
    Q s -> found s k = Some (id, p) ->
    exists st ix, nth_error (stacks s) (fparts s) = Some st /\ nth_error (idxs s) (findex s) = Some ix
                  /\ Assoc.lookup keqb k ix = Some id /\ peek_ents id (ents st) = Some p /\ stack_ok st.
  Proof.
    intros (_ & _ & _ & st & ix & Es & Ei & Hok) H. unfold found in H. rewrite Es, Ei in H.
    exists st, ix. rewrite <- lookup_eq.
    destruct (CacheConc.lookup keqb k ix) as [[|id']|]; try discriminate.
    unfold stk_peek in H. destruct (peek_ents (S id') (ents st)) eqn:Ep; inv H. auto.
  Qed.

  Lemma run_cons s l ls : run c s (l :: ls) = match step c s l with Some s1 => run c s1 ls | None => None end.
  Proof. reflexivity. Qed.

  Lemma solo_app n a b : @solo K V n (a + b) = solo n a ++ solo n b.
  Proof. unfold solo. apply repeat_app. Qed.

  Lemma run_app' l1 : forall s l2, run c s (l1 ++ l2) = match run c s l1 with Some s1 => run c s1 l2 | None => None end.
  Proof. induction l1 as [|l t IH]; intros s l2; simpl; auto. destruct (step c s l); auto. Qed.

  (* Get *)
  Theorem seq_get s k :
    WF s -> Q s ->
    exists m s', run c s (LSpawn (OGet k) :: solo (length (threads s)) m) = Some s'
                 /\ at_pc s' (length (threads s)) (OGet k)
                          (PDone (RVal (match Cache.get keqb (absf c s) k with Some x => x | None => zero end)))
                 /\ absf c s' = absf c s /\ Q s'.
  Proof.
    intros Hwf Hq. set (n := length (threads s)).
    destruct (spawn_at s (OGet k)) as (s0 & Hsp & Hat & Hsd); [discriminate|]. fold n in Hat.
    assert (Hsd0 : same_data s s0) by (unfold same_data; tauto).
    assert (Hq0 := same_data_Q _ _ Hsd0 Hq).
    assert (Hwf0 : WF s0) by (eapply (step_WF keqb zero c); eauto).
    destruct (lookup_phase s0 n (OGet k) k Hq0 Hat eq_refl) as (m1 & Hr1).
    pose proof (found_abs s0 k Hwf0 Hq0) as Hfa. rewrite (same_data_abs _ _ Hsd0) in Hfa.
    rewrite get_sfound, Hfa. clear Hfa.
    destruct (found s0 k) as [[id p]|] eqn:Ef; cbn [snd] in *.
    - pose proof (found_lt _ _ _ _ Hwf0 Ef) as Hp.
      destruct (nth_error (pmaps s0) p) as [mm|] eqn:Em; [|apply nth_error_None in Em; lia].
      exists (m1 + 1). eexists. rewrite run_cons, Hsp, solo_app, run_app', Hr1.
      pose proof (at_set_pc _ _ _ _ (hit (OGet k) p) Hat) as Hat1.
      split; [|split; [|split]].
      + one_step Hat1. cbn. rewrite Em. rewrite set_pc_twice. reflexivity.
      + rewrite (nth_error_nth' _ _ _ [] Em), lookup_eq. eapply at_set_pc; eauto.
      + rewrite <- (same_data_abs _ _ Hsd0). apply same_data_abs. apply same_data_set_pc. unfold same_data; tauto.
      + eapply same_data_Q; [|exact Hq0]. apply same_data_set_pc. unfold same_data; tauto.
    - exists m1. eexists. rewrite run_cons, Hsp, Hr1. split; [reflexivity|split; [|split]].
      + simpl. eapply at_set_pc; eauto.
      + rewrite <- (same_data_abs _ _ Hsd0). apply same_data_abs. apply same_data_set_pc. unfold same_data; tauto.
      + eapply same_data_Q; [|exact Hq0]. apply same_data_set_pc. unfold same_data; tauto.
  Qed.
  (* Contains *)
  Theorem seq_contains s k :
    WF s -> Q s ->
    exists m s', run c s (LSpawn (OContains k) :: solo (length (threads s)) m) = Some s'
                 /\ at_pc s' (length (threads s)) (OContains k) (PDone (RBool (Cache.contains keqb (absf c s) k)))
                 /\ absf c s' = absf c s /\ Q s'.
  Proof.
    intros Hwf Hq. set (n := length (threads s)).
    destruct (spawn_at s (OContains k)) as (s0 & Hsp & Hat & Hsd); [discriminate|]. fold n in Hat.
    assert (Hsd0 : same_data s s0) by (unfold same_data; tauto).
    assert (Hq0 := same_data_Q _ _ Hsd0 Hq).
    assert (Hwf0 : WF s0) by (eapply (step_WF keqb zero c); eauto).
    destruct (lookup_phase s0 n (OContains k) k Hq0 Hat eq_refl) as (m1 & Hr1).
    pose proof (found_abs s0 k Hwf0 Hq0) as Hfa. rewrite (same_data_abs _ _ Hsd0) in Hfa.
    unfold Cache.contains. rewrite get_sfound, Hfa. clear Hfa.
    destruct (found s0 k) as [[id p]|] eqn:Ef; cbn [snd] in *.
    - pose proof (found_lt _ _ _ _ Hwf0 Ef) as Hp.
      destruct (nth_error (pmaps s0) p) as [mm|] eqn:Em; [|apply nth_error_None in Em; lia].
      exists (m1 + 1). eexists. rewrite run_cons, Hsp, solo_app, run_app', Hr1.
      pose proof (at_set_pc _ _ _ _ (hit (OContains k) p) Hat) as Hat1.
      split; [|split; [|split]].
      + one_step Hat1. cbn. rewrite Em. rewrite set_pc_twice. reflexivity.
      + rewrite (nth_error_nth' _ _ _ [] Em). unfold amem. rewrite lookup_eq. eapply at_set_pc; eauto.
      + rewrite <- (same_data_abs _ _ Hsd0). apply same_data_abs. apply same_data_set_pc. unfold same_data; tauto.
      + eapply same_data_Q; [|exact Hq0]. apply same_data_set_pc. unfold same_data; tauto.
    - exists m1. eexists. rewrite run_cons, Hsp, Hr1. split; [reflexivity|split; [|split]].
      + simpl. eapply at_set_pc; eauto.
      + rewrite <- (same_data_abs _ _ Hsd0). apply same_data_abs. apply same_data_set_pc. unfold same_data; tauto.
      + eapply same_data_Q; [|exact Hq0]. apply same_data_set_pc. unfold same_data; tauto.
  Qed.

  Lemma nth_error_upd_same {A} (l : list A) i x y : nth_error l i = Some y -> nth_error (upd i x l) i = Some x.
  Proof. intros H. apply nth_error_upd_eq. eapply nth_error_lt; eauto. Qed.

  (* Delete (with fix F1: the index entry goes too) *)
  Theorem seq_delete s k :
    WF s -> Q s ->
    exists m s', run c s (LSpawn (ODelete k) :: solo (length (threads s)) m) = Some s'
                 /\ at_pc s' (length (threads s)) (ODelete k) (PDone RUnit)
                 /\ absf c s' = Cache.delete keqb (absf c s) k /\ Q s'.
  Proof.
    intros Hwf Hq. set (n := length (threads s)).
    destruct (spawn_at s (ODelete k)) as (s0 & Hsp & Hat & Hsd); [discriminate|]. fold n in Hat.
    assert (Hsd0 : same_data s s0) by (unfold same_data; tauto).
    assert (Hq0 := same_data_Q _ _ Hsd0 Hq).
    assert (Hwf0 : WF s0) by (eapply (step_WF keqb zero c); eauto).
    destruct (lookup_phase s0 n (ODelete k) k Hq0 Hat eq_refl) as (m1 & Hr1).
    rewrite <- (same_data_abs _ _ Hsd0).
    destruct (found s0 k) as [[id p]|] eqn:Ef; cbn [snd] in *.
    - pose proof (found_lt _ _ _ _ Hwf0 Ef) as Hp.
      destruct (found_id _ _ _ _ Hq0 Ef) as (st & ix & Es & Ei & Hl & Hpk & (Hids & Hnd)).
      destruct (nth_error (pmaps s0) p) as [mm|] eqn:Em; [|apply nth_error_None in Em; lia].
      pose proof (at_set_pc _ _ _ _ (hit (ODelete k) p) Hat) as Hat1.
      assert (Hdl : Cache.delete keqb (absf c s0) k
                    = if has keqb k mm
                      then Cache.with_index (Cache.with_parts (absf c s0)
                             (Cache.put id (remove keqb k mm) (Cache.parts (absf c s0)))) (remove keqb k ix)
                      else absf c s0).
      { unfold Cache.delete, absf. rewrite Es, Ei. cbn [Cache.index Cache.parts]. rewrite Hl, peek_abs, Hpk.
        rewrite (nth_error_nth' _ _ _ [] Em). reflexivity. }
      rewrite Hdl. destruct (has keqb k mm) eqn:Eh.
      + exists (m1 + 3). eexists. rewrite run_cons, Hsp, solo_app, run_app', Hr1.
        split; [|split; [|split]].
        * one_step Hat1. rewrite Em, amem_eq, Eh.
          pose proof (at_set_pc _ _ _ _ (PDel p) Hat1) as Hat2. rewrite set_pc_twice in Hat2 |- *.
          one_step Hat2. rewrite Em, Hdel.
          match goal with |- context [run c ?S (solo n 1)] => assert (Hat3 : at_pc S n (ODelete k) PDelIdx) end.
          { unfold at_pc. simpl. rewrite upd_upd. eapply nth_error_upd_same; eauto. }
          one_step Hat3. rewrite Ei. reflexivity.
        * unfold at_pc. simpl. rewrite !upd_upd. eapply nth_error_upd_same; eauto.
        * unfold absf. simpl. rewrite Es, Ei, (nth_error_upd_same _ _ _ _ Ei). unfold Cache.with_index, Cache.with_parts. simpl.
          rewrite adel_eq, adel_eq. f_equal. apply put_abs; auto.
        * destruct Hq0 as (A1 & A2 & A3 & _). unfold Q. simpl. repeat split; auto.
          exists st. eexists. rewrite Es, (nth_error_upd_same _ _ _ _ Ei). split; [reflexivity|]. split; [reflexivity|].
          split; auto.
      + exists (m1 + 1). eexists. rewrite run_cons, Hsp, solo_app, run_app', Hr1.
        split; [|split; [|split]].
        * one_step Hat1. rewrite Em, amem_eq, Eh. rewrite set_pc_twice. reflexivity.
        * eapply at_set_pc; eauto.
        * apply same_data_abs. apply same_data_set_pc. unfold same_data; tauto.
        * eapply same_data_Q; [|exact Hq0]. apply same_data_set_pc. unfold same_data; tauto.
    - pose proof (found_abs s0 k Hwf0 Hq0) as Hfa. rewrite Ef in Hfa.
      assert (Hdl : Cache.delete keqb (absf c s0) k = absf c s0).
      { unfold Cache.delete. unfold sfound in Hfa. destruct (Assoc.lookup keqb k (Cache.index (absf c s0))); auto.
        rewrite Hfa. reflexivity. }
      rewrite Hdl.
      exists m1. eexists. rewrite run_cons, Hsp, Hr1. split; [reflexivity|split; [|split]].
      + simpl. eapply at_set_pc; eauto.
      + apply same_data_abs. apply same_data_set_pc. unfold same_data; tauto.
      + eapply same_data_Q; [|exact Hq0]. apply same_data_set_pc. unfold same_data; tauto.
  Qed.
  Lemma put_app_new id m' (ps : list (nat * list (K * V))) m0 :
    (forall e, In e ps -> fst e <> id) -> Cache.put id m' (ps ++ [(id, m0)]) = ps ++ [(id, m')].
  Proof.
    induction ps as [|[i m] t IH]; simpl; intros H.
    - rewrite Nat.eqb_refl. reflexivity.
    - destruct (Nat.eqb_spec i id) as [->|]; [exfalso; apply (H (id, m)); auto|]. f_equal. apply IH. auto.
  Qed.
  Lemma peek_app_new id (ps : list (nat * list (K * V))) m0 :
    (forall e, In e ps -> fst e <> id) -> Cache.peek id (ps ++ [(id, m0)]) = Some m0.
  Proof.
    induction ps as [|[i m] t IH]; simpl; intros H.
    - rewrite Nat.eqb_refl. reflexivity.
    - destruct (Nat.eqb_spec i id) as [->|]; [exfalso; apply (H (id, m)); auto|]. apply IH. auto.
  Qed.

  (* getCurrentPartition's test, in both models *)
  Lemma room_abs s st :
    WF s -> nth_error (stacks s) (fparts s) = Some st -> (exists ix, nth_error (idxs s) (findex s) = Some ix) ->
    match room c s with
    | Some (Some p) => Cache.room (absf c s) = true /\ peek_ents (CacheConc.cur s) (ents st) = Some p
                       /\ p < length (pmaps s)
    | Some None => Cache.room (absf c s) = false
    | None => False
    end.
  Proof.
    intros (_ & _ & Hst & _) Es (ix & Ei). unfold room, Cache.room, absf. rewrite Es, Ei. cbn [Cache.cur Cache.parts Cache.C].
    rewrite peek_abs. unfold stk_peek. destruct (peek_ents (CacheConc.cur s) (ents st)) as [p|] eqn:Ep; auto.
    assert (Hp : p < length (pmaps s)) by (apply (Hst st (CacheConc.cur s, p) (nth_error_In _ _ Es)); apply peek_ents_In; auto).
    destruct (nth_error (pmaps s) p) as [mm|] eqn:Em; [|apply nth_error_None in Em; lia].
    rewrite (nth_error_nth' _ _ _ [] Em). destruct (length mm <? capC c); auto.
  Qed.

  (* Set: in place when index and Peek find the key's partition, otherwise through getCurrentPartition *)
  Theorem seq_set s k v :
    WF s -> Q s ->
    exists m s', run c s (LSpawn (OSet k v) :: solo (length (threads s)) m) = Some s'
                 /\ at_pc s' (length (threads s)) (OSet k v) (PDone RUnit)
                 /\ absf c s' = Cache.set keqb (absf c s) k v /\ Q s'.
  Proof.
    intros Hwf Hq. set (n := length (threads s)).
    destruct (spawn_at s (OSet k v)) as (s0 & Hsp & Hat & Hsd); [discriminate|]. fold n in Hat.
    assert (Hsd0 : same_data s s0) by (unfold same_data; tauto).
    assert (Hq0 := same_data_Q _ _ Hsd0 Hq).
    assert (Hwf0 : WF s0) by (eapply (step_WF keqb zero c); eauto).
    destruct (lookup_phase s0 n (OSet k v) k Hq0 Hat eq_refl) as (m1 & Hr1).
    rewrite <- (same_data_abs _ _ Hsd0).
    assert (Hlt : n < length (threads s0)) by (eapply nth_error_lt; eauto).
    destruct (found s0 k) as [[id p]|] eqn:Ef; cbn [snd] in *.
    - (* in place *)
      pose proof (found_lt _ _ _ _ Hwf0 Ef) as Hp.
      destruct (found_id _ _ _ _ Hq0 Ef) as (st & ix & Es & Ei & Hl & Hpk & (Hids & Hnd)).
      destruct (nth_error (pmaps s0) p) as [mm|] eqn:Em; [|apply nth_error_None in Em; lia].
      pose proof (at_set_pc _ _ _ _ (hit (OSet k v) p) Hat) as Hat1.
      exists (m1 + 1). eexists. rewrite run_cons, Hsp, solo_app, run_app', Hr1.
      split; [|split; [|split]].
      + one_step Hat1. rewrite Em. reflexivity.
      + unfold at_pc. simpl. rewrite !upd_upd. apply nth_error_upd_eq; auto.
      + unfold Cache.set, absf. simpl. rewrite Es, Ei. cbn [Cache.index Cache.parts]. rewrite Hl, peek_abs, Hpk.
        unfold Cache.with_parts. simpl. rewrite (nth_error_nth' _ _ _ [] Em), aset_eq. f_equal. apply put_abs; auto.
      + destruct Hq0 as (A1 & A2 & A3 & _). unfold Q. simpl. repeat split; auto.
        exists st, ix. split; [exact Es|]. split; [exact Ei|]. split; auto.
    - (* through getCurrentPartition *)
      pose proof (found_abs s0 k Hwf0 Hq0) as Hfa. rewrite Ef in Hfa.
      assert (Hfresh : Cache.set keqb (absf c s0) k v = Cache.fresh keqb (absf c s0) k v).
      { unfold Cache.set. unfold sfound in Hfa. destruct (Assoc.lookup keqb k (Cache.index (absf c s0))); auto.
        rewrite Hfa. reflexivity. }
      rewrite Hfresh. clear Hfresh Hfa.
      destruct Hq0 as (A1 & A2 & A3 & st & ix & Es & Ei & (Hids & Hnd)).
      pose proof (room_abs s0 st Hwf0 Es (ex_intro _ ix Ei)) as Hroom.
      pose proof (at_set_pc _ _ _ _ (miss zero (OSet k v)) Hat) as Hat1. cbn [miss] in Hat1, Hr1.
      destruct (room c s0) as [[p|]|] eqn:Er; [| |destruct Hroom].
      + (* room in the current partition *)
        destruct Hroom as (Hrm & Hpk & Hp).
        destruct (nth_error (pmaps s0) p) as [mm|] eqn:Em; [|apply nth_error_None in Em; lia].
        exists (m1 + 3). eexists. rewrite run_cons, Hsp, solo_app, run_app', Hr1.
        split; [|split; [|split]].
        * one_step Hat1. rewrite A1.
          assert (Er1 : room c (set_pc s0 n (OSet k v) PFast) = Some (Some p)) by exact Er. rewrite Er1.
          pose proof (at_set_pc _ _ _ _ (PWrite p (CacheConc.cur s0)) Hat1) as Hat2. rewrite set_pc_twice in Hat2 |- *.
          one_step Hat2. rewrite Em.
          match goal with |- context [run c ?S (solo n 1)] => assert (Hat3 : at_pc S n (OSet k v) (PIndex (CacheConc.cur s0))) end.
          { unfold at_pc. simpl. rewrite upd_upd. apply nth_error_upd_eq; auto. }
          one_step Hat3. rewrite Ei. reflexivity.
        * unfold at_pc. simpl. rewrite !upd_upd. apply nth_error_upd_eq; auto.
        * unfold Cache.fresh. rewrite Hrm. unfold absf at 2 3 4 5. rewrite Es, Ei. cbn [Cache.cur Cache.parts Cache.index].
          rewrite peek_abs, Hpk. unfold absf. simpl. rewrite Es, Ei, (nth_error_upd_same _ _ _ _ Ei).
          unfold Cache.with_index, Cache.with_parts. simpl.
          rewrite (nth_error_nth' _ _ _ [] Em), !aset_eq. f_equal. apply put_abs; auto.
        * unfold Q. simpl. repeat split; auto.
          exists st. eexists. rewrite Es, (nth_error_upd_same _ _ _ _ Ei). split; [reflexivity|]. split; [reflexivity|]. split; auto.
      + (* a new partition is opened *)
        set (p' := length (pmaps s0)). set (id' := S (ctr st)).
        exists (m1 + 4). eexists. rewrite run_cons, Hsp, solo_app, run_app', Hr1.
        assert (Hfp : fparts s0 < length (stacks s0)) by (eapply nth_error_lt; eauto).
        assert (Hold : forall e, In e (ents st) -> snd e < p').
        { intros e He. destruct Hwf0 as (_ & _ & Hst & _). apply (Hst st e (nth_error_In _ _ Es) He). }
        split; [|split; [|split]].
        * one_step Hat1. rewrite A1.
          assert (Er1 : room c (set_pc s0 n (OSet k v) PFast) = Some None) by exact Er. rewrite Er1.
          pose proof (at_set_pc _ _ _ _ PSlow Hat1) as Hat2. rewrite set_pc_twice in Hat2 |- *.
          one_step Hat2. rewrite A1, A2. cbn [orb negb Nat.eqb].
          assert (Er2 : room c (set_pc s0 n (OSet k v) PSlow) = Some None) by exact Er. rewrite Er2, Hre.
          unfold open_partition. autorewrite with spc. rewrite Es.
          match goal with |- context [run c ?S (solo n 2)] => assert (Hat3 : at_pc S n (OSet k v) (PWrite p' id')) end.
          { unfold at_pc. simpl. rewrite upd_upd. rewrite nth_error_app1 by (rewrite upd_length; auto). apply nth_error_upd_eq; auto. }
          one_step Hat3.
          assert (Enew : nth_error (pmaps s0 ++ [[]]) (length (pmaps s0)) = Some []) by apply nth_error_app_new.
          fold p'. fold p' in Enew. rewrite Enew.
          match goal with |- context [run c ?S (solo n 1)] => assert (Hat4 : at_pc S n (OSet k v) (PIndex id')) end.
          { unfold at_pc. simpl. apply nth_error_upd_eq. rewrite ?app_length, ?upd_length. simpl. unfold CacheConc.thread in *. lia. }
          one_step Hat4. rewrite Ei. reflexivity.
        * unfold at_pc. simpl. apply nth_error_upd_eq. rewrite ?upd_length, ?app_length, ?upd_length. simpl. unfold CacheConc.thread in *. lia.
        * unfold Cache.fresh. rewrite Hroom. unfold absf. simpl. rewrite Es, Ei.
          rewrite (nth_error_upd_same _ _ _ _ Es), (nth_error_upd_same _ _ _ _ Ei).
          unfold Cache.open_part. cbn [Cache.cur Cache.parts Cache.next Cache.index Cache.P Cache.C].
          assert (Hne : forall e, In e (map (fun e => (fst e, nth (snd e) (pmaps s0) [])) (ents st)) -> fst e <> S (ctr st)).
          { intros e He. apply in_map_iff in He. destruct He as (e0 & <- & He0). simpl. specialize (Hids e0 He0). lia. }
          rewrite (peek_app_new _ _ _ Hne), (put_app_new _ _ _ _ Hne).
          unfold Cache.with_index, Cache.with_parts. simpl. rewrite !aset_eq. f_equal.
          rewrite map_app. simpl. f_equal.
          -- apply map_ext_in. intros e He. specialize (Hold e He). fold p'.
             rewrite nth_upd_neq by lia. rewrite app_nth1 by (fold p'; lia). reflexivity.
          -- fold p'. rewrite nth_upd_eq by (rewrite app_length; simpl; fold p'; lia). reflexivity.
        * unfold Q. simpl. repeat split; auto.
          eexists. eexists. rewrite (nth_error_upd_same _ _ _ _ Es), (nth_error_upd_same _ _ _ _ Ei).
          split; [reflexivity|]. split; [reflexivity|]. split.
          -- simpl. intros e He. apply in_app_or in He. destruct He as [He|[<-|[]]]; simpl; [|lia].
             specialize (Hids e He). lia.
          -- simpl. rewrite map_app. simpl. apply NoDup_app_intro; auto.
             ++ constructor; [intros []|constructor].
             ++ intros x Hx [<-|[]]. apply in_map_iff in Hx. destruct Hx as (e & Ee & He). specialize (Hold e He). fold p' in Ee. lia.
  Qed.
  Lemma skipn_tl {A} k (l : list A) : skipn k (tl l) = skipn (S k) l.
  Proof. destruct l; simpl; auto. destruct k; reflexivity. Qed.
  Lemma In_skipn' {A} k (l : list A) x : In x (skipn k l) -> In x l.
  Proof. intros H. rewrite <- (firstn_skipn k l). apply in_or_app. auto. Qed.
  Lemma NoDup_skipn {A} k (l : list A) : NoDup l -> NoDup (skipn k l).
  Proof.
    revert l; induction k as [|k IH]; intros l H; simpl; auto. destruct l; auto. inv H. auto.
  Qed.
  Lemma skipn_map' {A B} (f : A -> B) k l : skipn k (map f l) = map f (skipn k l).
  Proof. revert l; induction k as [|k IH]; intros [|x t]; simpl; auto. Qed.

  (* Sweep's pops *)
  Lemma sweep_loop k : forall (s : state) n o st,
    at_pc s n o (PSwPop k) -> nth_error (stacks s) (fparts s) = Some st ->
    exists s1, run c s (solo n k) = Some s1 /\ at_pc s1 n o (PSwPop 0)
               /\ nth_error (stacks s1) (fparts s1) = Some {| ents := skipn k (ents st); ctr := ctr st |}
               /\ pmaps s1 = pmaps s /\ idxs s1 = idxs s /\ findex s1 = findex s /\ CacheConc.cur s1 = CacheConc.cur s
               /\ cpmw s1 = cpmw s /\ cpmr s1 = cpmr s /\ swm s1 = swm s.
  Proof.
    induction k as [|k IH]; intros s n o st Hat Es.
    - exists s. simpl. destruct st; simpl. repeat split; auto.
    - one_step Hat. rewrite Es.
      match goal with |- context [run c ?S (solo n k)] => assert (Hat1 : at_pc S n o (PSwPop k)) end.
      { unfold at_pc. simpl. eapply nth_error_upd_same; eauto. }
      match type of Hat1 with at_pc ?S _ _ _ =>
        destruct (IH S n o (stk_pop st) Hat1) as (s1 & Hr & Hat2 & E1 & E2 & E3 & E4 & E5 & E6 & E7 & E8) end.
      { simpl. eapply nth_error_upd_same; eauto. }
      exists s1. split; [exact Hr|]. split; [exact Hat2|]. simpl in *. rewrite skipn_tl in E1. repeat split; auto.
  Qed.

  Theorem seq_sweep s :
    WF s -> Q s ->
    exists m s', run c s (LSpawn OSweep :: solo (length (threads s)) m) = Some s'
                 /\ at_pc s' (length (threads s)) OSweep (PDone RUnit)
                 /\ absf c s' = Cache.sweep (absf c s) /\ Q s'.
  Proof.
    intros Hwf Hq. set (n := length (threads s)).
    destruct (spawn_at s OSweep) as (s0 & Hsp & Hat & Hsd); [discriminate|]. fold n in Hat. cbn [start_pc] in Hat.
    assert (Hsd0 : same_data s s0) by (unfold same_data; tauto).
    assert (Hq0 := same_data_Q _ _ Hsd0 Hq).
    rewrite <- (same_data_abs _ _ Hsd0).
    destruct Hq0 as (A1 & A2 & A3 & st & ix & Es & Ei & (Hids & Hnd)).
    set (k := length (ents st) - maxP c).
    assert (Hat1 : at_pc (set_pc (set_cpmr (set_swm s0 true) (S (cpmr s0))) n OSweep (PSwPop k)) n OSweep (PSwPop k)).
    { unfold at_pc. simpl. eapply nth_error_upd_same; eauto. }
    destruct (sweep_loop k _ n OSweep st Hat1) as (s1 & Hr & Hat2 & E1 & E2 & E3 & E4 & E5 & E6 & E7 & E8); [exact Es|].
    simpl in E2, E3, E4, E5, E6, E7, E8.
    exists (1 + (k + 1)). eexists. rewrite run_cons, Hsp, solo_app, run_app'.
    split; [|split; [|split]].
    - one_step Hat. rewrite A3, A1, Es. cbn [orb]. fold k. change (run c ?S (solo n 0)) with (Some S). cbv iota. rewrite solo_app, run_app', Hr.
      one_step Hat2. reflexivity.
    - unfold at_pc. simpl. eapply nth_error_upd_same; eauto.
    - unfold absf. simpl. rewrite E1, E3, E4, Es, Ei, E2, E5. unfold Cache.sweep, Cache.with_parts. simpl.
      rewrite map_length, skipn_map'. reflexivity.
    - unfold Q. simpl. rewrite E6, E7, A2, E1, E3, E4, Ei. repeat split; auto.
      eexists. eexists. split; [reflexivity|]. split; [reflexivity|]. split; simpl.
      + intros e He. apply Hids. eapply In_skipn'; eauto.
      + rewrite <- skipn_map'. apply NoDup_skipn; auto.
  Qed.

  Theorem seq_clear s :
    WF s -> Q s ->
    exists m s', run c s (LSpawn OClear :: solo (length (threads s)) m) = Some s'
                 /\ at_pc s' (length (threads s)) OClear (PDone RUnit)
                 /\ absf c s' = Cache.clear (absf c s) /\ Q s'.
  Proof.
    intros Hwf Hq. set (n := length (threads s)).
    destruct (spawn_at s OClear) as (s0 & Hsp & Hat & Hsd); [discriminate|]. fold n in Hat. cbn [start_pc] in Hat.
    assert (Hsd0 : same_data s s0) by (unfold same_data; tauto).
    assert (Hq0 := same_data_Q _ _ Hsd0 Hq).
    rewrite <- (same_data_abs _ _ Hsd0).
    destruct Hq0 as (A1 & A2 & A3 & st & ix & Es & Ei & _).
    exists 3. eexists. rewrite run_cons, Hsp.
    split; [|split; [|split]].
    - one_step Hat. rewrite A1, A2. cbn [orb negb Nat.eqb].
      match goal with |- context [run c ?S (solo n 2)] => assert (Hat1 : at_pc S n OClear PCl2) end.
      { unfold at_pc. simpl. eapply nth_error_upd_same; eauto. }
      one_step Hat1.
      match goal with |- context [run c ?S (solo n 1)] => assert (Hat2 : at_pc S n OClear PCl3) end.
      { unfold at_pc. simpl. rewrite upd_upd. eapply nth_error_upd_same; eauto. }
      one_step Hat2. unfold open_partition. autorewrite with spc. rewrite nth_error_app_new. reflexivity.
    - unfold at_pc. simpl. rewrite !upd_upd. eapply nth_error_upd_same; eauto.
    - unfold absf. simpl. rewrite (nth_error_upd_same _ _ _ stk_empty (nth_error_app_new _ _)), nth_error_app_new.
      rewrite Es, Ei. unfold Cache.clear, Cache.clear_with. simpl.
      rewrite app_nth2 by lia. rewrite Nat.sub_diag. reflexivity.
    - unfold Q. simpl. repeat split; auto.
      eexists. eexists. rewrite (nth_error_upd_same _ _ _ stk_empty (nth_error_app_new _ _)), nth_error_app_new.
      split; [reflexivity|]. split; [reflexivity|]. split; simpl.
      + intros e [<-|[]]. simpl. lia.
      + constructor; [intros []|constructor].
  Qed.
  (* one call *)
  Theorem seq_call s o l :
    WF s -> Q s -> lab o = Some l ->
    exists m s' r, run c s (LSpawn o :: solo (length (threads s)) m) = Some s'
                   /\ at_pc s' (length (threads s)) o (PDone r)
                   /\ absf c s' = fst (Cache.step keqb (absf c s) l)
                   /\ res_matches zero o r (snd (Cache.step keqb (absf c s) l))
                   /\ WF s' /\ Q s'.
  Proof.
    intros Hwf Hq Hl.
    destruct o; cbn [lab] in Hl; inv Hl; cbn [Cache.step fst snd].
    - destruct (seq_set s k v Hwf Hq) as (m & s' & Hr & Hat & Ha & Hq'). exists m, s', RUnit.
      split; [exact Hr|]. split; [exact Hat|]. split; [exact Ha|]. split; [exact I|]. split; [eapply run_WF; eauto|exact Hq'].
    - destruct (seq_get s k Hwf Hq) as (m & s' & Hr & Hat & Ha & Hq'). eexists m, s', _.
      split; [exact Hr|]. split; [exact Hat|]. split; [exact Ha|]. split; [reflexivity|]. split; [eapply run_WF; eauto|exact Hq'].
    - destruct (seq_contains s k Hwf Hq) as (m & s' & Hr & Hat & Ha & Hq'). eexists m, s', _.
      split; [exact Hr|]. split; [exact Hat|]. split; [exact Ha|]. split; [reflexivity|]. split; [eapply run_WF; eauto|exact Hq'].
    - destruct (seq_delete s k Hwf Hq) as (m & s' & Hr & Hat & Ha & Hq'). exists m, s', RUnit.
      split; [exact Hr|]. split; [exact Hat|]. split; [exact Ha|]. split; [exact I|]. split; [eapply run_WF; eauto|exact Hq'].
    - destruct (seq_sweep s Hwf Hq) as (m & s' & Hr & Hat & Ha & Hq'). exists m, s', RUnit.
      split; [exact Hr|]. split; [exact Hat|]. split; [exact Ha|]. split; [exact I|]. split; [eapply run_WF; eauto|exact Hq'].
    - destruct (seq_clear s Hwf Hq) as (m & s' & Hr & Hat & Ha & Hq'). exists m, s', RUnit.
      split; [exact Hr|]. split; [exact Hat|]. split; [exact Ha|]. split; [exact I|]. split; [eapply run_WF; eauto|exact Hq'].
  Qed.

  Lemma absf_init : absf c (@CacheConc.init K V) = Cache.init (maxP c) (capC c).
  Proof. reflexivity. Qed.

  (* any sequential history: there is a schedule of the concurrent model (each call spawned and run alone to
     completion, `go f.Sweep()` goroutines left pending) whose final state abstracts to the state of the
     sequential model after the same history *)
  Theorem seq_history (h : list (@Cache.label K V)) (ops : list (@op K V)) :
    Forall2 (fun o l => lab o = Some l) ops h ->
    forall s, WF s -> Q s ->
    exists ls s', run c s ls = Some s' /\ absf c s' = Cache.run keqb (absf c s) h /\ WF s' /\ Q s'.
  Proof.
    induction 1 as [|o l ops h Hl _ IH]; intros s Hwf Hq.
    - exists [], s. simpl. auto.
    - destruct (seq_call s o l Hwf Hq Hl) as (m & s1 & r & Hr & _ & Ha & _ & Hwf1 & Hq1).
      destruct (IH s1 Hwf1 Hq1) as (ls & s' & Hr' & Ha' & Hwf' & Hq').
      exists ((LSpawn o :: solo (length (threads s)) m) ++ ls), s'. rewrite run_app', Hr. split; [exact Hr'|].
      split; auto. rewrite Ha', Ha. reflexivity.
  Qed.
End SeqProofs.
