(* CacheConc: the ticker goroutine after cancellation. *)
From Coq Require Import List Arith Bool Lia.
From TC.Model Require Import CacheConc.
From TC.Proofs Require Import CacheConcBase CacheConcSafe.
Import ListNotations.

Section Ticker.
  Context {K V : Type}.
  Variable keqb : K -> K -> bool.
  Variable zero : V.
  Notation state := (@state K V).
  Notation step := (@step K V keqb zero).
  Notation run := (@run K V keqb zero).

  Definition b2n (b : bool) : nat := if b then 1 else 0.
  Definition is_tick (l : @label K V) : bool := match l with LTick => true | _ => false end.

  (* does this label make a ticker goroutine take a tick and start a sweep? *)
  Definition tk_begin (s : state) (l : @label K V) : nat :=
    match l with
    | LStep i => match nth_error (threads s) i with Some (OTicker, PTkWait) => 1 | _ => 0 end
    | _ => 0
    end.
  Fixpoint tk_begins (c : config) (s : state) (ls : list label) : nat :=
    match ls with
    | [] => 0
    | l :: t => match step c s l with
                | Some s' => tk_begin s l + tk_begins c s' t
                | None => 0
                end
    end.

  Lemma step_thread_frame c s i o p s' :
    step_thread keqb zero c s i o p = Some s' ->
    cancelled s' = cancelled s
    /\ (p <> PTkWait -> tick s' = tick s)
    /\ (p = PTkWait -> tick s = true /\ tick s' = false).
  Proof.
    intros H. destruct p; simpl in H; unfold room, open_partition in H; try discriminate; break_all;
      (split; [reflexivity|split; [intros; try reflexivity; congruence|intros; try discriminate; auto]]).
  Qed.

  Lemma step_cancelled c s l s' : step c s l = Some s' -> cancelled s = true -> cancelled s' = true.
  Proof.
    intros Hs Hc. destruct l as [o|i| | |i]; simpl in Hs.
    - destruct o; inv Hs; auto.
    - destruct (nth_error (threads s) i) as [[o p]|]; [|discriminate].
      destruct (step_thread_frame _ _ _ _ _ _ Hs) as (E & _). congruence.
    - inv Hs; auto.
    - inv Hs; auto.
    - break_all. auto.
  Qed.

  Lemma run_cancelled c ls : forall s s', run c s ls = Some s' -> cancelled s = true -> cancelled s' = true.
  Proof.
    induction ls as [|l t IH]; intros s s' Hr Hc; simpl in Hr; [inv Hr; auto|].
    destruct (step c s l) as [s1|] eqn:E; [|discriminate]. eapply IH; eauto using step_cancelled.
  Qed.

  (* a tick is consumed by every sweep the ticker begins, and only LTick delivers one *)
  Lemma step_tick_budget c s l s' :
    step c s l = Some s' -> is_tick l = false -> tk_begin s l + b2n (tick s') <= b2n (tick s).
  Proof.
    intros Hs Hl. destruct l as [o|i| | |i]; simpl in Hs, Hl; try discriminate.
    - destruct o; inv Hs; simpl; lia.
    - simpl. destruct (nth_error (threads s) i) as [[o p]|]; [|discriminate].
      destruct (step_thread_frame _ _ _ _ _ _ Hs) as (_ & H1 & H2).
      destruct p; try (rewrite H1 by discriminate; destruct o; lia).
      destruct (H2 eq_refl) as [-> ->]. destruct o; simpl; lia.
    - inv Hs; simpl; lia.
    - break_all. simpl. lia.
  Qed.

  Lemma run_tick_budget c ls : forall s s',
    run c s ls = Some s' -> forallb (fun l => negb (is_tick l)) ls = true ->
    tk_begins c s ls + b2n (tick s') <= b2n (tick s).
  Proof.
    induction ls as [|l t IH]; intros s s' Hr Hnt; simpl in *; [inv Hr; lia|].
    destruct (step c s l) as [s1|] eqn:E; [|discriminate].
    apply andb_prop in Hnt. destruct Hnt as [Hl Ht]. apply negb_true_iff in Hl.
    specialize (IH _ _ Hr Ht). pose proof (step_tick_budget _ _ _ _ E Hl). lia.
  Qed.

  Lemma run_app c l1 : forall s l2, run c s (l1 ++ l2) = match run c s l1 with Some s1 => run c s1 l2 | None => None end.
  Proof. induction l1 as [|l t IH]; intros s l2; simpl; auto. destruct (step c s l); auto. Qed.

  (* After cancel, for EVERY continuation of EVERY schedule:
     - the context stays cancelled;
     - whenever the ticker goroutine is at its select, its exit step is enabled, and it is its ONLY step unless a
       tick is waiting in the ticker channel;
     - as long as the timer delivers no further tick, the ticker goroutine begins at most one more sweep (the tick
       that was already buffered), i.e. none at all if the channel was empty;
     - a sweep it is in the middle of ends after exactly n+1 of its own steps, each of which is always enabled. *)
  Theorem cache_sweeper_stops c ls1 s1 :
    run c init ls1 = Some s1 -> cancelled s1 = true ->
    forall ls2 s2, run c s1 ls2 = Some s2 ->
      cancelled s2 = true
      /\ (forallb (fun l => negb (is_tick l)) ls2 = true -> tk_begins c s1 ls2 + b2n (tick s2) <= b2n (tick s1))
      /\ (forall i, nth_error (threads s2) i = Some (OTicker, PTkWait) ->
            step c s2 (LExit i) = Some (set_pc s2 i OTicker (PDone RUnit))
            /\ (tick s2 = false -> step c s2 (LStep i) = None))
      /\ (forall i n, nth_error (threads s2) i = Some (OTicker, PSwPop n) ->
            exists s3, step c s2 (LStep i) = Some s3
                       /\ nth_error (threads s3) i = Some (OTicker, match n with 0 => PTkWait | S n' => PSwPop n' end))
      /\ (forall i, nth_error (threads s2) i = Some (OTicker, PDone RUnit) ->
            step c s2 (LStep i) = None /\ step c s2 (LExit i) = None).
  Proof.
    intros Hr1 Hc ls2 s2 Hr2.
    assert (Hc2 := run_cancelled _ _ _ _ Hr2 Hc).
    assert (Hwf : WF s2).
    { apply (cache_no_panic keqb zero c (ls1 ++ ls2)). rewrite run_app, Hr1. exact Hr2. }
    split; [exact Hc2|]. split; [apply run_tick_budget; exact Hr2|]. split; [|split].
    - intros i Hi. simpl. rewrite Hi, Hc2. split; [reflexivity|]. intros Ht. simpl. rewrite Ht. reflexivity.
    - intros i n Hi. simpl. rewrite Hi. destruct Hwf as (Hfp & _).
      assert (Hlt := nth_error_lt _ _ _ Hi).
      destruct n as [|n]; simpl.
      + eexists. split; [reflexivity|]. simpl. apply nth_error_upd_eq; auto.
      + destruct (nth_error (stacks s2) (fparts s2)) as [st|] eqn:Es; [|apply nth_error_None in Es; lia].
        eexists. split; [reflexivity|]. simpl. apply nth_error_upd_eq; auto.
    - intros i Hi. simpl. rewrite Hi. auto.
  Qed.
End Ticker.
