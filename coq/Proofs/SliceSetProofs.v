(* Proofs about the set functions of Model/SliceOps.v. *)
From Coq Require Import List Arith Bool Lia Permutation.
From TC.Lib Require Import ListAux.
From TC.Model Require Import SliceOps.
Import ListNotations.

Section SetOps.
  Context {A : Type}.
  Variable eqb : A -> A -> bool.
  Hypothesis eqb_spec : forall x y, reflect (x = y) (eqb x y).

  Notation mem := (mem eqb).

  Lemma mem_In x l : mem x l = true <-> In x l.
  Proof.
    induction l as [|y t IH]; simpl; [split; [discriminate|tauto]|].
    destruct (eqb_spec x y) as [->|Hne]; simpl; [tauto|].
    rewrite IH. split; [tauto|]. intros [H|H]; [congruence|exact H].
  Qed.

  Lemma mem_false x l : mem x l = false <-> ~ In x l.
  Proof. rewrite <- mem_In. destruct (mem x l); split; congruence. Qed.

  (* ---- Distinct / Union ---- *)
  Lemma add_distinct_fold s : forall acc,
    NoDup acc ->
    NoDup (fold_left (add_distinct eqb) s acc)
    /\ forall x, In x (fold_left (add_distinct eqb) s acc) <-> In x acc \/ In x s.
  Proof.
    induction s as [|e t IH]; intros acc Hnd; simpl; [split; [assumption|tauto]|].
    unfold add_distinct at 2 4. destruct (mem e acc) eqn:Hm.
    - destruct (IH acc Hnd) as [H1 H2]. split; [exact H1|].
      intros x. rewrite H2. apply mem_In in Hm. split; [tauto|].
      intros [H|[->|H]]; tauto.
    - apply mem_false in Hm.
      assert (Hnd' : NoDup (acc ++ [e])).
      { apply NoDup_app_intro; auto.
        - constructor; [intros []|constructor].
        - intros x Hx [ <- | []]. tauto. }
      destruct (IH _ Hnd') as [H1 H2]. split; [exact H1|].
      intros x. rewrite H2, in_app_iff. simpl. tauto.
  Qed.

  Theorem distinct_spec s :
    NoDup (distinct eqb s) /\ forall x, In x (distinct eqb s) <-> In x s.
  Proof.
    destruct (add_distinct_fold s [] (NoDup_nil _)) as [H1 H2].
    split; [exact H1|]. intros x. rewrite (H2 x). simpl. tauto.
  Qed.

  Lemma union_fold ss : forall acc,
    NoDup acc ->
    let r := fold_left (fun acc s => fold_left (add_distinct eqb) s acc) ss acc in
    NoDup r /\ forall x, In x r <-> In x acc \/ exists s, In s ss /\ In x s.
  Proof.
    induction ss as [|s t IH]; intros acc Hnd; simpl.
    - split; [assumption|]. intros x. split; [tauto|]. intros [H|(s & [] & _)]; exact H.
    - destruct (add_distinct_fold s acc Hnd) as [H1 H2].
      destruct (IH _ H1) as [H3 H4]. split; [exact H3|].
      intros x. rewrite H4, H2. split.
      + intros [[H|H]|(s' & Hs' & Hx)]; [tauto|right; exists s; tauto|right; exists s'; tauto].
      + intros [H|(s' & [ <- | Hs'] & Hx)]; [tauto|tauto|right; exists s'; tauto].
  Qed.

  Theorem union_spec ss :
    NoDup (union eqb ss) /\ forall x, In x (union eqb ss) <-> exists s, In s ss /\ In x s.
  Proof.
    destruct (union_fold ss [] (NoDup_nil _)) as [H1 H2].
    split; [exact H1|]. intros x. rewrite (H2 x). simpl. tauto.
  Qed.

  (* ---- Difference ---- *)
  Lemma difference_fold s1 : forall res excl,
    NoDup res -> (forall x, In x res -> In x excl) ->
    let r := fst (fold_left (fun '(res, excl) e =>
                      if mem e excl then (res, excl) else (res ++ [e], e :: excl))
                   s1 (res, excl)) in
    NoDup r /\ forall x, In x r <-> In x res \/ (In x s1 /\ ~ In x excl).
  Proof.
    induction s1 as [|e t IH]; intros res excl Hnd Hsub; simpl.
    - split; [assumption|]. tauto.
    - destruct (mem e excl) eqn:Hm.
      + destruct (IH res excl Hnd Hsub) as [H1 H2]. split; [exact H1|].
        intros x. rewrite H2. apply mem_In in Hm. split; [tauto|].
        intros [H|[[->|H] Hn]]; tauto.
      + apply mem_false in Hm.
        assert (Hnd' : NoDup (res ++ [e])).
        { apply NoDup_app_intro; auto.
          - constructor; [intros []|constructor].
          - intros x Hx [ <- | []]. auto. }
        assert (Hsub' : forall x, In x (res ++ [e]) -> In x (e :: excl)).
        { intros x. rewrite in_app_iff. simpl. intros [H|[H|[]]]; auto. }
        destruct (IH _ _ Hnd' Hsub') as [H1 H2]. split; [exact H1|].
        intros x. rewrite H2, in_app_iff. simpl. split.
        * intros [[H|[ <- | []]]|[H Hn]]; try tauto.
        * intros [H|[[ <- | H] Hn]]; try tauto.
          destruct (eqb_spec e x) as [->|Hne]; [tauto|]. right. tauto.
  Qed.

  Theorem difference_spec s1 s2 :
    NoDup (difference eqb s1 s2)
    /\ forall x, In x (difference eqb s1 s2) <-> In x s1 /\ ~ In x s2.
  Proof.
    destruct (difference_fold s1 [] s2 (NoDup_nil _)) as [H1 H2]; [intros x []|].
    split; [exact H1|]. intros x. rewrite (H2 x). simpl. tauto.
  Qed.

  (* ---- occurrences: number of argument slices that contain x ---- *)
  Definition occ (x : A) (ss : list (list A)) : nat := length (filter (fun s => mem x s) ss).

  Lemma occ_cons x s ss : occ x (s :: ss) = (if mem x s then 1 else 0) + occ x ss.
  Proof. unfold occ. simpl. destruct (mem x s); reflexivity. Qed.

  Lemma occ_app x l1 l2 : occ x (l1 ++ l2) = occ x l1 + occ x l2.
  Proof. unfold occ. rewrite filter_app, app_length. reflexivity. Qed.

  Lemma occ_le x ss : occ x ss <= length ss.
  Proof. apply filter_length_le. Qed.

  Lemma occ_all x ss : occ x ss = length ss <-> forall s, In s ss -> In x s.
  Proof.
    induction ss as [|s t IH]; [simpl; split; [intros _ s []|reflexivity]|].
    rewrite occ_cons. cbn [length]. pose proof (occ_le x t) as Hle.
    destruct (mem x s) eqn:Hm.
    - apply mem_In in Hm. split.
      + intros H s' [ <- | Hs']; [exact Hm|]. apply IH; [lia|exact Hs'].
      + intros H. cbn [plus]. f_equal. apply IH. intros s' Hs'. apply H. right. exact Hs'.
    - apply mem_false in Hm. split; [lia|]. intros H. exfalso. apply Hm, H. left. reflexivity.
  Qed.

  Lemma occ_zero x ss : occ x ss = 0 <-> forall s, In s ss -> ~ In x s.
  Proof.
    induction ss as [|s t IH]; [simpl; split; [intros _ s []|reflexivity]|].
    rewrite occ_cons. destruct (mem x s) eqn:Hm.
    - apply mem_In in Hm. split; [discriminate|]. intros H. exfalso. apply (H s); [left; reflexivity|exact Hm].
    - apply mem_false in Hm. simpl. rewrite IH. split.
      + intros H s' [ <- | Hs']; auto.
      + intros H s' Hs'. apply H. right. exact Hs'.
  Qed.

  (* "exactly one argument contains x" in plain words *)
  Lemma occ_one x ss :
    occ x ss = 1 <->
    exists l1 s l2, ss = l1 ++ s :: l2 /\ In x s
                    /\ (forall s', In s' l1 -> ~ In x s') /\ (forall s', In s' l2 -> ~ In x s').
  Proof.
    split.
    - induction ss as [|s t IH]; [discriminate|].
      rewrite occ_cons. destruct (mem x s) eqn:Hm.
      + intros H. assert (H0' : occ x t = 0) by lia. pose proof (proj1 (occ_zero x t) H0') as H0.
        apply mem_In in Hm. exists [], s, t. simpl. repeat split; auto.
      + intros H. simpl in H. destruct (IH H) as (l1 & s0 & l2 & -> & Hin & H1 & H2).
        apply mem_false in Hm.
        exists (s :: l1), s0, l2. simpl. repeat split; auto. intros s' [ <- | Hs']; auto.
    - intros (l1 & s & l2 & -> & Hin & H1 & H2).
      rewrite occ_app, occ_cons. apply (proj2 (occ_zero x l1)) in H1. apply (proj2 (occ_zero x l2)) in H2.
      apply mem_In in Hin. rewrite H1, H2, Hin. reflexivity.
  Qed.

  (* ---- Intersection ---- *)
  Fixpoint count_of (cnt : list (A * nat)) (x : A) : nat :=
    match cnt with
    | [] => 0
    | (k, n) :: t => if eqb x k then n else count_of t x
    end.

  Definition cnt_ok (cnt : list (A * nat)) : Prop :=
    NoDup (map fst cnt) /\ forall k n, In (k, n) cnt -> 0 < n.

  Lemma incr_spec cnt e :
    cnt_ok cnt ->
    cnt_ok (incr eqb cnt e)
    /\ (forall x, count_of (incr eqb cnt e) x = count_of cnt x + (if eqb x e then 1 else 0))
    /\ (forall x, In x (map fst (incr eqb cnt e)) <-> In x (map fst cnt) \/ x = e).
  Proof.
    induction cnt as [|[k n] t IH]; intros [Hnd Hpos].
    - simpl. split; [split|split].
      + constructor; [intros []|constructor].
      + intros k n [H|[]]. injection H as <- <-. lia.
      + intros x. destruct (eqb x e); reflexivity.
      + intros x. split.
        * intros [ <- | [] ]. tauto.
        * intros [ [] | -> ]. tauto.
    - cbn [incr]. destruct (eqb_spec e k) as [->|Hne].
      + split; [split|split].
        * exact Hnd.
        * intros k' n' [H|H]; [injection H as <- <-; lia|]. apply (Hpos k' n'). right. exact H.
        * intros x. simpl. destruct (eqb_spec x k) as [->|Hxk]; lia.
        * intros x. simpl. split; [tauto|]. intros [H | -> ]; tauto.
      + assert (Hok : cnt_ok t).
        { split; [inversion Hnd; assumption|]. intros k' n' H. apply (Hpos k' n'). right. exact H. }
        destruct (IH Hok) as ((Hnd' & Hpos') & Hc & Hk).
        split; [split|split].
        * simpl. constructor; [|exact Hnd'].
          rewrite Hk. inversion Hnd as [|? ? Hnk Hnt]. subst. simpl in Hnk. intros [Hi|Hi]; [tauto|congruence].
        * intros k' n' [H|H]; [injection H as <- <-; apply (Hpos k n); left; reflexivity|].
          apply (Hpos' k' n'). exact H.
        * intros x. simpl. destruct (eqb_spec x k) as [->|Hxk].
          -- destruct (eqb_spec k e); [congruence|lia].
          -- apply Hc.
        * intros x. simpl. rewrite Hk. tauto.
  Qed.

  Lemma count_of_pos cnt x : cnt_ok cnt -> (0 < count_of cnt x <-> In x (map fst cnt)).
  Proof.
    induction cnt as [|[k n] t IH]; intros [Hnd Hpos]; simpl; [split; [lia|tauto]|].
    assert (Hok : cnt_ok t).
    { split; [inversion Hnd; assumption|]. intros k' n' H. apply (Hpos k' n'). right. exact H. }
    destruct (eqb_spec x k) as [->|Hne].
    - split; [tauto|]. intros _. apply (Hpos k n). left. reflexivity.
    - rewrite (IH Hok). split; [tauto|]. intros [H|H]; [congruence|exact H].
  Qed.

  Lemma count_slice_fold s : forall cnt seen,
    cnt_ok cnt ->
    let cnt' := fst (fold_left (fun '(cnt, seen) e =>
                      if mem e seen then (cnt, seen) else (incr eqb cnt e, e :: seen))
                   s (cnt, seen)) in
    cnt_ok cnt'
    /\ forall x, count_of cnt' x = count_of cnt x + (if mem x s && negb (mem x seen) then 1 else 0).
  Proof.
    induction s as [|e t IH]; intros cnt seen Hok; cbn [fold_left].
    - split; [exact Hok|]. intros x. simpl. lia.
    - destruct (mem e seen) eqn:Hm.
      + destruct (IH cnt seen Hok) as [H1 H2]. split; [exact H1|].
        intros x. rewrite H2. cbn [SliceOps.mem]. destruct (eqb_spec x e) as [->|Hne]; [|reflexivity].
        rewrite Hm. cbn [orb negb]. rewrite andb_false_r.
        destruct (mem e t); reflexivity.
      + destruct (incr_spec cnt e Hok) as (Hok' & Hc & _).
        destruct (IH _ (e :: seen) Hok') as [H1 H2]. split; [exact H1|].
        intros x. rewrite H2, Hc. cbn [SliceOps.mem].
        destruct (eqb_spec x e) as [->|Hne].
        * rewrite Hm. cbn [orb negb]. rewrite andb_false_r. cbn [andb]. lia.
        * cbn [orb]. lia.
  Qed.

  Lemma count_slice_spec cnt s :
    cnt_ok cnt ->
    cnt_ok (count_slice eqb cnt s)
    /\ forall x, count_of (count_slice eqb cnt s) x = count_of cnt x + (if mem x s then 1 else 0).
  Proof.
    intros Hok. destruct (count_slice_fold s cnt [] Hok) as [H1 H2]. split; [exact H1|].
    intros x. unfold count_slice. rewrite H2. simpl. rewrite andb_true_r. reflexivity.
  Qed.

  Lemma count_all ss : forall cnt,
    cnt_ok cnt ->
    cnt_ok (fold_left (count_slice eqb) ss cnt)
    /\ forall x, count_of (fold_left (count_slice eqb) ss cnt) x = count_of cnt x + occ x ss.
  Proof.
    induction ss as [|s t IH]; intros cnt Hok; cbn [fold_left].
    - split; [exact Hok|]. intros x. unfold occ. simpl. lia.
    - destruct (count_slice_spec cnt s Hok) as [H1 H2].
      destruct (IH _ H1) as [H3 H4]. split; [exact H3|].
      intros x. rewrite H4, H2, occ_cons. lia.
  Qed.

  Lemma count_of_In cnt k n : cnt_ok cnt -> In (k, n) cnt -> count_of cnt k = n.
  Proof.
    induction cnt as [|[k' n'] t IH]; intros [Hnd Hpos] Hin; [destruct Hin|].
    assert (Hok : cnt_ok t).
    { split; [inversion Hnd; assumption|]. intros k0 n0 H. apply (Hpos k0 n0). right. exact H. }
    simpl. destruct Hin as [H|H].
    - injection H as -> ->. destruct (eqb_spec k k); congruence.
    - destruct (eqb_spec k k') as [->|Hne]; [|apply IH; assumption].
      exfalso. inversion Hnd as [|? ? Hn _]. apply Hn. apply (in_map fst) in H. exact H.
  Qed.

  Lemma In_count_of cnt k : cnt_ok cnt -> In k (map fst cnt) -> In (k, count_of cnt k) cnt.
  Proof.
    intros Hok Hin. apply in_map_iff in Hin. destruct Hin as ([k' n] & <- & Hin).
    simpl. rewrite (count_of_In cnt k' n Hok Hin). exact Hin.
  Qed.

  Theorem intersection_spec ss :
    NoDup (intersection eqb ss)
    /\ forall x, In x (intersection eqb ss) <-> ss <> [] /\ forall s, In s ss -> In x s.
  Proof.
    assert (Hok0 : cnt_ok []) by (split; [constructor|intros k n []]).
    destruct (count_all ss [] Hok0) as [Hok Hc].
    unfold intersection. set (cnt := fold_left (count_slice eqb) ss []) in *.
    split.
    - destruct Hok as [Hnd _]. clear Hc. induction cnt as [|[k n] t IH]; simpl; [constructor|].
      inversion Hnd as [|? ? Hn Hnd']. subst.
      destruct (n =? length ss); simpl; [constructor|]; auto.
      intros H. apply Hn. apply in_map_iff in H. destruct H as ([k' n'] & Hk & H).
      apply filter_In in H. destruct H as [H _]. simpl in Hk. subst k'.
      apply (in_map fst) in H. exact H.
    - intros x. rewrite in_map_iff. split.
      + intros ([k n] & Hk & H). simpl in Hk. subst k. apply filter_In in H.
        destruct H as [Hin Hn]. simpl in Hn. apply Nat.eqb_eq in Hn.
        pose proof (count_of_In cnt x n Hok Hin) as Hcx. rewrite Hc in Hcx. simpl in Hcx.
        destruct Hok as [_ Hpos]. pose proof (Hpos x n Hin) as Hp.
        split; [intros ->; simpl in *; lia|]. apply occ_all. lia.
      + intros [Hne Hall]. apply occ_all in Hall.
        assert (Hcx : count_of cnt x = length ss) by (rewrite Hc; simpl; lia).
        assert (Hp : 0 < count_of cnt x) by (rewrite Hcx; destruct ss; [congruence|simpl; lia]).
        apply count_of_pos in Hp; [|exact Hok].
        exists (x, count_of cnt x). split; [reflexivity|]. apply filter_In. split.
        * apply In_count_of; assumption.
        * simpl. apply Nat.eqb_eq. exact Hcx.
  Qed.

  Theorem intersection_nil : intersection eqb [] = [].
  Proof. reflexivity. Qed.

  (* ---- Disjoin ---- *)
  Definition disjoin_inv (done : list (list A)) (st : list A * list A) : Prop :=
    NoDup (fst st)
    /\ (forall x, In x (fst st) <-> occ x done = 1)
    /\ (forall x, In x (snd st) <-> 2 <= occ x done).

  Lemma disjoin_step_inv done st s :
    disjoin_inv done st -> disjoin_inv (done ++ [s]) (disjoin_step eqb st s).
  Proof.
    destruct st as [result removed]. intros (Hnd & Hres & Hrem). simpl in *.
    unfold disjoin_step.
    set (r1 := difference eqb result s).
    set (r2 := difference eqb s result).
    set (result1 := union eqb [r1; r2]).
    set (d := difference eqb s result1).
    set (removed' := removed ++ distinct eqb d).
    destruct (difference_spec result s) as [_ Hr1]. fold r1 in Hr1.
    destruct (difference_spec s result) as [_ Hr2]. fold r2 in Hr2.
    destruct (union_spec [r1; r2]) as [_ Hu]. fold result1 in Hu.
    destruct (difference_spec s result1) as [_ Hd]. fold d in Hd.
    destruct (distinct_spec d) as [_ Hdd].
    destruct (difference_spec result1 removed') as [Hnd' Hfin].
    assert (Hu' : forall x, In x result1 <-> In x r1 \/ In x r2).
    { intros x. rewrite Hu. simpl. split.
      - intros (s0 & [ <- | [ <- | []]] & Hx); tauto.
      - intros [H|H]; [exists r1|exists r2]; tauto. }
    assert (Hocc : forall x, occ x (done ++ [s]) = occ x done + (if mem x s then 1 else 0)).
    { intros x. rewrite occ_app, occ_cons. replace (occ x []) with 0 by reflexivity. lia. }
    assert (Hrem' : forall x, In x removed' <-> 2 <= occ x (done ++ [s])).
    { intros x. unfold removed'. rewrite in_app_iff, Hdd, Hd, Hu', Hr1, Hr2, Hrem, Hres, Hocc.
      destruct (mem x s) eqn:Hm.
      - apply mem_In in Hm. split.
        + intros [H|[_ H]]; [lia|]. destruct (Nat.eq_dec (occ x done) 1); [lia|]. exfalso. tauto.
        + intros H. destruct (Nat.eq_dec (occ x done) 1) as [e|ne]; [|left; lia].
          right. split; [exact Hm|]. intros [[_ H']|[_ H']]; tauto.
      - apply mem_false in Hm. split; [intros [H|[H _]]; [lia|tauto]|]. intros H. left. lia. }
    repeat split.
    - exact Hnd'.
    - rewrite Hfin, Hrem', Hu', Hr1, Hr2, Hres, Hocc.
      destruct (mem x s) eqn:Hm.
      + apply mem_In in Hm. intros [[[H1 H2]|[H1 H2]] H3]; [tauto|]. lia.
      + apply mem_false in Hm. intros [[[H1 H2]|[H1 H2]] H3]; [lia|tauto].
    - rewrite Hfin, Hrem', Hu', Hr1, Hr2, Hres, Hocc.
      destruct (mem x s) eqn:Hm.
      + apply mem_In in Hm. intros H. split; [|lia]. right. split; [exact Hm|lia].
      + apply mem_false in Hm. intros H. split; [|lia]. left. split; [lia|exact Hm].
    - simpl. apply Hrem'.
    - simpl. apply Hrem'.
  Qed.

  Lemma disjoin_fold rest : forall done st,
    disjoin_inv done st -> disjoin_inv (done ++ rest) (fold_left (disjoin_step eqb) rest st).
  Proof.
    induction rest as [|s t IH]; intros done st H; cbn [fold_left].
    - rewrite app_nil_r. exact H.
    - replace (done ++ s :: t) with ((done ++ [s]) ++ t) by (rewrite <- app_assoc; reflexivity).
      apply IH. apply disjoin_step_inv. exact H.
  Qed.

  Theorem disjoin_spec ss :
    NoDup (disjoin eqb ss) /\ forall x, In x (disjoin eqb ss) <-> occ x ss = 1.
  Proof.
    destruct ss as [|s0 rest].
    - simpl. split; [constructor|]. intros x. unfold occ. simpl. split; [tauto|discriminate].
    - assert (H0 : disjoin_inv [s0] (distinct eqb s0, [])).
      { destruct (distinct_spec s0) as [Hnd Hin]. repeat split; simpl.
        - exact Hnd.
        - rewrite Hin. intros H. apply mem_In in H. rewrite occ_cons, H. reflexivity.
        - rewrite Hin, occ_cons. unfold occ at 1. simpl.
          destruct (mem x s0) eqn:Hm; [intros _; apply mem_In; exact Hm|discriminate].
        - tauto.
        - rewrite occ_cons. unfold occ. simpl. destruct (mem x s0); simpl; lia. }
      pose proof (disjoin_fold rest [s0] _ H0) as (Hnd & Hres & _).
      simpl in *. split; [exact Hnd|exact Hres].
  Qed.
End SetOps.
