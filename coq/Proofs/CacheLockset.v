(* Lockset obligations for storage/fifoMapCache.go (property C08), over the skeleton REGENERATED from the Go
   source on every run (Gen/CacheSkeleton_gen.v, translator/lockskel in field mode): per method, under which
   of currentPartitionMux (RWMutex) / sweepingMux (Mutex) each of the fields partitions, valuePartitionIndex,
   currentPartitionId, maxPartitions, partitionCapacity, config is read or written.  A call into a
   GenericStack / SafeMap method is a READ of the field holding the pointer (the callee locks internally:
   C11's and C07's subject).  `go f.Sweep()` is another instance of the method Sweep (the semantics of
   Lib/Conc.v lets any number of instances of any method run concurrently).  The skeleton has one entry per EXPORTED
   method (private helpers such as getCurrentPartition are analysed in place) plus "NewFifoMapCache.go1", the ticker
   goroutine the constructor starts; locks and fields are found by TYPE and printed under role names, so private
   renames and helper extractions do not change it.

   (a) Without the methods Clear and Resize the skeleton passes [lockset_check]: the generated counterpart of
       C08_partial_race_free_core, which rests on hand-written footprints.
   (b) The full skeleton fails, and EVERY offending (writer, other party, field) triple has Clear or Resize on
       one side: known finding K1, derived from the source.  Any NEW unlocked conflict (say, Sweep or
       getCurrentPartition's fast path losing its RLock) makes (a) or (b) stop compiling. *)
From Coq Require Import List String Bool.
From TC.Lib Require Import Conc LocksetDiag.
From TC.Gen Require Import CacheSkeleton_gen.
Import ListNotations.
Local Open Scope string_scope.

Definition k1_methods : list string := ["Clear"; "Resize"].

Definition cache_core_skeleton : skeleton := without k1_methods cache_skeleton.

(* the methods that remain *)
Eval vm_compute in map fst cache_core_skeleton.

Theorem cache_core_race_free : race_free cache_core_skeleton.
Proof. apply lockset_sound. vm_compute. reflexivity. Qed.

Example cache_core_offending_nil : offending cache_core_skeleton = []. Proof. vm_compute. reflexivity. Qed.

Example cache_full_lockset_false : lockset_check cache_skeleton = false. Proof. vm_compute. reflexivity. Qed.

(* the offending (writer method, other method, field) triples of the full skeleton, computed from the source *)
Definition cache_offending : list triple := offending cache_skeleton.
Eval vm_compute in cache_offending.

(* the fields involved, and the unlocked readers on the other side *)
Definition cache_offending_fields : list string :=
  nodup string_dec (map snd cache_offending).
Eval vm_compute in cache_offending_fields.

Example cache_offending_nonempty : cache_offending <> []. Proof. vm_compute. discriminate. Qed.

(* K1 is the ONLY lockset failure of the cache: every offending triple has Clear or Resize as the writer or as
   the other party *)
Theorem cache_races_are_clear_resize_only : forall w o f,
  In (w, o, f) (offending_all cache_skeleton) -> In w k1_methods \/ In o k1_methods.
Proof. apply all_involve_spec. vm_compute. reflexivity. Qed.

(* ... and the writer is always Clear or Resize: nobody else writes a shared field outside a sufficient lock *)
Theorem cache_unprotected_writers_are_clear_resize : forall w o f,
  In (w, o, f) (offending_all cache_skeleton) -> In w k1_methods.
Proof. apply all_writers_spec. vm_compute. reflexivity. Qed.

(* K1 exactly as it is documented (lib/props/C08.py, notes/C08.md): the writer is Clear or Resize, the other party
   is one of the methods that read the swapped fields WITHOUT any lock — never Sweep or getCurrentPartition, which
   take currentPartitionMux — and the field is one of the four that Clear/Resize replace *)
Definition k1_unlocked_readers : list string :=
  ["Capacity"; "Contains"; "Get"; "Set"; "Delete"; "Len"; "Keys"; "Values"; "Resize"].
Definition k1_fields : list string := ["partitions"; "valuePartitionIndex"; "maxPartitions"; "partitionCapacity"].

Theorem cache_k1_exact : forall w o f,
  In (w, o, f) (offending_all cache_skeleton) -> In w k1_methods /\ In o k1_unlocked_readers /\ In f k1_fields.
Proof. apply all_within_spec. vm_compute. reflexivity. Qed.

(* sanity: what the skeleton says about the F15 shape (getCurrentPartition is a private helper, analysed in place
   inside Set): the fast path reads currentPartitionId under RLock, the slow path re-reads and writes it under Lock *)
Definition has_acc (lc : string) (w : bool) (accs : list access) : bool :=
  existsb (fun a => String.eqb (loc a) lc && Bool.eqb (wr a) w) accs.

(* stated on the SET of accesses of a section (their order depends on how the source is written) *)
Example cache_getCurrentPartition_shape :
  existsb (fun ms => String.eqb (fst ms) "Set" &&
    existsb (fun s => match s with
                      | Sec [(l, Rd)] accs =>
                          String.eqb l "currentPartitionMux" && has_acc "partitions" false accs
                          && has_acc "currentPartitionId" false accs && has_acc "partitionCapacity" false accs
                          && negb (existsb wr accs)
                      | _ => false end) (snd ms) &&
    existsb (fun s => match s with
                      | Sec [(l, Wr)] accs =>
                          String.eqb l "currentPartitionMux" && has_acc "currentPartitionId" true accs
                          && has_acc "currentPartitionId" false accs
                      | _ => false end) (snd ms)) cache_skeleton = true.
Proof. vm_compute. reflexivity. Qed.

Print Assumptions cache_core_race_free.
Print Assumptions cache_races_are_clear_resize_only.
