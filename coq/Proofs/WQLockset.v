(* Lockset obligation for workqueue/queue.go (property C14), over the skeleton REGENERATED from the Go source
   on every run (Gen/WQSkeleton_gen.v): the accesses to Queue.errorSubscribers — appended in Errors(), copied by the
   error-monitor goroutine that start() spawns (an entry of its own: "NewQueue.go1.go1") — and
   the mode of errSubScriberMux held around them.  Every other method of Queue appears with the sections in which it
   touches the slice (none).  On the pinned code (before fix F14) the monitor ranged over the slice without the
   mutex and this file does not compile. *)
From Coq Require Import List String Bool.
From TC.Lib Require Import Conc LocksetDiag.
From TC.Gen Require Import WQSkeleton_gen.
Import ListNotations.
Local Open Scope string_scope.

Theorem wq_err_race_free : race_free wq_err_skeleton.
Proof. apply lockset_sound. vm_compute. reflexivity. Qed.

(* non-vacuity: the two parties are really there — the writer Errors, and some OTHER entry (the monitor goroutine:
   "NewQueue.go1.go1", the first goroutine started by the goroutine `go wq.start()` of the constructor) that reads the
   slice — both under the mutex.  Stated without the goroutine's name, which depends on the order of go statements. *)
Example wq_err_parties :
  In ("Errors", [Sec [("errSubScriberMux", Wr)]
                     [{| loc := "errorSubscribers"; wr := false |}; {| loc := "errorSubscribers"; wr := true |}]])
     wq_err_skeleton
  /\ exists name, name <> "Errors"
        /\ In (name, [Sec [("errSubScriberMux", Wr)] [{| loc := "errorSubscribers"; wr := false |}]]) wq_err_skeleton.
Proof.
  split; [cbv [wq_err_skeleton]; simpl; repeat (first [left; reflexivity | right])|].
  assert (H : existsb (fun ms => negb (String.eqb (fst ms) "Errors") &&
                match snd ms with
                | [Sec [(l, Wr)] [a]] => String.eqb l "errSubScriberMux" && String.eqb (loc a) "errorSubscribers" && negb (wr a)
                | _ => false
                end) wq_err_skeleton = true) by (vm_compute; reflexivity).
  apply existsb_exists in H as ([n secs] & Hin & H). simpl in H. apply andb_prop in H as [Hn H].
  exists n. split.
  - intros ->. rewrite String.eqb_refl in Hn. discriminate.
  - destruct secs as [|[[|[l [|]] [|]] [|[la wa] [|]]|] [|]]; try discriminate.
    apply andb_prop in H as [H Hw]. apply andb_prop in H as [H1 H2].
    apply String.eqb_eq in H1, H2. simpl in *. subst. destruct wa; [discriminate|]. exact Hin.
Qed.

(* every access to the slice anywhere in queue.go happens with the mutex held *)
Example wq_err_all_locked :
  forallb (fun s => match s with
                    | Sec h accs => match accs with [] => true | _ => holds_w "errSubScriberMux" h end
                    | Unknown => false
                    end) (all_sections wq_err_skeleton) = true.
Proof. vm_compute. reflexivity. Qed.

(* EXPLORATION ONLY — no property depends on this: what the skeleton says about two other shared fields of Queue.
   [breaked] is a plain bool written by Break and read by start()'s drain loop; the heap behind [workQueue] has no
   lock and is used by the dispatcher (start) and by Dequeue / SetPriority on caller goroutines (C16 restricts those
   calls to an idle dispatcher).  ("start" vs "start" is an artefact: start runs once.) *)
Definition wq_shared_lockset_ok : bool := lockset_check wq_shared_skeleton.
Eval vm_compute in wq_shared_lockset_ok.
Eval vm_compute in offending wq_shared_skeleton.

Print Assumptions wq_err_race_free.
