(* Lockset obligation for workqueue/queue.go (property C14), over the skeleton REGENERATED from the Go source
   on every run (Gen/WQSkeleton_gen.v): the accesses to Queue.errorSubscribers — appended in Errors(), copied by the
   error-monitor goroutine that start() spawns (pseudo-method "start.func2", Go's own name for that closure) — and
   the mode of errSubScriberMux held around them.  Every other method of Queue appears with the sections in which it
   touches the slice (none).  On the pinned code (before fix F14) the monitor ranged over the slice without the
   mutex and this file does not compile. *)
From Coq Require Import List String Bool.
From TC.Lib Require Import Conc LocksetDiag.
From TC.Gen Require Import WQSkeleton_gen.
Import ListNotations.
Local Open Scope string_scope.

Theorem wq_err_race_free : race_free wq_err_skeleton.
Proof. apply lockset_sound. vm_compute. reflexivity. Qed.

(* non-vacuity: the two parties are really there, the writer and the reader, both under the mutex *)
Example wq_err_parties :
  In ("Errors", [Sec [("errSubScriberMux", Wr)]
                     [{| loc := "errorSubscribers"; wr := false |}; {| loc := "errorSubscribers"; wr := true |}]])
     wq_err_skeleton
  /\ In ("start.func2", [Sec [("errSubScriberMux", Wr)] [{| loc := "errorSubscribers"; wr := false |}]])
        wq_err_skeleton.
Proof. split; cbv [wq_err_skeleton]; simpl; repeat (first [left; reflexivity | right]). Qed.

(* every access to the slice anywhere in queue.go happens with the mutex held *)
Example wq_err_all_locked :
  forallb (fun s => match s with
                    | Sec h accs => match accs with [] => true | _ => holds_w "errSubScriberMux" h end
                    | Unknown => false
                    end) (all_sections wq_err_skeleton) = true.
Proof. vm_compute. reflexivity. Qed.

(* EXPLORATION ONLY — no property depends on this: what the skeleton says about two other shared fields of Queue.
   [breaked] is a plain bool written by Break and read by start()'s drain loop; the heap behind [workQueue] has no
   lock and is used by the dispatcher (start) and by Dequeue / SetPriority on caller goroutines (C16 restricts those
   calls to an idle dispatcher).  ("start" vs "start" is an artefact: start runs once.) *)
Definition wq_shared_lockset_ok : bool := lockset_check wq_shared_skeleton.
Eval vm_compute in wq_shared_lockset_ok.
Eval vm_compute in offending wq_shared_skeleton.

Print Assumptions wq_err_race_free.
