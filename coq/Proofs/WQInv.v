(* Reachability and the basic invariants of the work-queue model (fixed code). *)
From Coq Require Import List Arith ZArith Bool Lia Permutation.
From TC.Lib Require Import GoHeap GoHeapProofs.
From TC.Model Require Import WQ.
From TC.Proofs Require Import WQHeap.
Import ListNotations.

Inductive reach (v : variant) : state -> Prop :=
| reach_init W L : reach v (init W L)
| reach_step s l s' : reach v s -> step v s l = Some s' -> reach v s'.

Lemma run_reach v ls : forall s s', reach v s -> run v s ls = Some s' -> reach v s'.
Proof.
  induction ls as [|l t IH]; simpl; intros s s' R H.
  - injection H as <-. exact R.
  - destruct (step v s l) as [s1|] eqn:E; [|discriminate]. eapply IH; [|exact H]. eapply reach_step; eauto.
Qed.

Lemma reach_run v s : reach v s -> exists W L ls, run v (init W L) ls = Some s.
Proof.
  induction 1 as [W L|s l s' R IH E].
  - exists W, L, []. reflexivity.
  - destruct IH as (W & L & ls & H). exists W, L, (ls ++ [l]).
    clear R. revert H. generalize (init W L). induction ls as [|a t IHt]; simpl; intros s0 H.
    + injection H as ->. rewrite E. reflexivity.
    + destruct (step v s0 a); [|discriminate]. apply IHt, H.
Qed.

(* ---- cracking a step ---- *)
Ltac crack H :=
  repeat match type of H with
    | match ?x with _ => _ end = Some _ => destruct x eqn:?; try discriminate
    | (if ?b then _ else _) = Some _ => destruct b eqn:?; try discriminate
    | (let '(_, _) := ?x in _) = Some _ => destruct x eqn:?
    end.

Ltac step_inv H :=
  unfold step in H;
  match type of H with (if ?b then _ else _) = _ => destruct b eqn:?; [discriminate|] end;
  match type of H with match ?l with _ => _ end = _ => destruct l end;
  crack H; unfold do_panic in *;
  try (injection H as <-).

(* ---- decide ---- *)
Lemma decide_spec vals s x s1 :
  decide fixed vals s = Some (x, s1) ->
  exists h2, h_pop wlt set_pos (fst (adjust fixed vals (heap s))) = Some (x, h2) /\
             s1 = ev (EvDecide (heap s) vals (consults (heap s)) x) (set_heap h2 s).
Proof.
  unfold decide. rewrite adjust_fixed. cbn [fst].
  destruct (h_pop _ _ _) as [[y h2]|]; [|discriminate].
  intros H. injection H as <- <-. eauto.
Qed.

(* ---- heap invariant: heap order and position fields, in every reachable state ---- *)
Definition hinv (s : state) : Prop := hok (heap s) /\ pok (heap s).

Lemma hinv_init W L : hinv (init W L).
Proof. split; [apply heap_ok_nil | apply positions_ok_nil]. Qed.

Lemma map_pos_pok (f : item -> item) l : (forall x, ipos (f x) = ipos x) -> pok l -> pok (map f l).
Proof.
  intros Hf H i x Hx. rewrite nth_error_map in Hx.
  destruct (nth_error l i) as [y|] eqn:E; [|discriminate]. injection Hx as <-. rewrite Hf. exact (H i y E).
Qed.

Lemma hinv_decide vals s x s1 : hinv s -> decide fixed vals s = Some (x, s1) -> hinv s1 /\ ipos x = (-1)%Z.
Proof.
  intros [Ho Hp] H. apply decide_spec in H. destruct H as (h2 & Hpop & ->). unfold hinv. cbn.
  pose proof (adjust_ok vals (heap s)) as Ha.
  pose proof (adjust_pos vals (heap s) Hp) as Hb.
  destruct (w_pop_ok _ _ _ Ha Hpop) as (Ho2 & _). destruct (w_pop_pos _ _ _ Hb Hpop) as (Hp2 & Hx).
  repeat split; assumption.
Qed.

Lemma hinv_step s l s' : hinv s -> step fixed s l = Some s' -> hinv s'.
Proof.
  intros [Ho Hp] H. step_inv H; unfold hinv; cbn; try (split; assumption);
    try (match goal with E : heap s = _ |- _ => rewrite E in * end; split; assumption).
  - (* Dequeue *)
    assert (E : l1 = fst (adjust fixed vals l0)) by (rewrite Heqp1; reflexivity). subst l1.
    split; [apply adjust_ok|apply adjust_pos].
    destruct (0 <=? ipos i)%Z.
    + destruct (h_remove wlt set_pos (heap s) (Z.to_nat (ipos i))) as [[x h']|] eqn:Er; [|discriminate].
      injection Heqo0 as <- <-. eapply w_remove_pos; eauto.
    + injection Heqo0 as <- <-. exact Hp.
  - (* SetPrio *)
    assert (E : l = fst (adjust fixed vals (h_fix wlt set_pos
              (map (fun x => if iid x =? id then set_prio p x else x) (heap s)) (Z.to_nat (ipos i)))))
      by (rewrite Heqp0; reflexivity). subst l.
    split; [apply adjust_ok|apply adjust_pos]. apply w_fix_pos, map_pos_pok; [|exact Hp].
    intros x. destruct (iid x =? id); reflexivity.
  - (* DPush *) split; [apply w_push_ok | apply w_push_pos]; assumption.
  - (* DFullTok *)
    match goal with D : decide _ _ _ = Some _ |- _ =>
      eapply hinv_decide in D; [destruct D as [[? ?] _]; split; assumption|] end.
    unfold hinv; cbn; try rewrite Heql; split; assumption.
  - (* DFullSend *) split; [apply w_push_ok | apply w_push_pos]; assumption.
  - (* DTok *)
    match goal with D : decide _ _ _ = Some _ |- _ =>
      eapply hinv_decide in D; [destruct D as [[? ?] _]; split; assumption|] end.
    unfold hinv; cbn; try rewrite Heql; split; assumption.
  - (* DCancel *) split; [apply heap_ok_nil | apply positions_ok_nil].
Qed.

Theorem hinv_reach s : reach fixed s -> hinv s.
Proof. induction 1; [apply hinv_init|eapply hinv_step; eauto]. Qed.
