(* Proofs about Model/Middleware.v: BundleMiddleware order, transparency of LogRequest / LogResponse
   (a logical relation over handlers, writers and middleware), and the route table. *)
From Coq Require Import List ZArith Bool Arith Lia Permutation.
From TC.Model Require Import Middleware.
Import ListNotations.

(* ================= BundleMiddleware ================= *)

Definition compose_all (ms : list middleware) (next : handler) : handler :=
  fold_right (fun m acc => m acc) next ms.

Lemma firstn_S_nth {A} (d : A) (l : list A) i :
  i < length l -> firstn (S i) l = firstn i l ++ [nth i l d].
Proof.
  revert i; induction l as [|x t IH]; intros i Hi; simpl in Hi; [lia|].
  destruct i as [|i]; [reflexivity|].
  change (firstn (S (S i)) (x :: t)) with (x :: firstn (S i) t).
  rewrite (IH i) by lia. reflexivity.
Qed.

Lemma bundle_loop_spec ms cnt wrapped :
  cnt <= length ms -> bundle_loop ms cnt wrapped = compose_all (firstn cnt ms) wrapped.
Proof.
  revert wrapped; induction cnt as [|i IH]; intros wrapped Hc; [reflexivity|].
  cbn [bundle_loop]. rewrite IH by lia.
  rewrite (firstn_S_nth ((fun h => h) : middleware)) by lia.
  unfold compose_all. rewrite fold_right_app. reflexivity.
Qed.

Lemma bundle_spec ms next : bundle ms next = compose_all ms next.
Proof.
  unfold bundle. destruct ms as [|m t]; [reflexivity|].
  rewrite bundle_loop_spec by lia. rewrite firstn_all. reflexivity.
Qed.

Definition log_all (es : list event) (s : world) : world := fold_left (fun s e => logev e s) es s.

Lemma log_all_app es1 es2 s : log_all (es1 ++ es2) s = log_all es2 (log_all es1 s).
Proof. unfold log_all. apply fold_left_app. Qed.

Lemma w_log_log_all es s : w_log (log_all es s) = w_log s ++ es.
Proof.
  revert s; induction es as [|e t IH]; intros s; simpl; [now rewrite app_nil_r|].
  change (w_log (log_all t (logev e s)) = w_log s ++ e :: t).
  rewrite IH. simpl. rewrite <- app_assoc. reflexivity.
Qed.

(* recording middlewares i1..in around any handler: enter i1..in, the handler, exit in..i1 *)
Lemma bundle_trace ids (h : handler) w s :
  bundle (map rec_mw ids) h w s =
  log_all (map EExit (rev ids)) (h w (log_all (map EEnter ids) s)).
Proof.
  rewrite bundle_spec. revert s; induction ids as [|i t IH]; intros s; [reflexivity|].
  cbn [map compose_all fold_right rev]. unfold rec_mw at 1.
  fold (compose_all (map rec_mw t) h). rewrite IH.
  rewrite map_app, log_all_app. reflexivity.
Qed.

(* ================= transparency: the logical relation ================= *)

(* two worlds are indistinguishable to handlers, clients and recording middleware *)
Definition R (s1 s2 : world) : Prop :=
  w_req s1 = w_req s2 /\ w_resp s1 = w_resp s2 /\ visible_log s1 = visible_log s2.

Definition wrel (w1 w2 : writer) : Prop :=
  (forall k v s1 s2, R s1 s2 -> R (wr_set w1 k v s1) (wr_set w2 k v s2)) /\
  (forall s1 s2, R s1 s2 -> wr_hdr w1 s1 = wr_hdr w2 s2) /\
  (forall c s1 s2, R s1 s2 -> R (wr_status w1 c s1) (wr_status w2 c s2)) /\
  (forall bs s1 s2, R s1 s2 -> R (wr_write w1 bs s1) (wr_write w2 bs s2)) /\
  (forall s1 s2, R s1 s2 -> R (wr_flush w1 s1) (wr_flush w2 s2)).

Definition hrel (h1 h2 : handler) : Prop :=
  forall w1 w2, wrel w1 w2 -> forall s1 s2, R s1 s2 -> R (h1 w1 s1) (h2 w2 s2).

Definition mrel (m1 m2 : middleware) : Prop :=
  forall h1 h2, hrel h1 h2 -> hrel (m1 h1) (m2 h2).

(* a middleware is transparent when it is related to "no middleware at all" *)
Definition transparent (m : middleware) : Prop := mrel m (fun h => h).
(* a middleware is well behaved when it cannot tell related worlds / writers / handlers apart *)
Definition respectful (m : middleware) : Prop := mrel m m.

Lemma R_refl s : R s s.
Proof. repeat split. Qed.
Lemma R_sym s1 s2 : R s1 s2 -> R s2 s1.
Proof. intros (a & b & c); repeat split; congruence. Qed.
Lemma R_trans s1 s2 s3 : R s1 s2 -> R s2 s3 -> R s1 s3.
Proof. intros (a & b & c) (a' & b' & c'); repeat split; congruence. Qed.

Lemma visible_logev e s :
  visible_log (logev e s) = visible_log s ++ (if is_logger_event e then [] else [e]).
Proof.
  unfold visible_log, logev; simpl. rewrite filter_app. simpl.
  destruct (is_logger_event e); reflexivity.
Qed.

Lemma R_logev e s1 s2 : R s1 s2 -> R (logev e s1) (logev e s2).
Proof.
  intros (a & b & c). repeat split; simpl; auto.
  rewrite !visible_logev. congruence.
Qed.

Lemma R_logev_hidden e s : is_logger_event e = true -> R (logev e s) s.
Proof.
  intros He. repeat split; simpl. rewrite visible_logev, He. apply app_nil_r.
Qed.

Lemma R_set_cells c s : R (set_cells c s) s.
Proof. repeat split. Qed.

Lemma R_set_body b s1 s2 : R s1 s2 -> R (set_body b s1) (set_body b s2).
Proof.
  intros (a & b' & c). unfold set_body, set_req. repeat split; simpl; auto.
  rewrite a. reflexivity.
Qed.

Lemma R_set_resp_f (f : respst -> respst) s1 s2 :
  R s1 s2 -> R (set_resp (f (w_resp s1)) s1) (set_resp (f (w_resp s2)) s2).
Proof. intros (a & b & c). repeat split; simpl; auto. rewrite b. reflexivity. Qed.

Lemma base_status_R c s1 s2 : R s1 s2 -> R (base_status c s1) (base_status c s2).
Proof.
  intros HR. pose proof HR as (a & b & c'). unfold base_status. rewrite b.
  destruct (p_sent (w_resp s2)); [exact HR|].
  destruct (is_info c); repeat split; simpl; auto.
Qed.

Lemma wrel_base : wrel base base.
Proof.
  unfold wrel. cbn [base wr_set wr_hdr wr_status wr_write wr_flush]. repeat apply conj.
  - intros k v s1 s2 (a & b & c). unfold base_set. rewrite b. repeat split; simpl; auto.
  - intros s1 s2 (a & b & c). rewrite b. reflexivity.
  - intros c s1 s2 H. apply (base_status_R c s1 s2 H).
  - intros bs s1 s2 H. unfold base_write. destruct (base_status_R 200 s1 s2 H) as (a & b & c).
    rewrite b. repeat split; simpl; auto.
  - intros s1 s2 H. apply (base_status_R 200 s1 s2 H).
Qed.

(* fundamental lemma: every handler program is related to itself *)
Lemma run_h_hrel p : hrel (run_h p) (run_h p).
Proof.
  induction p as [|i k IH|k IH|n k IH|k IH|k IH|key v k IH|c k IH|bs k IH|k IH];
    intros w1 w2 Hw s1 s2 HR; cbn [run_h].
  - exact HR.
  - apply IH; auto. apply R_logev, HR.
  - pose proof HR as (a & _). rewrite a. apply IH; auto. apply R_logev, HR.
  - pose proof HR as (a & _). rewrite a. apply IH; auto. apply R_logev, R_set_body, HR.
  - pose proof HR as (a & _). rewrite a. apply IH; auto. apply R_logev, R_set_body, HR.
  - pose proof Hw as (_ & W2 & _). rewrite (W2 s1 s2 HR).
    apply IH; auto. apply R_logev, HR.
  - apply IH; auto. destruct Hw as (W1 & _). apply W1, HR.
  - apply IH; auto. destruct Hw as (_ & _ & W3 & _). apply W3, HR.
  - apply IH; auto. destruct Hw as (_ & _ & _ & W4 & _). apply W4, HR.
  - apply IH; auto. destruct Hw as (_ & _ & _ & _ & W5). apply W5, HR.
Qed.

(* LogRequest (fixed) changes nothing a handler, a client or another middleware can see *)
Lemma log_request_fx_R s : R (log_request_fx s) s.
Proof.
  unfold log_request_fx.
  eapply R_trans; [apply R_logev_hidden; reflexivity|].
  destruct s as [[m p h b] rs cs lg]. unfold set_body, set_req; simpl. apply R_refl.
Qed.

Lemma log_request_transparent : transparent log_request.
Proof.
  intros h1 h2 Hh w1 w2 Hw s1 s2 HR. unfold log_request.
  apply Hh; auto. eapply R_trans; [apply log_request_fx_R|exact HR].
Qed.

Lemma wrel_wrap id w1 w2 : wrel w1 w2 -> wrel (wrap_writer id w1) w2.
Proof.
  intros (W1 & W2 & W3 & W4 & W5). unfold wrel. cbn [wrap_writer wr_set wr_hdr wr_status wr_write wr_flush].
  split; [exact W1|]. split; [exact W2|]. split; [|split; [|exact W5]].
  - intros c s1 s2 HR. apply W3. eapply R_trans; [apply R_set_cells|exact HR].
  - intros bs s1 s2 HR. apply W4. eapply R_trans; [apply R_set_cells|exact HR].
Qed.

Lemma log_response_transparent : transparent log_response.
Proof.
  intros h1 h2 Hh w1 w2 Hw s1 s2 HR. unfold log_response.
  set (id := length (w_cells s1)).
  set (s1' := set_cells (w_cells s1 ++ [(200%Z, [])]) s1).
  assert (HR' : R (h1 (wrap_writer id w1) s1') (h2 w2 s2)).
  { apply Hh; [apply wrel_wrap, Hw|]. eapply R_trans; [apply R_set_cells|exact HR]. }
  destruct (cell_get id (h1 (wrap_writer id w1) s1')) as [st b].
  eapply R_trans; [apply R_logev_hidden; reflexivity|exact HR'].
Qed.

Lemma rec_mw_respectful i : respectful (rec_mw i).
Proof.
  intros h1 h2 Hh w1 w2 Hw s1 s2 HR. unfold rec_mw.
  apply R_logev. apply Hh; auto. apply R_logev, HR.
Qed.

Lemma script_mw_respectful pre post : respectful (script_mw pre post).
Proof.
  intros h1 h2 Hh w1 w2 Hw s1 s2 HR. unfold script_mw.
  apply run_h_hrel; auto. apply Hh; auto. apply run_h_hrel; auto.
Qed.

(* transparent middleware is in particular respectful of related handlers *)
Lemma log_request_respectful : respectful log_request.
Proof.
  intros h1 h2 Hh w1 w2 Hw s1 s2 HR. unfold log_request. apply Hh; auto.
  eapply R_trans; [apply log_request_fx_R|].
  eapply R_trans; [exact HR|]. apply R_sym, log_request_fx_R.
Qed.

(* lists of middleware: ms1 is ms2 with transparent members inserted anywhere *)
Inductive mlist_rel : list middleware -> list middleware -> Prop :=
| mlr_nil : mlist_rel [] []
| mlr_both m1 m2 t1 t2 : mrel m1 m2 -> mlist_rel t1 t2 -> mlist_rel (m1 :: t1) (m2 :: t2)
| mlr_skip m t1 t2 : transparent m -> mlist_rel t1 t2 -> mlist_rel (m :: t1) t2.

Lemma compose_all_rel ms1 ms2 h1 h2 :
  mlist_rel ms1 ms2 -> hrel h1 h2 -> hrel (compose_all ms1 h1) (compose_all ms2 h2).
Proof.
  induction 1 as [|m1 m2 t1 t2 Hm _ IH|m t1 t2 Hm _ IH]; intros Hh; simpl.
  - exact Hh.
  - apply Hm, IH, Hh.
  - apply (Hm (compose_all t1 h1) (compose_all t2 h2)), IH, Hh.
Qed.

Definition others_respectful (ds : list mwd) : Prop :=
  forall f, In (DOther f) ds -> respectful f.

Lemma denote_strip_rel ds :
  others_respectful ds -> mlist_rel (map denote ds) (map denote (strip ds)).
Proof.
  induction ds as [|d t IH]; intros Ho; [constructor|].
  assert (Ht : others_respectful t) by (intros f Hf; apply Ho; right; exact Hf).
  destruct d as [| |i|pre post|f]; simpl.
  - apply mlr_skip; [apply log_request_transparent|apply IH, Ht].
  - apply mlr_skip; [apply log_response_transparent|apply IH, Ht].
  - apply mlr_both; [apply rec_mw_respectful|apply IH, Ht].
  - apply mlr_both; [apply script_mw_respectful|apply IH, Ht].
  - apply mlr_both; [apply Ho; left; reflexivity|apply IH, Ht].
Qed.

Lemma finish_R s1 s2 : R s1 s2 -> R (finish s1) (finish s2).
Proof. apply base_status_R. Qed.

(* the transparency theorem in relational form *)
Lemma strip_logging_R ds p s1 s2 :
  others_respectful ds -> R s1 s2 ->
  R (finish (bundle (map denote ds) (run_h p) base s1))
    (finish (bundle (map denote (strip ds)) (run_h p) base s2)).
Proof.
  intros Ho HR. apply finish_R. rewrite !bundle_spec.
  apply (compose_all_rel _ _ _ _ (denote_strip_rel ds Ho) (run_h_hrel p) base base wrel_base s1 s2 HR).
Qed.

Lemma transparent_bundle ds p q :
  others_respectful ds ->
  let a := finish (bundle (map denote ds) (run_h p) base (init_world q)) in
  let b := finish (bundle (map denote (strip ds)) (run_h p) base (init_world q)) in
  client_view a = client_view b /\ visible_log a = visible_log b /\ w_req a = w_req b.
Proof.
  intros Ho a b.
  destruct (strip_logging_R ds p (init_world q) (init_world q) Ho (R_refl _)) as (Ha & Hb & Hc).
  fold a in Ha, Hb, Hc. fold b in Ha, Hb, Hc.
  unfold client_view. rewrite Hb. auto.
Qed.

(* directly applied (not through BundleMiddleware), as in UsingMiddleWare(LogRequest(l)) *)
Lemma transparent_direct (m : middleware) p q :
  transparent m ->
  let a := finish (m (run_h p) base (init_world q)) in
  let b := finish (run_h p base (init_world q)) in
  client_view a = client_view b /\ visible_log a = visible_log b /\ w_req a = w_req b.
Proof.
  intros Hm a b.
  destruct (finish_R _ _ (Hm _ _ (run_h_hrel p) base base wrel_base _ _ (R_refl (init_world q)))) as (Ha & Hb & Hc).
  fold a in Ha, Hb, Hc. fold b in Ha, Hb, Hc. unfold client_view. rewrite Hb. auto.
Qed.

(* ================= route table ================= *)
Section TableProofs.
  Context {P H : Type} (peqb : P -> P -> bool).
  Hypothesis peqb_spec : forall a b, reflect (a = b) (peqb a b).

  Local Notation routes := (@routes P H).
  Local Notation table := (list ((Z * P) * H)).

  Lemma peqb_refl a : peqb a a = true.
  Proof. destruct (peqb_spec a a); congruence. Qed.

  (* lookup through the nested maps *)
  Definition rget (m : Z) (p : P) (r : routes) : option H :=
    match get m r with Some ps => pget peqb p ps | None => None end.

  Lemma get_upd_same {V} k (v : V) l : get k (upd k v l) = Some v.
  Proof.
    induction l as [|[k' v'] t IH]; simpl; [now rewrite Z.eqb_refl|].
    destruct (Z.eqb_spec k k'); simpl; [now rewrite Z.eqb_refl|].
    destruct (Z.eqb_spec k k'); congruence.
  Qed.
  Lemma get_upd_other {V} k k' (v : V) l : k <> k' -> get k' (upd k v l) = get k' l.
  Proof.
    intros Hne. induction l as [|[k2 v2] t IH]; simpl.
    - destruct (Z.eqb_spec k' k); congruence.
    - destruct (Z.eqb_spec k k2); simpl.
      + subst. destruct (Z.eqb_spec k' k2); congruence.
      + destruct (Z.eqb_spec k' k2); auto.
  Qed.
  Lemma pget_pupd_same p (h : H) l : pget peqb p (pupd peqb p h l) = Some h.
  Proof.
    induction l as [|[p' h'] t IH]; simpl; [now rewrite peqb_refl|].
    destruct (peqb_spec p p'); simpl; [now rewrite peqb_refl|].
    destruct (peqb_spec p p'); congruence.
  Qed.
  Lemma pget_pupd_other p p' (h : H) l : p <> p' -> pget peqb p' (pupd peqb p h l) = pget peqb p' l.
  Proof.
    intros Hne. induction l as [|[p2 h2] t IH]; simpl.
    - destruct (peqb_spec p' p); congruence.
    - destruct (peqb_spec p p2); simpl.
      + subst. destruct (peqb_spec p' p2); congruence.
      + destruct (peqb_spec p' p2); auto.
  Qed.

  Lemma rget_add_route m p h r m' p' :
    rget m' p' (add_route peqb m p h r) =
    if Z.eqb m' m && peqb p' p then Some h else rget m' p' r.
  Proof.
    unfold rget, add_route.
    destruct (Z.eqb_spec m' m) as [->|Hm]; simpl.
    - destruct (get m r) as [ps|] eqn:G; rewrite get_upd_same.
      + destruct (peqb_spec p' p) as [->|Hp]; [apply pget_pupd_same|].
        apply pget_pupd_other; congruence.
      + simpl. reflexivity.
    - destruct (get m r) as [ps|] eqn:G; rewrite get_upd_other by congruence; reflexivity.
  Qed.

  Lemma rget_config_gen calls r m p :
    rget m p (fold_left (fun r c => let '(m, p, h) := c in add_route peqb m p h r) calls r)
    = last_added peqb m p calls (rget m p r).
  Proof.
    revert r; induction calls as [|[[m' p'] h] t IH]; intros r; [reflexivity|].
    cbn [fold_left last_added]. rewrite IH, rget_add_route. reflexivity.
  Qed.
  Lemma rget_config calls m p : rget m p (config_of peqb calls) = last_added peqb m p calls None.
  Proof. unfold config_of. rewrite rget_config_gen. reflexivity. Qed.

  (* configuration sequences: getters are inert, the last SetMiddleware wins *)
  Lemma cfg_run_gen (ops : list (@cfg_op P H)) c :
    c_routes (fold_left (cfg_step peqb) ops c)
      = fold_left (fun r c => let '(m, p, h) := c in add_route peqb m p h r) (adds_of ops) (c_routes c)
    /\ c_mw (fold_left (cfg_step peqb) ops c)
      = fold_left (fun acc o => match o with OSetMiddleware f => Some f | _ => acc end) ops (c_mw c).
  Proof.
    revert c; induction ops as [|o t IH]; intros c; [split; reflexivity|].
    cbn [fold_left]. destruct (IH (cfg_step peqb c o)) as (A & B). rewrite A, B.
    destruct o; simpl; split; reflexivity.
  Qed.
  Lemma cfg_run_spec (ops : list (@cfg_op P H)) :
    c_routes (cfg_run peqb ops) = config_of peqb (adds_of ops) /\ c_mw (cfg_run peqb ops) = mw_of_ops ops.
  Proof. unfold cfg_run, config_of, mw_of_ops. apply (cfg_run_gen ops). Qed.

  (* well-formedness of the nested maps: no duplicate keys (Go maps) *)
  Definition keys_nodup {K V} (l : list (K * V)) := NoDup (map fst l).
  Definition routes_wf (r : routes) := keys_nodup r /\ forall m ps, In (m, ps) r -> keys_nodup ps.

  Lemma In_upd {V} k (v : V) l x : In x (upd k v l) -> x = (k, v) \/ In x l.
  Proof.
    induction l as [|[k' v'] t IH]; simpl; [intuition|].
    destruct (Z.eqb k k'); simpl; intuition.
  Qed.
  Lemma map_fst_upd {V} k (v : V) l :
    map fst (upd k v l) = if existsb (Z.eqb k) (map fst l) then map fst l else map fst l ++ [k].
  Proof.
    induction l as [|[k' v'] t IH]; simpl; [reflexivity|].
    destruct (Z.eqb_spec k k'); simpl; [congruence|]. rewrite IH.
    destruct (existsb (Z.eqb k) (map fst t)); reflexivity.
  Qed.
  Lemma existsb_zeqb_false k l : existsb (Z.eqb k) l = false -> ~ In k l.
  Proof.
    intros He Hi. assert (existsb (Z.eqb k) l = true); [|congruence].
    apply existsb_exists. exists k; split; [exact Hi|apply Z.eqb_refl].
  Qed.
  Lemma nodup_snoc {A} (l : list A) x : NoDup l -> ~ In x l -> NoDup (l ++ [x]).
  Proof.
    intros Hn Hx. induction Hn as [|y t Hy Ht IH]; simpl; [constructor; [intros []|constructor]|].
    constructor.
    - rewrite in_app_iff. simpl. intros [Hi|[->|[]]]; [exact (Hy Hi)|]. apply Hx; left; reflexivity.
    - apply IH. intros Hi. apply Hx; right; exact Hi.
  Qed.
  Lemma keys_nodup_upd {V} k (v : V) l : keys_nodup l -> keys_nodup (upd k v l).
  Proof.
    unfold keys_nodup. intros Hn. rewrite map_fst_upd.
    destruct (existsb (Z.eqb k) (map fst l)) eqn:E; [exact Hn|].
    apply nodup_snoc; [exact Hn|apply existsb_zeqb_false, E].
  Qed.
  Lemma map_fst_pupd p (h : H) l :
    map fst (pupd peqb p h l) = if existsb (peqb p) (map fst l) then map fst l else map fst l ++ [p].
  Proof.
    induction l as [|[p' h'] t IH]; simpl; [reflexivity|].
    destruct (peqb_spec p p'); simpl; [congruence|]. rewrite IH.
    destruct (existsb (peqb p) (map fst t)); reflexivity.
  Qed.
  Lemma keys_nodup_pupd p (h : H) l : keys_nodup l -> keys_nodup (pupd peqb p h l).
  Proof.
    unfold keys_nodup. intros Hn. rewrite map_fst_pupd.
    destruct (existsb (peqb p) (map fst l)) eqn:E; [exact Hn|].
    apply nodup_snoc; [exact Hn|].
    intros Hi. assert (existsb (peqb p) (map fst l) = true); [|congruence].
    apply existsb_exists. exists p; split; [exact Hi|apply peqb_refl].
  Qed.
  Lemma get_In {V} k (v : V) l : keys_nodup l -> In (k, v) l -> get k l = Some v.
  Proof.
    unfold keys_nodup. induction l as [|[k' v'] t IH]; simpl; intros Hn Hi; [contradiction|].
    inversion Hn as [|? ? Hx Ht]; subst.
    destruct Hi as [Hi|Hi].
    - inversion Hi; subst. now rewrite Z.eqb_refl.
    - destruct (Z.eqb_spec k k'); [|auto]. subst. exfalso. apply Hx.
      change k' with (fst (k', v)). apply in_map, Hi.
  Qed.
  Lemma get_Some_In {V} k (v : V) l : get k l = Some v -> In (k, v) l.
  Proof.
    induction l as [|[k' v'] t IH]; simpl; [discriminate|].
    destruct (Z.eqb_spec k k'); [intros [= ->]; left; congruence|auto].
  Qed.
  Lemma pget_In p (h : H) l : keys_nodup l -> In (p, h) l -> pget peqb p l = Some h.
  Proof.
    unfold keys_nodup. induction l as [|[p' h'] t IH]; simpl; intros Hn Hi; [contradiction|].
    inversion Hn as [|? ? Hx Ht]; subst.
    destruct Hi as [Hi|Hi].
    - inversion Hi; subst. now rewrite peqb_refl.
    - destruct (peqb_spec p p'); [|auto]. subst. exfalso. apply Hx.
      change p' with (fst (p', h)). apply in_map, Hi.
  Qed.
  Lemma pget_Some_In p (h : H) l : pget peqb p l = Some h -> In (p, h) l.
  Proof.
    induction l as [|[p' h'] t IH]; simpl; [discriminate|].
    destruct (peqb_spec p p'); [intros [= ->]; left; congruence|auto].
  Qed.

  Lemma add_route_wf m p h r : routes_wf r -> routes_wf (add_route peqb m p h r).
  Proof.
    intros (Hk & Hin). unfold add_route.
    destruct (get m r) as [ps|] eqn:G; split; try (apply keys_nodup_upd, Hk).
    - intros m' ps' Hi. apply In_upd in Hi. destruct Hi as [Hi|Hi]; [|eauto].
      inversion Hi; subst. apply keys_nodup_pupd. apply (Hin m). apply get_Some_In, G.
    - intros m' ps' Hi. apply In_upd in Hi. destruct Hi as [Hi|Hi]; [|eauto].
      inversion Hi; subst. unfold keys_nodup; simpl. constructor; [intros []|constructor].
  Qed.
  Lemma config_wf calls : routes_wf (config_of peqb calls).
  Proof.
    unfold config_of.
    assert (G : forall r, routes_wf r ->
      routes_wf (fold_left (fun r c => let '(m, p, h) := c in add_route peqb m p h r) calls r)).
    { induction calls as [|[[m p] h] t IH]; intros r Hr; [exact Hr|]. simpl. apply IH, add_route_wf, Hr. }
    apply G. split; [constructor|intros ? ? []].
  Qed.

  (* membership in the table the provider registers *)
  Lemma In_build_table r mw m p h' :
    routes_wf r ->
    (In ((m, p), h') (build_table r mw) <-> exists h, rget m p r = Some h /\ h' = wrap_with mw h).
  Proof.
    intros (Hk & Hin). unfold build_table, rget. rewrite in_flat_map. split.
    - intros ([m0 ps] & Hi & Hj). simpl in Hj. rewrite in_map_iff in Hj.
      destruct Hj as ([p0 h0] & He & Hp). simpl in He. inversion He; subst.
      exists h0. rewrite (get_In _ _ _ Hk Hi). split; [|reflexivity].
      apply pget_In; [apply (Hin m), Hi|exact Hp].
    - intros (h & Hg & ->). destruct (get m r) as [ps|] eqn:G; [|discriminate].
      exists (m, ps). split; [apply get_Some_In, G|]. simpl. rewrite in_map_iff.
      exists (p, h). split; [reflexivity|apply pget_Some_In, Hg].
  Qed.

  (* ServeMux lookup on ANY table whose membership is characterised by a function, in any order *)
  Definition functional (t : table) (f : Z -> P -> option H) : Prop :=
    forall m p h, In ((m, p), h) t <-> f m p = Some h.

  Lemma find_pat_functional t f m p : functional t f -> find_pat peqb m p t = f m p.
  Proof.
    intros Hf. destruct (f m p) as [h|] eqn:E.
    - assert (Hi : In ((m, p), h) t) by (apply Hf, E).
      assert (Hu : forall h', In ((m, p), h') t -> h' = h).
      { intros h' Hi'. apply Hf in Hi'. congruence. }
      clear Hf E. induction t as [|[[m' p'] h'] t IH]; simpl; [contradiction|].
      destruct (Z.eqb_spec m m'); simpl.
      + destruct (peqb_spec p p').
        * subst. f_equal. apply Hu. left; reflexivity.
        * destruct Hi as [Hi|Hi]; [inversion Hi; congruence|].
          apply IH; [exact Hi|]. intros h'' Hi'. apply Hu. right; exact Hi'.
      + destruct Hi as [Hi|Hi]; [inversion Hi; congruence|].
        apply IH; [exact Hi|]. intros h'' Hi'. apply Hu. right; exact Hi'.
    - assert (Hn : forall h, ~ In ((m, p), h) t).
      { intros h Hi. apply Hf in Hi. congruence. }
      clear Hf E. induction t as [|[[m' p'] h'] t IH]; simpl; [reflexivity|].
      destruct (Z.eqb_spec m m'); simpl.
      + destruct (peqb_spec p p').
        * subst. exfalso. apply (Hn h'). left; reflexivity.
        * apply IH. intros h Hi. apply (Hn h). right; exact Hi.
      + apply IH. intros h Hi. apply (Hn h). right; exact Hi.
  Qed.

  Lemma path_known_functional t f p :
    functional t f -> (path_known peqb p t = true <-> exists m h, f m p = Some h).
  Proof.
    intros Hf. unfold path_known. rewrite existsb_exists. split.
    - intros ([[m p'] h] & Hi & He). simpl in He. destruct (peqb_spec p p'); [|discriminate].
      subst. exists m, h. apply Hf, Hi.
    - intros (m & h & E). exists ((m, p), h). split; [apply Hf, E|simpl; apply peqb_refl].
  Qed.

  Lemma last_added_acc m p (calls : list (Z * P * H)) (acc : option H) :
    last_added peqb m p calls acc =
    match last_added peqb m p calls None with Some h => Some h | None => acc end.
  Proof.
    revert acc; induction calls as [|[[m' p'] h] t IH]; intros acc; [reflexivity|].
    cbn [last_added]. rewrite IH. rewrite (IH (if Z.eqb m m' && peqb p p' then Some h else None)).
    destruct (last_added peqb m p t None); [reflexivity|].
    destruct (Z.eqb m m' && peqb p p'); reflexivity.
  Qed.

  Lemma path_added_spec p (calls : list (Z * P * H)) :
    path_added peqb p calls = true <-> exists m h, last_added peqb m p calls None = Some h.
  Proof.
    unfold path_added. induction calls as [|[[m' p'] h'] t IH]; simpl.
    - split; [discriminate|intros (? & ? & ?); discriminate].
    - rewrite orb_true_iff, IH. split.
      + intros [He|(m & h & E)].
        * destruct (peqb_spec p p'); [subst|discriminate].
          exists m'. rewrite last_added_acc. rewrite Z.eqb_refl. simpl.
          destruct (last_added peqb m' p' t None); eauto.
        * exists m. rewrite last_added_acc, E. eauto.
      + intros (m & h & E). rewrite last_added_acc in E.
        destruct (last_added peqb m p t None) eqn:L; [right; eauto|].
        destruct (Z.eqb_spec m m'); simpl in E; [|discriminate].
        destruct (peqb_spec p p'); [|discriminate]. left. subst. reflexivity.
  Qed.

  (* the route-table theorem: whatever order the maps are ranged over *)
  Lemma serve_expected calls mw (t : table) m p :
    Permutation t (build_table (config_of peqb calls) mw) ->
    serve peqb t m p = expected peqb calls mw m p.
  Proof.
    intros Hp.
    set (f := fun m p => option_map (wrap_with mw) (last_added peqb m p calls None)).
    assert (Hf : functional t f).
    { intros m0 p0 h0. unfold f. rewrite <- rget_config. split.
      - intros Hi. apply (Permutation_in _ Hp) in Hi.
        apply In_build_table in Hi; [|apply config_wf]. destruct Hi as (h & -> & ->). reflexivity.
      - intros E. apply (Permutation_in _ (Permutation_sym Hp)).
        apply In_build_table; [apply config_wf|].
        destruct (rget m0 p0 (config_of peqb calls)) as [h|]; [|discriminate].
        exists h. inversion E; auto. }
    unfold serve, expected. rewrite (find_pat_functional t f m p Hf).
    unfold f at 1. destruct (last_added peqb m p calls None) as [h|]; [reflexivity|]. simpl.
    assert (Hk : path_known peqb p t = path_added peqb p calls).
    { apply eq_true_iff_eq. rewrite (path_known_functional t f p Hf), path_added_spec.
      unfold f. split; intros (m0 & h0 & E).
      - destruct (last_added peqb m0 p calls None) as [h1|] eqn:L; [eauto|discriminate].
      - exists m0. rewrite E. simpl. eauto. }
    destruct (Z.eqb m mHEAD).
    - rewrite (find_pat_functional t f mGET p Hf). unfold f.
      destruct (last_added peqb mGET p calls None); simpl; [reflexivity|]. rewrite Hk. reflexivity.
    - rewrite Hk. reflexivity.
  Qed.
  Lemma serve_cfg_expected (ops : list (@cfg_op P H)) (t : table) m p :
    Permutation t (build_table (c_routes (cfg_run peqb ops)) (c_mw (cfg_run peqb ops))) ->
    serve peqb t m p = expected peqb (adds_of ops) (mw_of_ops ops) m p.
  Proof.
    destruct (cfg_run_spec ops) as (A & B). rewrite A, B. apply serve_expected.
  Qed.
End TableProofs.

(* gRPC registration map: a call reaches the implementation registered last for its descriptor *)
Fixpoint grpc_last (d : Z) (calls : list (Z * Z)) (acc : option Z) : option Z :=
  match calls with
  | [] => acc
  | (d', i) :: t => grpc_last d t (if Z.eqb d d' then Some i else acc)
  end.

Lemma get_upd_Z {V} k k' (v : V) l : get k' (upd k v l) = if Z.eqb k' k then Some v else get k' l.
Proof.
  induction l as [|[k2 v2] t IH]; simpl.
  - reflexivity.
  - destruct (Z.eqb_spec k k2); simpl.
    + subst. destruct (Z.eqb_spec k' k2); reflexivity.
    + rewrite IH. destruct (Z.eqb_spec k' k2); [|reflexivity].
      subst. destruct (Z.eqb_spec k2 k); congruence.
Qed.

Lemma grpc_call_spec calls d : grpc_call (grpc_config_of calls) d = grpc_last d calls None.
Proof.
  unfold grpc_call, grpc_config_of.
  assert (G : forall r, get d (fold_left (fun r c => grpc_register (fst c) (snd c) r) calls r)
                        = grpc_last d calls (get d r)).
  { induction calls as [|[d' i] t IH]; intros r; [reflexivity|].
    cbn [fold_left grpc_last fst snd]. rewrite IH. unfold grpc_register. rewrite get_upd_Z. reflexivity. }
  apply G.
Qed.

(* ================= routing + middleware together ================= *)

(* the property's reading of [expected]: exactly the registered pairs (and HEAD on GET routes) are served,
   by the last handler registered for the pair, wrapped in the configured middleware *)
Lemma expected_served_iff {P H} (peqb : P -> P -> bool) (calls : list (Z * P * H)) mw m p h' :
  expected peqb calls mw m p = Served h' <->
  exists h, h' = wrap_with mw h /\
    (last_added peqb m p calls None = Some h \/
     (last_added peqb m p calls None = None /\ m = mHEAD /\ last_added peqb mGET p calls None = Some h)).
Proof.
  unfold expected. destruct (last_added peqb m p calls None) as [h|] eqn:L.
  - split.
    + intros [= <-]. exists h. auto.
    + intros (h0 & -> & [[= ->]|(D & _)]); [reflexivity|discriminate].
  - destruct (Z.eqb_spec m mHEAD) as [->|Hm].
    + destruct (last_added peqb mGET p calls None) as [h|] eqn:G.
      * split.
        -- intros [= <-]. exists h. auto.
        -- intros (h0 & -> & [D|(_ & _ & [= ->])]); [discriminate|reflexivity].
      * split.
        -- destruct (path_added peqb p calls); discriminate.
        -- intros (h0 & _ & [D|(_ & _ & D)]); discriminate.
    + split.
      * destruct (path_added peqb p calls); discriminate.
      * intros (h0 & _ & [D|(_ & D & _)]); [discriminate|contradiction].
Qed.

Lemma expected_rejected {P H} (peqb : P -> P -> bool) (calls : list (Z * P * H)) mw m p :
  last_added peqb m p calls None = None ->
  (m = mHEAD -> last_added peqb mGET p calls None = None) ->
  expected peqb calls mw m p = (if path_added peqb p calls then MethodNotAllowed else NotFound).
Proof.
  intros L G. unfold expected. rewrite L.
  destruct (Z.eqb_spec m mHEAD) as [E|E]; [rewrite (G E)|]; reflexivity.
Qed.

Definition compile_calls (calls : list (Z * Z * hprog)) : list (Z * Z * handler) :=
  map (fun c => (fst (fst c), snd (fst c), run_h (snd c))) calls.

Lemma last_added_compile m p calls acc :
  last_added Z.eqb m p (compile_calls calls) (option_map run_h acc)
  = option_map run_h (last_added Z.eqb m p calls acc).
Proof.
  revert acc; induction calls as [|[[m' p'] h] t IH]; intros acc; [reflexivity|].
  cbn [compile_calls map last_added fst snd]. fold (compile_calls t).
  rewrite <- IH. destruct (Z.eqb m m' && Z.eqb p p'); reflexivity.
Qed.

Lemma path_added_compile p calls :
  path_added Z.eqb p (compile_calls calls) = path_added Z.eqb p calls.
Proof.
  unfold path_added, compile_calls. induction calls as [|[[m' p'] h] t IH]; [reflexivity|].
  simpl. rewrite IH. reflexivity.
Qed.

Lemma Zeqb_reflect : forall a b : Z, reflect (a = b) (Z.eqb a b).
Proof. exact Z.eqb_spec. Qed.

Lemma reject_R c q : R (reject c q) (reject c q).
Proof. apply R_refl. Qed.

Lemma end_to_end_R (calls : list (Z * Z * hprog)) ds m p q t t' :
  others_respectful ds ->
  Permutation t (build_table (config_of Z.eqb (compile_calls calls)) (Some (bundle (map denote ds)))) ->
  Permutation t' (build_table (config_of Z.eqb (compile_calls calls)) (Some (bundle (map denote (strip ds))))) ->
  R (respond (serve Z.eqb t m p) q) (respond (serve Z.eqb t' m p) q).
Proof.
  intros Ho Hp Hp'.
  rewrite (serve_expected Z.eqb Zeqb_reflect _ _ t m p Hp).
  rewrite (serve_expected Z.eqb Zeqb_reflect _ _ t' m p Hp').
  unfold expected.
  rewrite !(last_added_compile _ _ calls None), path_added_compile.
  assert (S : forall hp, R (respond (Served (bundle (map denote ds) (run_h hp))) q)
                           (respond (Served (bundle (map denote (strip ds)) (run_h hp))) q)).
  { intros hp. simpl. apply strip_logging_R; [exact Ho|apply R_refl]. }
  destruct (last_added Z.eqb m p calls None) as [hp|]; simpl; [apply S|].
  destruct (Z.eqb m mHEAD); [|apply R_refl].
  destruct (last_added Z.eqb mGET p calls None) as [hp|]; simpl; [apply S|apply R_refl].
Qed.
