(* The executable monitors of Model/Rank.v: what acceptance means, and that the model's own answer is accepted. *)
From Coq Require Import List Bool ZArith QArith Arith Lia Sorted Permutation.
From TC.Lib Require Import Assoc AssocProofs.
From TC.Model Require Import MapOps Rank.
From TC.Proofs Require Import MapOpsProofs RankProofs.
Import ListNotations.
Local Open Scope Z_scope.

Section RankMonitor.
  Context {K X : Type}.
  Variable keqb : K -> K -> bool.
  Hypothesis keqb_spec : forall x y, reflect (x = y) (keqb x y).
  Variable ok : X -> pct -> bool.
  Notation counts := (@counts K).

  Lemma value_ok_sound (m : counts) (o : list (K * X)) :
    NoDup (keys m) -> value_ok keqb ok m o = true ->
    Permutation (map fst o) (keys m)
    /\ forall k x, In (k, x) o -> exists v, lookup keqb k m = Some v /\ ok x (pct_value v (max_count m)) = true.
  Proof using keqb_spec.
    intros Hnd H. unfold value_ok in H. rewrite !andb_true_iff in H. destruct H as [[Hl Hn] Hf].
    apply Nat.eqb_eq in Hl. apply (knodup_NoDup keqb keqb_spec) in Hn. rewrite forallb_forall in Hf.
    assert (Hk : forall k x, In (k, x) o -> exists v, lookup keqb k m = Some v /\ ok x (pct_value v (max_count m)) = true).
    { intros k x Hin. specialize (Hf _ Hin). simpl in Hf. destruct (lookup keqb k m) as [v|]; [eauto|discriminate]. }
    split; [|exact Hk].
    apply NoDup_Permutation_bis; [exact Hn| |].
    - unfold keys. rewrite !map_length. lia.
    - intros k Hin. apply in_map_iff in Hin. destruct Hin as [[k' x] [<- Hin]].
      destruct (Hk _ _ Hin) as [v [L _]]. simpl. apply (lookup_In_keys keqb keqb_spec _ _ _ L).
  Qed.

  Lemma positional_ok_sound (m : counts) (o : list (K * X)) :
    NoDup (keys m) -> positional_ok keqb ok m o = true ->
    admissible (le_asc Z.ltb) m (map fst o) /\ all2 ok (map snd o) (rank_pos_on (map fst o)) = true.
  Proof using keqb_spec.
    intros Hnd H. unfold positional_ok in H. apply andb_true_iff in H. destruct H as [H1 H2]. split; [|exact H2].
    apply (asc_ok_iff keqb Z.ltb keqb_spec Zltb_ntrans' m _ Hnd), H1.
  Qed.

  Lemma all2_spec (xs : list X) (ps : list (K * pct)) :
    all2 ok xs ps = true <-> Forall2 (fun x kp => ok x (snd kp) = true) xs ps.
  Proof.
    revert ps. induction xs as [|x xt IH]; intros [|[k p] pt]; simpl.
    - split; [constructor|reflexivity].
    - split; [discriminate|intros H; inversion H].
    - split; [discriminate|intros H; inversion H].
    - rewrite andb_true_iff, IH. split.
      + intros [H1 H2]. constructor; assumption.
      + intros H. inversion H; subst. auto.
  Qed.
End RankMonitor.

Lemma exact_refl p : exact_pct p p = true.
Proof. destruct p; simpl; [apply Qeq_bool_iff, Qeq_refl|reflexivity|reflexivity]. Qed.

Section ModelPasses.
  Context {K : Type}.
  Variable keqb : K -> K -> bool.
  Hypothesis keqb_spec : forall x y, reflect (x = y) (keqb x y).

  Lemma all2_refl (l : list (K * pct)) : all2 exact_pct (map snd l) l = true.
  Proof. induction l as [|[k p] t IH]; simpl; [reflexivity|]. rewrite exact_refl, IH. reflexivity. Qed.

  Lemma model_passes (positional : bool) (m : @counts K) :
    NoDup (keys m) -> rank_ok keqb exact_pct positional m (rank keqb positional m) = true.
  Proof using keqb_spec.
    intros Hnd. destruct m as [|e t] eqn:Em; [reflexivity|]. rewrite <- Em in *.
    assert (Hadm : admissible (le_asc Z.ltb) m (sort_asc_keys Z.ltb m))
      by (apply (asc_model Z.ltb Zltb_asym' Zltb_ntrans'), Permutation_refl).
    destruct (admissible_keys _ m _ Hadm) as [Pk Lk].
    assert (E1 : forall X (okk : X -> pct -> bool) o, rank_ok keqb okk positional m o =
                   if positional then positional_ok keqb okk m o else value_ok keqb okk m o)
      by (intros; rewrite Em; reflexivity).
    assert (E2 : rank keqb positional m =
                   if positional then rank_pos_on (sort_asc_keys Z.ltb m)
                   else rank_value_on keqb m (sort_asc_keys Z.ltb m))
      by (rewrite Em; reflexivity).
    rewrite E1, E2. clear E1 E2. destruct positional.
    - unfold positional_ok, rank_pos_on. rewrite rank_pos_from_fst. apply andb_true_iff. split.
      + apply (asc_ok_iff keqb Z.ltb keqb_spec Zltb_ntrans' m _ Hnd), Hadm.
      + apply all2_refl.
    - unfold value_ok, rank_value_on. rewrite map_length, map_map. simpl. rewrite map_id.
      rewrite !andb_true_iff. split; [split|].
      + apply Nat.eqb_eq, Lk.
      + apply (knodup_NoDup keqb keqb_spec). eapply Permutation_NoDup; [apply Permutation_sym, Pk|exact Hnd].
      + apply forallb_forall. intros [k p] Hin. apply in_map_iff in Hin. destruct Hin as [k' [[= <- <-] Hk]]. simpl.
        apply (Permutation_in _ Pk) in Hk. unfold count_of.
        destruct (lookup keqb k' m) as [v|] eqn:L; [apply exact_refl|].
        apply (lookup_None keqb keqb_spec) in L. contradiction.
  Qed.
End ModelPasses.
