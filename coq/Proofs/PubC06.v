(* Lemmas behind Props/C06.v: fates, what a subscriber receives, exactly-once, termination. *)
From Coq Require Import List Arith Bool Lia.
From TC.Model Require Import Pub.
From TC.Proofs Require Import PubInv.
Import ListNotations.

Section PubC06.
  Context {M : Type}.
  Notation state := (state M).
  Notation label := (label M).

  (* a terminal pair state (a final fate) *)
  Definition terminal (x : pst) : bool :=
    match x with PDelivered | PFiltered | PTimedOut | PDropped => true | _ => false end.

  Lemma pst_cases x :
    x = PNone \/ is_pending x = true \/ x = PDelivered \/ x = PFiltered \/ x = PTimedOut \/ x = PDropped.
  Proof. destruct x; simpl; tauto. Qed.

  (* fates are final, and a visited pair never becomes unvisited *)
  Lemma fate_final (st st' : state) l p s :
    step st l = Some st' ->
    (terminal (pair st p s) = true -> pair st' p s = pair st p s) /\
    (pair st p s <> PNone -> pair st' p s <> PNone).
  Proof.
    intros H. destruct l; inv_step H; dupd; split; intros; try congruence; try discriminate;
      try (rewrite Heqp0 in *; simpl in *; congruence);
      try (match goal with H : pair _ _ _ = _ |- _ => rewrite H in *; simpl in *; congruence end).
  Qed.

  Lemma fate_final_run (st st' : state) ls p s :
    run st ls = Some st' -> terminal (pair st p s) = true -> pair st' p s = pair st p s.
  Proof.
    revert st. induction ls as [|l t IH]; simpl; intros st H T.
    - inversion H; auto.
    - destruct (step st l) as [st1|] eqn:E; [|discriminate].
      destruct (fate_final _ _ _ p s E) as [F _]. rewrite <- (F T). apply IH; auto. rewrite (F T); auto.
  Qed.

  (* ---------- fates ---------- *)
  Lemma fates (st : state) :
    reach st -> forall p s,
      (pair st p s <> PNone ->
         p < npub st /\ s < nsub st /\
         exists m, pmsg st p = Some m /\
                   (pair st p s = PFiltered <-> s_filt (subs st s) m = false)) /\
      (pair st p s = PDelivered <->
         exists m, pmsg st p = Some m /\ In (p, m) (s_got (subs st s) ++ s_buf (subs st s))).
  Proof.
    intros R p s. pose proof (reach_inv _ R) as I. split.
    - intros Hn. destruct (i_bnd _ I _ _ Hn) as [Hp Hs]. repeat split; auto.
      destruct (i_msg1 _ I _ Hp) as [m Hm]. exists m. split; auto. apply (i_acc _ I); auto.
    - split.
      + apply (i_bufc _ I).
      + intros (m & _ & Hin). apply (i_buf _ I) in Hin. tauto.
  Qed.

  Lemma nodup_app_l {A} (l1 l2 : list A) : NoDup (l1 ++ l2) -> NoDup l1.
  Proof.
    induction l1; simpl; intros H; [constructor|]. inversion H; subst. constructor; auto.
    intro. apply H2. apply in_or_app; auto.
  Qed.

  (* ---------- everything a subscriber receives ---------- *)
  Lemma received (st : state) :
    reach st -> forall s,
      (forall p m, In (p, m) (s_got (subs st s)) ->
                   pair st p s = PDelivered /\ pmsg st p = Some m /\ s_filt (subs st s) m = true) /\
      NoDup (map fst (s_got (subs st s))).
  Proof.
    intros R s. pose proof (reach_inv _ R) as I. split.
    - intros p m Hin.
      assert (Hd : pair st p s = PDelivered /\ pmsg st p = Some m)
        by (apply (i_buf _ I); apply in_or_app; auto).
      destruct Hd as [Hd Hm]. repeat split; auto.
      destruct (s_filt (subs st s) m) eqn:F; auto.
      assert (Hn : pair st p s <> PNone) by congruence.
      apply (i_acc _ I p s m Hm Hn) in F. congruence.
    - pose proof (i_nodup _ I s) as N. rewrite map_app in N. apply nodup_app_l in N. exact N.
  Qed.

  (* ---------- exactly once ---------- *)
  (* subscriber s "can make progress": a delivery goroutine of s can move, or s can receive something *)
  Definition can_progress (st : state) (s : nat) : Prop :=
    s_buf (subs st s) <> [] \/
    exists p, enabled st (Enter p s) \/ enabled st (Deliver p s) \/ enabled st (Rendezvous p s).

  Lemma exactly_once (st : state) s p m :
    reach st -> ~ can_progress st s ->
    pmsg st p = Some m -> pair st p s <> PNone -> s_filt (subs st s) m = true ->
    pair st p s <> PTimedOut -> pair st p s <> PDropped ->
    pair st p s = PDelivered /\ count_occ Nat.eq_dec (map fst (s_got (subs st s))) p = 1.
  Proof.
    intros R NP Hm Hn Hf HnT HnD. pose proof (reach_inv _ R) as I.
    assert (Hbuf : s_buf (subs st s) = []).
    { destruct (s_buf (subs st s)) eqn:E; auto. exfalso. apply NP. left. congruence. }
    assert (HD : pair st p s = PDelivered).
    { destruct (pair st p s) eqn:E; try congruence.
      - exfalso. apply NP. right. exists p. left. unfold enabled, step. rewrite E.
        destruct (s_phase (subs st s)); discriminate.
      - exfalso. apply NP. right. exists p. right. right. unfold enabled, step. rewrite E, Hm, Hbuf.
        pose proof (i_insel _ I _ _ _ E).
        destruct (s_phase (subs st s)); try discriminate. congruence.
      - assert (Hn' : pair st p s <> PNone) by congruence.
        pose proof (proj1 (i_acc _ I p s m Hm Hn') E). congruence. }
    split; auto.
    destruct (i_bufc _ I _ _ HD) as (m' & Hm' & Hin). rewrite Hbuf, app_nil_r in Hin.
    pose proof (i_nodup _ I s) as N. rewrite Hbuf, app_nil_r in N.
    assert (Hin' : In p (map fst (s_got (subs st s)))) by (apply in_map_iff; exists (p, m'); auto).
    apply (NoDup_count_occ' Nat.eq_dec) ; auto.
  Qed.

  (* ---------- termination of the delivery goroutines ---------- *)
  Lemma sum_le {A} (f g : A -> nat) l :
    (forall y, g y <= f y) -> sum_list (map g l) <= sum_list (map f l).
  Proof. intros H. induction l; simpl; auto. specialize (H a). lia. Qed.

  Lemma sum_lt {A} (f g : A -> nat) l x :
    (forall y, g y <= f y) -> In x l -> g x < f x -> sum_list (map g l) < sum_list (map f l).
  Proof.
    intros H Hin Hx. induction l; simpl; [destruct Hin|].
    destruct Hin as [->|Hin].
    - pose proof (sum_le f g l H). lia.
    - specialize (IHl Hin). specialize (H a). lia.
  Qed.

  Lemma sum_ext {A} (f g : A -> nat) l :
    (forall y, In y l -> g y = f y) -> sum_list (map g l) = sum_list (map f l).
  Proof.
    intros H. induction l; simpl; auto. rewrite (H a) by (simpl; auto).
    rewrite IHl; auto. intros; apply H; simpl; auto.
  Qed.

  Lemma measure_decreases (st st' : state) l :
    reach st -> internal l = true -> step st l = Some st' -> measure st' < measure st.
  Proof.
    intros R Hi H. pose proof (reach_inv _ R) as I.
    destruct l; try discriminate Hi; clear Hi.
    all: try (assert (Hb : p < npub st /\ s < nsub st)
               by (apply (i_bnd _ I); unfold step in H; destruct (pair st p s); try discriminate));
      try (assert (HinL : In (p, s) (list_prod (seq 0 (npub st)) (seq 0 (nsub st))))
            by (apply in_prod; apply in_seq; lia)).
    all: inv_step H; unfold measure, pairs_weight, closing_weight; simpl.
    (* pair-changing steps: the closing weight is unchanged, the pair weight drops at (p,s) *)
    all: try (match goal with
              | |- _ + ?c' < _ + ?c =>
                  assert (Hc : c' = c) by
                    (apply sum_ext; intros y _; unfold upd; destruct (y =? s) eqn:Ey; auto;
                     apply Nat.eqb_eq in Ey; subst; simpl; auto);
                  try rewrite Hc; apply Nat.add_lt_mono_r;
                  apply sum_lt with (x := (p, s)); auto;
                  [ intros [p1 s1]; simpl; unfold upd2;
                    destruct (Nat.eqb_spec p1 p); destruct (Nat.eqb_spec s1 s); simpl; subst; auto;
                    match goal with Hp : pair ?st ?p ?s = _ |- _ => rewrite Hp; simpl; lia end
                  | simpl; unfold upd2; rewrite !Nat.eqb_refl; simpl;
                    match goal with Hp : pair ?st ?p ?s = _ |- _ => rewrite Hp; simpl; lia end ]
              end).
    - (* Deliver on a closed channel: excluded by the invariant *)
      exfalso. eapply (i_insel _ I); eauto.
    - (* FinishClose *)
      apply Nat.add_lt_mono_l. apply sum_lt with (x := s).
      + intros y. unfold upd. destruct (Nat.eqb_spec y s); subst; simpl; auto. rewrite Heqp. auto.
      + apply in_seq. lia.
      + unfold upd. rewrite Nat.eqb_refl. simpl. rewrite Heqp. auto.
  Qed.

  Lemma run_ticks (st : state) k :
    exists st', run st (repeat Tick k) = Some st' /\ now st' = now st + k /\
                pair st' = pair st /\ pmsg st' = pmsg st /\ subs st' = subs st.
  Proof.
    revert st. induction k; intros st; simpl.
    - exists st. repeat split; auto.
    - match goal with |- context [run ?s _] => destruct (IHk s) as (st' & Hr & Hn & Hp & Hm & Hs) end.
      exists st'. simpl in *. repeat split; auto. lia.
  Qed.

  Lemma tick_enables_timeout (st : state) p s dl :
    reach st -> pair st p s = PInSel dl ->
    exists st', run st (repeat Tick (dl - now st)) = Some st' /\ enabled st' (Timeout p s).
  Proof.
    intros R Hp. pose proof (reach_inv _ R) as I.
    destruct (run_ticks st (dl - now st)) as (st' & Hr & Hn & Hpp & Hm & Hs).
    exists st'. split; auto. unfold enabled, step. rewrite Hpp, Hp, Hm.
    assert (p < npub st) by (apply (i_bnd _ I p s); congruence).
    destruct (i_msg1 _ I _ H) as [m ->].
    assert (dl <=? now st' = true) by (apply Nat.leb_le; lia). rewrite H0.
    destruct (s_onT (subs st' s)); discriminate.
  Qed.

End PubC06.
