(* Lemmas behind Props/C10.v: closing a subscriber or the publication at any moment. *)
From Coq Require Import List Arith Bool Lia.
From TC.Model Require Import Pub.
From TC.Proofs Require Import PubInv PubC06 PubC15.
Import ListNotations.

Section PubC10.
  Context {M : Type}.
  Notation state := (state M).
  Notation label := (label M).

  (* ---------- closed once, by the closer that took the subscriber ---------- *)
  Lemma closed_once (st : state) s :
    reach st ->
    s_ncl (subs st s) <= 1 /\ (s_phase (subs st s) = Closed <-> s_ncl (subs st s) = 1).
  Proof.
    intros R. pose proof (i_ncl _ (reach_inv _ R) s) as H.
    destruct (s_phase (subs st s)); rewrite H; split; try lia; split; intros; try discriminate; auto.
  Qed.

  (* a closer that does not find the subscriber in the map does nothing at all *)
  Lemma later_closer_noop (st : state) s :
    s < nsub st -> s_inmap (subs st s) = false -> step st (CloseSub s) = Some st.
  Proof.
    intros Hs Hi. unfold step. apply Nat.ltb_lt in Hs. rewrite Hs, Hi. reflexivity.
  Qed.

  (* the closer that finds it takes it out of the map and starts the close; the channel itself is
     closed by FinishClose, which is enabled only while the subscriber is Closing *)
  Lemma first_closer_takes (st st' : state) s :
    reach st -> step st (CloseSub s) = Some st' -> s_inmap (subs st s) = true ->
    s_inmap (subs st' s) = false /\ s_phase (subs st' s) = Closing /\ s_ncl (subs st' s) = 0 /\
    panicked st' = false.
  Proof.
    intros R H Hi. pose proof (reach_inv _ R) as I.
    pose proof (i_ph _ I _ Hi) as Hph. pose proof (i_ncl _ I s) as Hn. rewrite Hph in Hn.
    inv_step H; try congruence. dupd; try congruence. repeat split; auto. apply (i_panic _ I).
  Qed.

  Lemma finish_only_when_closing (st st' : state) s :
    step st (FinishClose s) = Some st' ->
    s_phase (subs st s) = Closing /\ s_phase (subs st' s) = Closed /\ s_buf (subs st' s) = s_buf (subs st s).
  Proof. intros H. inv_step H. dupd; try congruence. auto. Qed.

  (* ---------- after the close: the buffer is kept, nothing is added ---------- *)
  Lemma closed_step (st st' : state) l s :
    reach st -> step st l = Some st' -> s < nsub st -> s_phase (subs st s) = Closed ->
    s_phase (subs st' s) = Closed /\
    ((s_got (subs st' s) = s_got (subs st s) /\ s_buf (subs st' s) = s_buf (subs st s)) \/
     (exists x, s_buf (subs st s) = x :: s_buf (subs st' s) /\ s_got (subs st' s) = s_got (subs st s) ++ [x])).
  Proof.
    intros R H Hs Hc. pose proof (reach_inv _ R) as I.
    destruct l; inv_step H; dupd; try (split; [assumption | left; split; reflexivity]); try lia; try congruence.
    all: try (exfalso; eapply (i_insel _ I); eauto; fail).
    all: try (match goal with H : s_inmap _ = true |- _ => apply (i_ph _ I) in H; congruence end).
    split; auto. right. eexists. split; eauto.
  Qed.

  Lemma closed_run (st st' : state) ls s :
    reach st -> run st ls = Some st' -> s < nsub st -> s_phase (subs st s) = Closed ->
    s_phase (subs st' s) = Closed /\
    exists k, s_got (subs st' s) = s_got (subs st s) ++ firstn k (s_buf (subs st s)) /\
              s_buf (subs st' s) = skipn k (s_buf (subs st s)).
  Proof.
    revert st. induction ls as [|l t IH]; simpl; intros st R H Hs Hc.
    - inversion H; subst. split; auto. exists 0. simpl. rewrite app_nil_r. auto.
    - destruct (step st l) as [st1|] eqn:E; [|discriminate].
      destruct (closed_step _ _ _ s R E Hs Hc) as [Hc1 Hd].
      assert (R1 : reach st1) by (eapply reach_step; eauto).
      assert (Hs1 : s < nsub st1) by (pose proof (nsub_mono _ _ _ E); lia).
      destruct (IH st1 R1 H Hs1 Hc1) as [Hc' [k [Hg Hb]]]. split; auto.
      destruct Hd as [[Hg1 Hb1] | [x [Hb1 Hg1]]].
      + exists k. rewrite Hg, Hb, Hg1, Hb1. auto.
      + exists (S k). rewrite Hg, Hb, Hg1, Hb1. simpl. rewrite <- app_assoc. auto.
  Qed.

  Lemma eof_means_drained (st : state) s :
    reach st -> s_eof (subs st s) = true -> s_phase (subs st s) = Closed /\ s_buf (subs st s) = [].
  Proof. intros R. apply (i_eof _ (reach_inv _ R)). Qed.

  (* ---------- no deadlock ---------- *)
  Lemma close_enabled (st : state) s : s < nsub st -> enabled st (CloseSub s).
  Proof.
    intros Hs. unfold enabled, step. apply Nat.ltb_lt in Hs. rewrite Hs.
    destruct (s_inmap (subs st s)); [destruct (s_phase (subs st s))|]; discriminate.
  Qed.

  Lemma no_insel_false (st : state) s :
    no_insel st s = false -> exists p dl, p < npub st /\ pair st p s = PInSel dl.
  Proof.
    unfold no_insel. intros H.
    assert (E : existsb (fun p => is_insel (pair st p s)) (seq 0 (npub st)) = true).
    { clear -H. induction (seq 0 (npub st)); simpl in *; [discriminate|].
      destruct (is_insel (pair st a s)); simpl in *; auto. }
    apply existsb_exists in E. destruct E as [p [Hin Hp]]. apply in_seq in Hin.
    destruct (pair st p s) eqn:E; try discriminate. exists p, dl. split; auto. lia.
  Qed.

  (* a subscriber that is being closed never waits in vain: either the closer can finish, or a delivery
     goroutine it waits for can leave its select *)
  Lemma closing_progress (st : state) s :
    s < nsub st -> s_phase (subs st s) = Closing ->
    enabled st (FinishClose s) \/ exists p, enabled st (Drop p s).
  Proof.
    intros Hs Hc. destruct (no_insel st s) eqn:E.
    - left. unfold enabled, step. apply Nat.ltb_lt in Hs. rewrite Hs, Hc, E. discriminate.
    - right. destruct (no_insel_false _ _ E) as (p & dl & _ & Hp). exists p.
      unfold enabled, step. rewrite Hp, Hc. discriminate.
  Qed.

  (* Close called from inside OnTimeout: the delivery whose callback runs has left its select (and the read
     lock) - it is not among the goroutines the closer waits for.  If no OTHER delivery of s is in its select,
     the close started right after the Timeout step can finish at once. *)
  Lemma close_from_callback (st st1 st2 : state) p s :
    reach st -> step st (Timeout p s) = Some st1 -> step st1 (CloseSub s) = Some st2 ->
    is_insel (pair st2 p s) = false /\
    (s_inmap (subs st1 s) = true -> (forall q, q <> p -> is_insel (pair st q s) = false) ->
     enabled st2 (FinishClose s)).
  Proof.
    intros R H1 H2. pose proof (reach_inv _ R) as I.
    assert (R1 : reach st1) by (eapply reach_step; eauto).
    assert (Hs : s < nsub st) by (unfold step in H1; destruct (pair st p s) eqn:E; try discriminate;
                                  apply (i_bnd _ I p s); congruence).
    assert (P1 : forall q, pair st1 q s = if q =? p then PTimedOut else pair st q s).
    { intros q. inv_step H1; dupd; try congruence; rewrite ?Nat.eqb_refl; auto;
        destruct (Nat.eqb_spec q p); try congruence; auto. }
    assert (N1 : nsub st1 = nsub st /\ npub st1 = npub st) by (inv_step H1; dupd; auto).
    assert (P2 : forall q, pair st2 q s = pair st1 q s) by (intros q; inv_step H2; dupd; auto).
    split.
    - rewrite P2, P1, Nat.eqb_refl. reflexivity.
    - intros Hin Hoth. destruct (first_closer_takes _ _ _ R1 H2 Hin) as (_ & Hph & _ & _).
      assert (N2 : nsub st2 = nsub st1 /\ npub st2 = npub st1) by (inv_step H2; dupd; auto).
      unfold enabled, step. destruct N1 as [N1a N1b]. destruct N2 as [N2a N2b].
      assert (s <? nsub st2 = true) by (apply Nat.ltb_lt; lia). rewrite H, Hph.
      assert (no_insel st2 s = true).
      { unfold no_insel. apply forallb_forall. intros q _. rewrite P2, P1.
        destruct (Nat.eqb_spec q p); auto. rewrite Hoth; auto. }
      rewrite H0. discriminate.
  Qed.

End PubC10.
