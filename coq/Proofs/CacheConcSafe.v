(* CacheConc: reference validity (no dangling reference = no nil dereference = no panic) and
   "every stored pair was the argument of a Set", for every schedule. *)
From Coq Require Import List Arith Bool Lia.
From TC.Model Require Import CacheConc.
From TC.Proofs Require Import CacheConcBase.
Import ListNotations.

Section Safe.
  Context {K V : Type}.
  Variable keqb : K -> K -> bool.
  Variable zero : V.
  Hypothesis keqb_spec : forall a b, reflect (a = b) (keqb a b).
  Notation state := (@state K V).
  Notation thread := (@thread K V).
  Notation step := (@step K V keqb zero).
  Notation run := (@run K V keqb zero).

  (* which program counters an operation can be at *)
  Definition pc_okb (o : @op K V) (p : @pc V) : bool :=
    match p, o with
    | (PIdx | PRdParts _ | PPeek _ _), (OSet _ _ | OGet _ | OContains _ | ODelete _) => true
    | PRead _, (OGet _ | OContains _ | ODelete _) => true
    | (PDel _ | PDelIdx), ODelete _ => true
    | (PInPlace _ | PFast | PSlow | PWrite _ _ | PIndex _), OSet _ _ => true
    | (PSwBegin | PSwPop _), (OSweep | OTicker) => true
    | (PCl1 | PCl2 | PCl3), OClear => true
    | PTkWait, OTicker => true
    | PDone _, _ => true
    | _, _ => false
    end.
  Definition pc_refs (s : state) (p : @pc V) : Prop :=
    match p with
    | PPeek _ sr => sr < length (stacks s)
    | PRead p' | PDel p' | PInPlace p' | PWrite p' _ => p' < length (pmaps s)
    | _ => True
    end.
  Definition thread_ok (s : state) (t : thread) : Prop := pc_okb (fst t) (snd t) = true /\ pc_refs s (snd t).
  Definition stacks_ok (s : state) : Prop :=
    forall st e, In st (stacks s) -> In e (ents st) -> snd e < length (pmaps s).
  Definition WF (s : state) : Prop :=
    fparts s < length (stacks s) /\ findex s < length (idxs s) /\ stacks_ok s
    /\ Forall (thread_ok s) (threads s) /\ panicked s = false.

  Lemma thread_ok_mono (s s' : state) t :
    length (stacks s) <= length (stacks s') -> length (pmaps s) <= length (pmaps s') ->
    thread_ok s t -> thread_ok s' t.
  Proof.
    intros H1 H2 [Ha Hb]. split; auto. destruct t as [o p]; destruct p; simpl in *; auto; lia.
  Qed.

  Lemma peek_ents_In id l p : peek_ents id l = Some p -> In (id, p) l.
  Proof.
    induction l as [|[i q] t IH]; simpl; [discriminate|].
    destruct (Nat.eqb_spec i id) as [->|]; intros H; [injection H as ->; auto|auto].
  Qed.

  Lemma WF_init : WF init.
  Proof.
    unfold WF, stacks_ok; simpl. repeat split; auto.
    - intros st e [<-|[]] [].
    - constructor; [|constructor]. split; simpl; auto.
  Qed.

  Ltac inv H := inversion H; subst; clear H.

  (* threads of the new state = an update of one thread (plus possibly a spawned one), all else monotone *)
  Lemma wf_threads (s s' : state) i o p extra :
    Forall (thread_ok s) (threads s) ->
    length (stacks s) <= length (stacks s') -> length (pmaps s) <= length (pmaps s') ->
    thread_ok s' (o, p) -> Forall (thread_ok s') extra ->
    Forall (thread_ok s') (upd i (o, p) (threads s) ++ extra).
  Proof.
    intros Hf H1 H2 Ht He. apply Forall_app; split; auto. apply Forall_upd; auto.
    eapply Forall_impl; [|exact Hf]. intros t. apply thread_ok_mono; auto.
  Qed.

  Lemma in_tl {A} (x : A) l : In x (tl l) -> In x l.
  Proof. destruct l; simpl; auto. Qed.

  Lemma step_WF c s l s' : WF s -> step c s l = Some s' -> WF s'.
  Proof.
    intros (Hfp & Hfi & Hst & Hth & Hpn) Hs.
    assert (Hth0 := Hth). rewrite Forall_forall in Hth0.
    destruct l as [o|i| | |i]; simpl in Hs.
    - (* spawn *)
      destruct o; inv Hs; unfold WF, stacks_ok in *; simpl; repeat split; auto;
        apply Forall_app; split; auto; constructor; auto; split; simpl; auto.
    - destruct (nth_error (threads s) i) as [[o p]|] eqn:Et; [|discriminate].
      destruct (Hth0 _ (nth_error_In _ _ Et)) as [Hok Hrf]. simpl in Hok, Hrf.
      assert (Hgen : forall s1 p1 extra,
                 threads s1 = upd i (o, p1) (threads s) ++ extra ->
                 fparts s1 < length (stacks s1) -> findex s1 < length (idxs s1) -> stacks_ok s1 ->
                 length (stacks s) <= length (stacks s1) -> length (pmaps s) <= length (pmaps s1) ->
                 thread_ok s1 (o, p1) -> Forall (thread_ok s1) extra -> panicked s1 = false -> WF s1).
      { intros s1 p1 extra E A1 A2 A3 A4 A5 A6 A7 A8. unfold WF. rewrite E. repeat split; auto.
        apply wf_threads with (s := s); auto. }
      destruct p; simpl in Hs, Hok, Hrf.
      + (* PIdx *)
        destruct (okey o) as [k|] eqn:Ek; [|destruct o; simpl in *; discriminate].
        destruct (nth_error (idxs s) (findex s)) as [ix|] eqn:Ei;
          [|apply nth_error_None in Ei; lia].
        destruct (lookup keqb k ix) as [[|id']|]; inv Hs;
          (eapply (Hgen _ _ []); simpl; [rewrite app_nil_r; reflexivity|auto..]);
          split; destruct o; simpl in *; auto; discriminate.
      + inv Hs. eapply (Hgen _ _ []); simpl; [rewrite app_nil_r; reflexivity|auto..].
        split; destruct o; simpl in *; auto.
      + (* PPeek *)
        destruct (nth_error (stacks s) s0) as [st|] eqn:Es; [|apply nth_error_None in Es; lia].
        destruct (stk_peek id st) as [p'|] eqn:Ep; inv Hs;
          (eapply (Hgen _ _ []); simpl; [rewrite app_nil_r; reflexivity|auto..]).
        * split; destruct o; simpl in *; auto; try discriminate;
            apply (Hst st (id, p') (nth_error_In _ _ Es) (peek_ents_In _ _ _ Ep)).
        * split; destruct o; simpl in *; auto; discriminate.
      + (* PRead *)
        destruct (okey o) as [k|] eqn:Ek; [|destruct o; simpl in *; discriminate].
        destruct (nth_error (pmaps s) p) as [m|] eqn:Em; [|apply nth_error_None in Em; lia].
        destruct o; simpl in *; try discriminate; inv Hs;
          (eapply (Hgen _ _ []); simpl; [rewrite app_nil_r; reflexivity|auto..]); split; simpl; auto;
          destruct (amem keqb k m); simpl; auto.
      + (* PDel *)
        destruct (okey o) as [k|] eqn:Ek; [|destruct o; simpl in *; discriminate].
        destruct (nth_error (pmaps s) p) as [m|] eqn:Em; [|apply nth_error_None in Em; lia].
        inv Hs. eapply (Hgen _ _ []); simpl; [rewrite app_nil_r; reflexivity|rewrite ?upd_length; auto..].
        * intros st e H1 H2. simpl. rewrite upd_length. eapply Hst; eauto.
        * split; destruct o; simpl in *; try discriminate; destruct (delidx c); simpl; auto.
      + (* PDelIdx *)
        destruct (okey o) as [k|] eqn:Ek; [|destruct o; simpl in *; discriminate].
        destruct (nth_error (idxs s) (findex s)) as [ix|] eqn:Ei; [|apply nth_error_None in Ei; lia].
        inv Hs. eapply (Hgen _ _ []); simpl; [rewrite app_nil_r; reflexivity|rewrite ?upd_length; auto..].
        split; simpl; auto.
      + (* PInPlace *)
        destruct o; simpl in *; try discriminate.
        destruct (nth_error (pmaps s) p) as [m|] eqn:Em; [|apply nth_error_None in Em; lia].
        inv Hs. eapply (Hgen _ _ []); simpl; [rewrite app_nil_r; reflexivity|rewrite ?upd_length; auto..].
        * intros st e H1 H2. simpl. rewrite upd_length. eapply Hst; eauto.
        * split; simpl; auto.
      + (* PFast *)
        destruct (cpmw s); [discriminate|]. unfold room in Hs.
        destruct (nth_error (stacks s) (fparts s)) as [st|] eqn:Es; [|apply nth_error_None in Es; lia].
        destruct (stk_peek (cur s) st) as [p'|] eqn:Ep.
        * assert (Hp' : p' < length (pmaps s))
            by apply (Hst st (cur s, p') (nth_error_In _ _ Es) (peek_ents_In _ _ _ Ep)).
          destruct (nth_error (pmaps s) p') as [m|] eqn:Em; [|apply nth_error_None in Em; lia].
          destruct (length m <? capC c); inv Hs;
            (eapply (Hgen _ _ []); simpl; [rewrite app_nil_r; reflexivity|auto..]);
            split; destruct o; simpl in *; auto.
        * inv Hs. eapply (Hgen _ _ []); simpl; [rewrite app_nil_r; reflexivity|auto..].
          split; destruct o; simpl in *; auto.
      + (* PSlow *)
        destruct (cpmw s || negb (cpmr s =? 0)); [discriminate|]. unfold room, open_partition in Hs.
        destruct (nth_error (stacks s) (fparts s)) as [st|] eqn:Es; [|apply nth_error_None in Es; lia].
        assert (Hopen : forall s1, Some s1 = Some s' ->
                  s1 = set_threads (set_cur (set_stacks (set_pmaps s (pmaps s ++ [[]]))
                                     (upd (fparts s) (stk_push (length (pmaps s)) st) (stacks s))) (ctr (stk_push (length (pmaps s)) st)))
                         (upd i (o, PWrite (length (pmaps s)) (ctr (stk_push (length (pmaps s)) st))) (threads s) ++ [(OSweep, PSwBegin)]) ->
                  WF s').
        { intros s1 E1 E2. inv E1. eapply (Hgen _ _ [(OSweep, PSwBegin)]); simpl; [reflexivity|rewrite ?upd_length, ?app_length; simpl; auto; try lia..].
          - intros st' e H1 H2. simpl in *. rewrite app_length; simpl.
            destruct (In_upd _ _ _ _ H1) as [->|H1'].
            + simpl in H2. apply in_app_or in H2. destruct H2 as [H2|[<-|[]]]; simpl; [|lia].
              specialize (Hst st e (nth_error_In _ _ Es) H2). lia.
            + specialize (Hst st' e H1' H2). lia.
          - split; destruct o; simpl in *; auto; try discriminate. rewrite app_length; simpl; lia.
          - constructor; [|constructor]. split; simpl; auto. }
        destruct (stk_peek (cur s) st) as [p'|] eqn:Ep.
        * assert (Hp' : p' < length (pmaps s))
            by apply (Hst st (cur s, p') (nth_error_In _ _ Es) (peek_ents_In _ _ _ Ep)).
          destruct (nth_error (pmaps s) p') as [m|] eqn:Em; [|apply nth_error_None in Em; lia].
          destruct (recheck c); [destruct (length m <? capC c)|].
          -- inv Hs. eapply (Hgen _ _ []); simpl; [rewrite app_nil_r; reflexivity|auto..].
             split; destruct o; simpl in *; auto.
          -- eapply Hopen; [exact Hs|reflexivity].
          -- eapply Hopen; [exact Hs|reflexivity].
        * destruct (recheck c); eapply Hopen; try exact Hs; reflexivity.
      + (* PWrite *)
        destruct o; simpl in *; try discriminate.
        destruct (nth_error (pmaps s) p) as [m|] eqn:Em; [|apply nth_error_None in Em; lia].
        inv Hs. eapply (Hgen _ _ []); simpl; [rewrite app_nil_r; reflexivity|rewrite ?upd_length; auto..].
        * intros st e H1 H2. simpl. rewrite upd_length. eapply Hst; eauto.
        * split; simpl; auto.
      + (* PIndex *)
        destruct (okey o) as [k|] eqn:Ek; [|destruct o; simpl in *; discriminate].
        destruct (nth_error (idxs s) (findex s)) as [ix|] eqn:Ei; [|apply nth_error_None in Ei; lia].
        inv Hs. eapply (Hgen _ _ []); simpl; [rewrite app_nil_r; reflexivity|rewrite ?upd_length; auto..].
        split; simpl; auto.
      + (* PSwBegin *)
        destruct (swm s || cpmw s); [discriminate|].
        destruct (nth_error (stacks s) (fparts s)) as [st|] eqn:Es; [|apply nth_error_None in Es; lia].
        inv Hs. eapply (Hgen _ _ []); simpl; [rewrite app_nil_r; reflexivity|auto..].
        split; destruct o; simpl in *; auto.
      + (* PSwPop *)
        destruct n as [|n].
        * inv Hs. eapply (Hgen _ _ []); simpl; [rewrite app_nil_r; reflexivity|auto..].
          split; destruct o; simpl in *; auto.
        * destruct (nth_error (stacks s) (fparts s)) as [st|] eqn:Es; [|apply nth_error_None in Es; lia].
          inv Hs. eapply (Hgen _ _ []); simpl; [rewrite app_nil_r; reflexivity|rewrite ?upd_length; auto..].
          -- intros st' e H1 H2. simpl in *. destruct (In_upd _ _ _ _ H1) as [->|H1'].
             ++ simpl in H2. apply in_tl in H2. eapply Hst; eauto. eapply nth_error_In; eauto.
             ++ eapply Hst; eauto.
          -- split; destruct o; simpl in *; auto.
      + (* PCl1 *)
        destruct (cpmw s || negb (cpmr s =? 0)); [discriminate|].
        inv Hs. eapply (Hgen _ _ []); simpl; [rewrite app_nil_r; reflexivity|rewrite ?app_length; simpl; auto; try lia..].
        * intros st e H1 H2. simpl in *. apply in_app_or in H1. destruct H1 as [H1|[<-|[]]]; [eapply Hst; eauto|destruct H2].
        * split; destruct o; simpl in *; auto.
      + (* PCl2 *)
        inv Hs. eapply (Hgen _ _ []); simpl; [rewrite app_nil_r; reflexivity|rewrite ?app_length; simpl; auto; try lia..].
        split; destruct o; simpl in *; auto.
      + (* PCl3 *)
        unfold open_partition in Hs.
        destruct (nth_error (stacks s) (fparts s)) as [st|] eqn:Es; [|apply nth_error_None in Es; lia].
        inv Hs. eapply (Hgen _ _ []); simpl; [rewrite app_nil_r; reflexivity|rewrite ?upd_length, ?app_length; simpl; auto; try lia..].
        * intros st' e H1 H2. simpl in *. rewrite app_length; simpl.
          destruct (In_upd _ _ _ _ H1) as [->|H1'].
          -- simpl in H2. apply in_app_or in H2. destruct H2 as [H2|[<-|[]]]; simpl; [|lia].
             specialize (Hst st e (nth_error_In _ _ Es) H2). lia.
          -- specialize (Hst st' e H1' H2). lia.
        * split; destruct o; simpl in *; auto.
      + (* PTkWait *)
        destruct (tick s); [|discriminate].
        inv Hs. eapply (Hgen _ _ []); simpl; [rewrite app_nil_r; reflexivity|auto..].
        split; destruct o; simpl in *; auto.
      + discriminate.
    - inv Hs. unfold WF, stacks_ok in *; simpl; auto.
    - inv Hs. unfold WF, stacks_ok in *; simpl; auto.
    - destruct (nth_error (threads s) i) as [[o p]|] eqn:Et; [|discriminate].
      destruct o; try discriminate. destruct p; try discriminate.
      destruct (cancelled s); [|discriminate]. inv Hs.
      unfold WF, stacks_ok in *; simpl. repeat split; auto.
      apply Forall_upd; auto. split; simpl; auto.
  Qed.
  (* ---- every stored pair was the argument of a Set ---- *)
  Definition GWS (s : state) : Prop :=
    (forall m x, In m (pmaps s) -> In x m -> In x (setlog s))
    /\ (forall k v p, In (OSet k v, p) (threads s) -> In (k, v) (setlog s))
    /\ (forall k v, In (OGet k, PDone (RVal v)) (threads s) -> v = zero \/ In (k, v) (setlog s)).

  Lemma GWS_init : GWS init.
  Proof.
    unfold GWS; simpl. repeat split.
    - intros m x [].
    - intros k v p [H|[]]; discriminate.
    - intros k v [H|[]]; discriminate.
  Qed.

  Lemma step_GWS c s l s' : GWS s -> step c s l = Some s' -> GWS s'.
  Proof.
    intros (Hpm & Hset & Hget) Hs.
    destruct l as [o|i| | |i]; simpl in Hs.
    - (* spawn *)
      assert (Hinc : incl (setlog s) (match o with OSet k v => (k, v) :: setlog s | _ => setlog s end))
        by (destruct o; auto using incl_refl, incl_tl).
      destruct o; inv Hs; unfold GWS; simpl; (repeat split;
        [intros m x H1 H2; apply Hinc; eauto
        |intros k' v' p' H; apply in_app_or in H; destruct H as [H|[H|[]]];
           [apply Hinc; eauto|try discriminate; try (inv H; left; reflexivity)]
        |intros k' v' H; apply in_app_or in H; destruct H as [H|[H|[]]]; [|discriminate];
           destruct (Hget _ _ H); auto]).
    - destruct (nth_error (threads s) i) as [[o p]|] eqn:Et; [|discriminate].
      assert (Hin := nth_error_In _ _ Et).
      assert (Hgen : forall s1 p1 extra,
                 threads s1 = upd i (o, p1) (threads s) ++ extra ->
                 Forall (fun t : thread => fst t = OSweep) extra ->
                 setlog s1 = setlog s ->
                 (forall m x, In m (pmaps s1) -> In x m -> In x (setlog s)) ->
                 (forall k v, o = OGet k -> p1 = PDone (RVal v) -> v = zero \/ In (k, v) (setlog s)) ->
                 GWS s1).
      { intros s1 p1 extra E Hex Esl A1 A2. unfold GWS. rewrite E, Esl. repeat split; auto.
        - intros k v p' H. apply in_app_or in H. destruct H as [H|H].
          + destruct (In_upd _ _ _ _ H) as [H1|H1]; [inv H1|]; eauto.
          + rewrite Forall_forall in Hex. specialize (Hex _ H). discriminate.
        - intros k v H. apply in_app_or in H. destruct H as [H|H].
          + destruct (In_upd _ _ _ _ H) as [H1|H1]; [inv H1|]; eauto.
          + rewrite Forall_forall in Hex. specialize (Hex _ H). discriminate. }
      assert (Hpanic : GWS (panic s)) by (unfold GWS; simpl; auto).
      assert (Hupd : forall p' m', (forall x, In x m' -> In x (setlog s)) ->
                 forall m x, In m (upd p' m' (pmaps s)) -> In x m -> In x (setlog s)).
      { intros p' m' Hm' m x H1 H2. destruct (In_upd _ _ _ _ H1) as [->|H1']; eauto. }
      destruct p; simpl in Hs.
      + destruct (okey o) as [k|] eqn:Ek; [|inv Hs; exact Hpanic].
        destruct (nth_error (idxs s) (findex s)) as [ix|]; [|inv Hs; exact Hpanic].
        destruct (lookup keqb k ix) as [[|id']|]; inv Hs;
          (eapply (Hgen _ _ []); simpl; [rewrite app_nil_r; reflexivity|auto..]);
          intros k1 v1 -> E; try discriminate; simpl in E; inv E; auto.
      + inv Hs. eapply (Hgen _ _ []); simpl; [rewrite app_nil_r; reflexivity|auto..]. discriminate.
      + destruct (nth_error (stacks s) s0) as [st|]; [|inv Hs; exact Hpanic].
        destruct (stk_peek id st) as [p'|]; inv Hs;
          (eapply (Hgen _ _ []); simpl; [rewrite app_nil_r; reflexivity|auto..]);
          intros k1 v1 -> E; try discriminate; simpl in E; inv E; auto.
      + destruct (okey o) as [k|] eqn:Ek; [|inv Hs; exact Hpanic].
        destruct (nth_error (pmaps s) p) as [m|] eqn:Em; [|inv Hs; exact Hpanic].
        destruct o; simpl in Ek; inv Ek; inv Hs;
          (eapply (Hgen _ _ []); simpl; [rewrite app_nil_r; reflexivity|auto..]);
          try (intros k1 v1 E1 E2; try discriminate; try (destruct (amem keqb k m); discriminate)).
        inv E1. inv E2. destruct (lookup keqb k1 m) as [v|] eqn:El; auto.
        right. apply (Hpm m); [eapply nth_error_In; eauto|]. eapply lookup_In; eauto.
      + destruct (okey o) as [k|] eqn:Ek; [|inv Hs; exact Hpanic].
        destruct (nth_error (pmaps s) p) as [m|] eqn:Em; [|inv Hs; exact Hpanic].
        inv Hs. eapply (Hgen _ _ []); simpl; [rewrite app_nil_r; reflexivity|auto..].
        * apply Hupd. intros x Hx. apply (Hpm m); [eapply nth_error_In; eauto|]. eapply In_adel; eauto.
        * intros k1 v1 _ E. destruct (delidx c); discriminate.
      + destruct (okey o) as [k|] eqn:Ek; [|inv Hs; exact Hpanic].
        destruct (nth_error (idxs s) (findex s)) as [ix|]; [|inv Hs; exact Hpanic].
        inv Hs. eapply (Hgen _ _ []); simpl; [rewrite app_nil_r; reflexivity|auto..]. discriminate.
      + destruct o; try (inv Hs; exact Hpanic).
        destruct (nth_error (pmaps s) p) as [m|] eqn:Em; [|inv Hs; exact Hpanic].
        inv Hs. eapply (Hgen _ _ []); simpl; [rewrite app_nil_r; reflexivity|auto..]; [|discriminate].
        apply Hupd. intros x Hx. destruct (In_aset _ _ _ _ _ Hx) as [->|Hx']; [eauto|].
        apply (Hpm m); [eapply nth_error_In; eauto|auto].
      + destruct (cpmw s); [discriminate|].
        destruct (room c s) as [[p'|]|]; inv Hs; try exact Hpanic;
          (eapply (Hgen _ _ []); simpl; [rewrite app_nil_r; reflexivity|auto..]); discriminate.
      + destruct (cpmw s || negb (cpmr s =? 0)); [discriminate|].
        destruct (room c s) as [r|]; [|inv Hs; exact Hpanic].
        destruct (if recheck c then r else None) as [p'|].
        * inv Hs. eapply (Hgen _ _ []); simpl; [rewrite app_nil_r; reflexivity|auto..]. discriminate.
        * unfold open_partition in Hs.
          destruct (nth_error (stacks s) (fparts s)) as [st|]; [|inv Hs; exact Hpanic].
          inv Hs. eapply (Hgen _ _ [(OSweep, PSwBegin)]); simpl; [reflexivity|auto..]; [|discriminate].
          intros m x H1 H2. apply in_app_or in H1. destruct H1 as [H1|[<-|[]]]; [eauto|destruct H2].
      + destruct o; try (inv Hs; exact Hpanic).
        destruct (nth_error (pmaps s) p) as [m|] eqn:Em; [|inv Hs; exact Hpanic].
        inv Hs. eapply (Hgen _ _ []); simpl; [rewrite app_nil_r; reflexivity|auto..]; [|discriminate].
        apply Hupd. intros x Hx. destruct (In_aset _ _ _ _ _ Hx) as [->|Hx']; [eauto|].
        apply (Hpm m); [eapply nth_error_In; eauto|auto].
      + destruct (okey o) as [k|] eqn:Ek; [|inv Hs; exact Hpanic].
        destruct (nth_error (idxs s) (findex s)) as [ix|]; [|inv Hs; exact Hpanic].
        inv Hs. eapply (Hgen _ _ []); simpl; [rewrite app_nil_r; reflexivity|auto..]. discriminate.
      + destruct (swm s || cpmw s); [discriminate|].
        destruct (nth_error (stacks s) (fparts s)) as [st|]; [|inv Hs; exact Hpanic].
        inv Hs. eapply (Hgen _ _ []); simpl; [rewrite app_nil_r; reflexivity|auto..]. discriminate.
      + destruct n as [|n].
        * inv Hs. eapply (Hgen _ _ []); simpl; [rewrite app_nil_r; reflexivity|auto..].
          intros k1 v1 -> E; discriminate.
        * destruct (nth_error (stacks s) (fparts s)) as [st|]; [|inv Hs; exact Hpanic].
          inv Hs. eapply (Hgen _ _ []); simpl; [rewrite app_nil_r; reflexivity|auto..]. discriminate.
      + destruct (cpmw s || negb (cpmr s =? 0)); [discriminate|].
        inv Hs. eapply (Hgen _ _ []); simpl; [rewrite app_nil_r; reflexivity|auto..]. discriminate.
      + inv Hs. eapply (Hgen _ _ []); simpl; [rewrite app_nil_r; reflexivity|auto..]. discriminate.
      + unfold open_partition in Hs.
        destruct (nth_error (stacks s) (fparts s)) as [st|]; [|inv Hs; exact Hpanic].
        inv Hs. eapply (Hgen _ _ []); simpl; [rewrite app_nil_r; reflexivity|auto..]; [|discriminate].
        intros m x H1 H2. apply in_app_or in H1. destruct H1 as [H1|[<-|[]]]; [eauto|destruct H2].
      + destruct (tick s); [|discriminate].
        inv Hs. eapply (Hgen _ _ []); simpl; [rewrite app_nil_r; reflexivity|auto..]. discriminate.
      + discriminate.
    - inv Hs. unfold GWS in *; simpl; auto.
    - inv Hs. unfold GWS in *; simpl; auto.
    - destruct (nth_error (threads s) i) as [[o p]|] eqn:Et; [|discriminate].
      destruct o; try discriminate. destruct p; try discriminate.
      destruct (cancelled s); [|discriminate]. inv Hs.
      unfold GWS; simpl. repeat split; auto.
      + intros k v p H. destruct (In_upd _ _ _ _ H) as [H1|H1]; [discriminate|eauto].
      + intros k v H. destruct (In_upd _ _ _ _ H) as [H1|H1]; [discriminate|eauto].
  Qed.

  (* ---- every schedule ---- *)
  Lemma run_inv (P : state -> Prop) c :
    (forall s l s', P s -> step c s l = Some s' -> P s') ->
    forall ls s s', P s -> run c s ls = Some s' -> P s'.
  Proof.
    intros Hstep. induction ls as [|l t IH]; intros s s' Hp Hr; simpl in Hr; [inv Hr; auto|].
    destruct (step c s l) as [s1|] eqn:E; [|discriminate]. eapply IH; [|exact Hr]. eapply Hstep; eauto.
  Qed.

  Theorem cache_no_panic c ls s : run c init ls = Some s -> WF s.
  Proof. apply (run_inv WF c (step_WF c)). apply WF_init. Qed.

  Theorem cache_get_was_set c ls s : run c init ls = Some s -> GWS s.
  Proof. apply (run_inv GWS c (step_GWS c)). apply GWS_init. Qed.
  (* ---- the ghost log is exactly the list of Set arguments of the schedule ---- *)
  Ltac break_step H :=
    repeat match goal with
           | H' : context [match ?x with _ => _ end] |- _ => destruct x eqn:?; try discriminate
           | H' : context [if ?x then _ else _] |- _ => destruct x eqn:?; try discriminate
           end;
    repeat match goal with
           | H' : Some _ = Some _ |- _ => inversion H'; subst; clear H'
           end.

  Lemma step_thread_setlog c s i o p s' : step_thread keqb zero c s i o p = Some s' -> setlog s' = setlog s.
  Proof.
    intros H. destruct p; simpl in H; unfold room, open_partition in H; try discriminate; break_step H; reflexivity.
  Qed.

  Lemma step_setlog c s l s' x :
    step c s l = Some s' -> In x (setlog s') -> In x (setlog s) \/ l = LSpawn (OSet (fst x) (snd x)).
  Proof.
    intros Hs Hin. destruct l as [o|i| | |i]; simpl in Hs.
    - destruct o; inv Hs; simpl in Hin; auto. destruct Hin as [<-|H]; auto.
    - destruct (nth_error (threads s) i) as [[o p]|]; [|discriminate].
      rewrite (step_thread_setlog _ _ _ _ _ _ Hs) in Hin. auto.
    - inv Hs; auto.
    - inv Hs; auto.
    - break_step Hs. auto.
  Qed.

  Lemma run_setlog c ls : forall s s' x,
    run c s ls = Some s' -> In x (setlog s') -> In x (setlog s) \/ In (LSpawn (OSet (fst x) (snd x))) ls.
  Proof.
    induction ls as [|l t IH]; intros s s' x Hr Hin; simpl in Hr; [inv Hr; auto|].
    destruct (step c s l) as [s1|] eqn:E; [|discriminate].
    destruct (IH _ _ _ Hr Hin) as [H|H]; [|right; right; exact H].
    destruct (step_setlog _ _ _ _ _ E H) as [H'|H']; [auto|right; left; auto].
  Qed.

  Theorem cache_get_was_set_sched c ls s :
    run c init ls = Some s ->
    (forall m k v, In m (pmaps s) -> In (k, v) m -> In (LSpawn (OSet k v)) ls)
    /\ (forall k v, In (OGet k, PDone (RVal v)) (threads s) -> v = zero \/ In (LSpawn (OSet k v)) ls).
  Proof.
    intros Hr. destruct (cache_get_was_set _ _ _ Hr) as (H1 & _ & H3).
    assert (Hlog : forall k v, In (k, v) (setlog s) -> In (LSpawn (OSet k v)) ls).
    { intros k v H. destruct (run_setlog _ _ _ _ _ Hr H) as [[]|H']; exact H'. }
    split.
    - intros m k v Hm Hx. apply Hlog. eauto.
    - intros k v H. destruct (H3 _ _ H); auto.
  Qed.
End Safe.
