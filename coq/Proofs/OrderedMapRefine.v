(* The wrapper's operations against the finite-map specification, for single steps and whole histories. *)
From Coq Require Import List Bool ZArith Arith Sorted Lia.
From TC.Lib Require Import Assoc AssocProofs.
From TC.Model Require Import OrderedMap.
From TC.Proofs Require Import OrderedMapProofs.
Import ListNotations.
Local Open Scope Z_scope.

Section Refine.
  Context {V : Type}.
  Variable vnil : V.
  Notation omap := (@omap V).
  Notation op := (@op V).
  Notation res := (@res V).
  Notation state := (@state V).

  Definition empty_map (m : omap) : Prop := forall k, get k m = None.

  (* "r is what Min (lo = true) / Max (lo = false) must return for m" *)
  Definition extreme_spec (lo : bool) (m : omap) (r : res) : Prop :=
    (empty_map m /\ r = RKV 0 vnil)
    \/ exists k v, r = RKV k v /\ get k m = Some v
                   /\ forall k', get k' m <> None -> if lo then k <= k' else k' <= k.

  (* specification of one operation on one tree: m before, r returned, m' after; only [get] is used *)
  Definition spec1 (m : omap) (o : op) (r : res) (m' : omap) : Prop :=
    match o with
    | OSet k v => r = RUnit /\ forall k', get k' m' = if k' =? k then Some v else get k' m
    | OGet k => m' = m /\ r = ROpt (get k m)
    | ODelete k => r = ROpt (get k m) /\ forall k', get k' m' = if k' =? k then None else get k' m
    | OHas k => m' = m /\ exists b, r = RBool b /\ (b = true <-> get k m <> None)
    | OLen => m' = m /\ exists ks, NoDup ks /\ (forall k, In k ks <-> get k m <> None) /\ r = RNat (length ks)
    | OMin => m' = m /\ extreme_spec true m r
    | OMax => m' = m /\ extreme_spec false m r
    | ODeleteMin => extreme_spec true m r /\
        forall k', get k' m' = match r with RKV k _ => if k' =? k then None else get k' m | _ => get k' m end
    | ODeleteMax => extreme_spec false m r /\
        forall k', get k' m' = match r with RKV k _ => if k' =? k then None else get k' m | _ => get k' m end
    | OIter it a b cb => m' = m /\ exists R vis, r = RVisit vis
                         /\ range_spec m (in_range it a b) (descending it) R
                         /\ visit_spec (cb_go cb) R vis
    | OClone => m' = m /\ r = RUnit
    end.

  Definition wf (s : state) : Prop := sorted (fst s) /\ sorted (snd s).

  (* a step on the pair of trees: the receiver follows spec1; the other tree is untouched, except that
     Clone makes it a copy of the receiver *)
  Definition spec_step (s : state) (to : bool * op) (r : res) (s' : state) : Prop :=
    let (tgt, o) := to in
    spec1 (sel tgt s) o r (sel tgt s')
    /\ sel (negb tgt) s' = match o with OClone => sel tgt s | _ => sel (negb tgt) s end.

  Lemma empty_nil : empty_map ([] : omap).
  Proof. intros k. reflexivity. Qed.

  Lemma step1_refines (m : omap) (o : op) :
    sorted m -> sorted (fst (step1 vnil m o)) /\ spec1 m o (snd (step1 vnil m o)) (fst (step1 vnil m o)).
  Proof.
    intros H. destruct o; simpl.
    - split; [apply set_sorted, H|]. split; [reflexivity|]. intros k'. apply get_set.
    - split; [exact H|]. split; reflexivity.
    - split; [apply remove_sorted, H|]. split; [reflexivity|]. intros k'. apply get_remove, H.
    - split; [exact H|]. split; [reflexivity|]. eexists. split; [reflexivity|].
      destruct (get k m); split; congruence.
    - split; [exact H|]. split; [reflexivity|]. destruct (len_spec m H) as [L1 [L2 L3]].
      exists (keys m). split; [exact L1|]. split; [exact L2|]. rewrite L3. reflexivity.
    - split; [exact H|]. split; [reflexivity|]. destruct (min_item m) as [[k v]|] eqn:E; simpl.
      + right. exists k, v. split; [reflexivity|]. apply min_spec; assumption.
      + left. apply min_none in E. subst. split; [apply empty_nil|reflexivity].
    - split; [exact H|]. split; [reflexivity|]. destruct (max_item m) as [[k v]|] eqn:E; simpl.
      + right. exists k, v. split; [reflexivity|]. apply max_spec; assumption.
      + left. apply max_none in E. subst. split; [apply empty_nil|reflexivity].
    - destruct (min_item m) as [[k v]|] eqn:E; simpl.
      + split; [apply remove_sorted, H|]. split.
        * right. exists k, v. split; [reflexivity|]. apply min_spec; assumption.
        * intros k'. apply get_remove, H.
      + split; [exact H|]. apply min_none in E. subst. split.
        * left. split; [apply empty_nil|reflexivity].
        * intros k'. destruct (k' =? 0); reflexivity.
    - destruct (max_item m) as [[k v]|] eqn:E; simpl.
      + split; [apply remove_sorted, H|]. split.
        * right. exists k, v. split; [reflexivity|]. apply max_spec; assumption.
        * intros k'. apply get_remove, H.
      + split; [exact H|]. apply max_none in E. subst. split.
        * left. split; [apply empty_nil|reflexivity].
        * intros k'. destruct (k' =? 0); reflexivity.
    - split; [exact H|]. split; [reflexivity|]. unfold iterate.
      eexists. eexists. split; [reflexivity|]. split; [|apply visit_ok].
      destruct (descending it); [apply range_desc_spec, H|apply range_asc_spec, H].
    - split; [exact H|]. split; reflexivity.
  Qed.

  Lemma sel_upd_same tgt (s : state) m : sel tgt (upd tgt s m) = m.
  Proof. destruct tgt; reflexivity. Qed.
  Lemma sel_upd_other tgt (s : state) m : sel (negb tgt) (upd tgt s m) = sel (negb tgt) s.
  Proof. destruct tgt; reflexivity. Qed.
  Lemma wf_sel tgt (s : state) : wf s -> sorted (sel tgt s).
  Proof. intros [A B]. destruct tgt; assumption. Qed.
  Lemma wf_upd tgt (s : state) m : wf s -> sorted m -> wf (upd tgt s m).
  Proof. intros [A B] C. destruct tgt; split; assumption. Qed.

  Lemma step_refines (s : state) (to : bool * op) :
    wf s -> wf (fst (step vnil s to)) /\ spec_step s to (snd (step vnil s to)) (fst (step vnil s to)).
  Proof.
    intros W. destruct to as [tgt o]. unfold spec_step.
    assert (G : forall o', (match o' with OClone => False | _ => True end) ->
              step vnil s (tgt, o') = (upd tgt s (fst (step1 vnil (sel tgt s) o')), snd (step1 vnil (sel tgt s) o'))).
    { intros o' Ho. unfold step. destruct (step1 vnil (sel tgt s) o') eqn:E. destruct o'; try reflexivity. contradiction. }
    destruct (step1_refines (sel tgt s) o (wf_sel tgt s W)) as [S1 S2].
    destruct o; try (rewrite G by exact I; simpl fst; simpl snd; rewrite sel_upd_same, sel_upd_other;
                     split; [apply wf_upd; assumption|split; [exact S2|reflexivity]]).
    (* Clone *)
    simpl. split; [apply wf_upd; [exact W|apply wf_sel, W]|].
    destruct tgt, s; simpl; repeat split.
  Qed.

  Lemma wf_init : wf (@init V).
  Proof. split; constructor. Qed.

  Lemma run_wf ops (s : state) : wf s -> wf (fst (run vnil s ops)).
  Proof.
    revert s. induction ops as [|o t IH]; intros s W; simpl; [exact W|].
    destruct (step vnil s o) as [s' r] eqn:E. destruct (run vnil s' t) as [s'' rs] eqn:E2. simpl.
    specialize (IH s'). rewrite E2 in IH. apply IH.
    pose proof (step_refines s o W) as [W' _]. rewrite E in W'. exact W'.
  Qed.

  Lemma run_snoc ops o (s : state) :
    run vnil s (ops ++ [o]) =
      (fst (step vnil (fst (run vnil s ops)) o),
       snd (run vnil s ops) ++ [snd (step vnil (fst (run vnil s ops)) o)]).
  Proof.
    revert s. induction ops as [|x t IH]; intros s; simpl.
    - destruct (step vnil s o); reflexivity.
    - destruct (step vnil s x) as [s' r]. rewrite IH. destruct (run vnil s' t). reflexivity.
  Qed.
End Refine.
