(* Conservation of work items in the work-queue model (fixed code): every id ever created by Enqueue is in exactly
   one place; worker-pool and channel-capacity identities; position fields outside the heap; workItems. *)
From Coq Require Import List Arith ZArith Bool Lia Permutation.
From TC.Lib Require Import GoHeap GoHeapProofs.
From TC.Model Require Import WQ.
From TC.Proofs Require Import WQHeap WQInv.
Import ListNotations.

(* ---- counting ids ---- *)
Fixpoint cntn (k : nat) (l : list nat) : nat :=
  match l with [] => 0 | x :: t => (if x =? k then 1 else 0) + cntn k t end.
Definition cnt (k : nat) (l : list item) : nat := cntn k (map iid l).

Lemma cntn_app k l l' : cntn k (l ++ l') = cntn k l + cntn k l'.
Proof. induction l as [|a t IH]; cbn; [reflexivity|]. rewrite IH. lia. Qed.
Lemma cntn_perm k l l' : Permutation l l' -> cntn k l = cntn k l'.
Proof. induction 1; cbn; lia. Qed.
Lemma cntn_in k l : In k l <-> 0 < cntn k l.
Proof.
  induction l as [|a t IH]; cbn; [split; [intros []|lia]|].
  destruct (Nat.eqb_spec a k); split; intros H; try lia; auto.
  - destruct H; [contradiction|]. apply IH in H. lia.
  - right. apply IH. lia.
Qed.
Lemma cntn_remove_id k id l : cntn k (remove_id id l) = if k =? id then 0 else cntn k l.
Proof.
  unfold remove_id. induction l as [|a t IH]; cbn; [destruct (k =? id); reflexivity|].
  destruct (Nat.eqb_spec a id); cbn.
  - rewrite IH. destruct (Nat.eqb_spec k id); [reflexivity|]. destruct (Nat.eqb_spec a k); [congruence|reflexivity].
  - rewrite IH. destruct (Nat.eqb_spec k id); [|reflexivity]. destruct (Nat.eqb_spec a k); [congruence|reflexivity].
Qed.
Lemma cntn_nodup l : (forall k, cntn k l <= 1) -> NoDup l.
Proof.
  induction l as [|a t IH]; intros H; constructor.
  - intros Hin. apply cntn_in in Hin. specialize (H a). cbn in H. rewrite Nat.eqb_refl in H. lia.
  - apply IH. intros k. specialize (H k). cbn in H. lia.
Qed.

Lemma cnt_nil k : cnt k [] = 0. Proof. reflexivity. Qed.
Lemma cnt_cons k x l : cnt k (x :: l) = (if iid x =? k then 1 else 0) + cnt k l.
Proof. reflexivity. Qed.
Lemma cnt_app k l l' : cnt k (l ++ l') = cnt k l + cnt k l'.
Proof. unfold cnt. rewrite map_app. apply cntn_app. Qed.
Lemma cnt_in k l : 0 < cnt k l <-> exists x, In x l /\ iid x = k.
Proof.
  unfold cnt. rewrite <- cntn_in, in_map_iff. split; intros (x & H1 & H2); eauto.
Qed.
Lemma cnt_perm_ids k l l' : Permutation (map iid l) (map iid l') -> cnt k l = cnt k l'.
Proof. apply cntn_perm. Qed.
Lemma cnt_perm_key k l l' : Permutation (map ikey l) (map ikey l') -> cnt k l = cnt k l'.
Proof. intros P. apply cnt_perm_ids, perm_key_ids, P. Qed.
Lemma cnt_map k (f : item -> item) l : (forall x, iid (f x) = iid x) -> cnt k (map f l) = cnt k l.
Proof. intros Hf. unfold cnt. rewrite map_map. erewrite map_ext; [reflexivity|]. exact Hf. Qed.

Lemma take_item_spec id l x r :
  take_item id l = Some (x, r) ->
  iid x = id /\ In x l /\ (forall k, cnt k l = (if id =? k then 1 else 0) + cnt k r) /\
  length l = S (length r) /\ (forall y, In y r -> In y l).
Proof.
  revert x r. induction l as [|a t IH]; cbn [take_item]; [discriminate|]. intros x r.
  destruct (Nat.eqb_spec (iid a) id) as [E|E].
  - intros H. injection H as <- <-. split; [exact E|]. split; [left; reflexivity|].
    split; [intros k; rewrite cnt_cons, E; reflexivity|]. split; [reflexivity|]. intros y Hy. right. exact Hy.
  - destruct (take_item id t) as [[y t']|]; [|discriminate]. intros H. injection H as <- <-.
    destruct (IH y t' eq_refl) as (H1 & H2 & H3 & H4 & H5).
    split; [exact H1|]. split; [right; exact H2|].
    split; [intros k; rewrite !cnt_cons, H3; lia|]. split; [cbn; lia|].
    intros z [<-|Hz]; [left; reflexivity|right; apply H5, Hz].
Qed.

Lemma take_err_spec id l x e r :
  take_err id l = Some (x, e, r) ->
  iid x = id /\ In (x, e) l /\ (forall k, cnt k (map fst l) = (if id =? k then 1 else 0) + cnt k (map fst r)) /\
  length l = S (length r) /\ In x (map fst l) /\ (forall y, In y (map fst r) -> In y (map fst l)) /\
  (forall y, In y r -> In y l).
Proof.
  revert x e r. induction l as [|[a ea] t IH]; cbn [take_err]; [discriminate|]. intros x e r.
  destruct (Nat.eqb_spec (iid a) id) as [E|E].
  - intros H. injection H as <- <- <-. split; [exact E|]. split; [left; reflexivity|].
    split; [intros k; cbn [map fst]; rewrite cnt_cons, E; reflexivity|]. split; [reflexivity|].
    split; [left; reflexivity|]. split; intros y Hy; right; exact Hy.
  - destruct (take_err id t) as [[[y ey] t']|]; [|discriminate]. intros H. injection H as <- <- <-.
    destruct (IH y ey t' eq_refl) as (H1 & H2 & H3 & H4 & H5 & H6 & H7).
    split; [exact H1|]. split; [right; exact H2|].
    split; [intros k; cbn [map fst]; rewrite !cnt_cons, H3; lia|]. split; [cbn; lia|].
    split; [right; exact H5|]. split.
    + intros z [<-|Hz]; [left; reflexivity|right; apply H6, Hz].
    + intros z [<-|Hz]; [left; reflexivity|right; apply H7, Hz].
Qed.

(* heap operations *)
Lemma cnt_push k l w : cnt k (h_push wlt set_pos l w) = (if iid w =? k then 1 else 0) + cnt k l.
Proof. rewrite (cnt_perm_key k _ (w :: l)); [reflexivity|apply w_push_perm]. Qed.
Lemma cnt_pop k l x l' : h_pop wlt set_pos l = Some (x, l') -> cnt k l = (if iid x =? k then 1 else 0) + cnt k l'.
Proof. intros H. rewrite <- (cnt_perm_key k (x :: l') l); [reflexivity|apply w_pop_perm, H]. Qed.
Lemma cnt_remove k l i x l' :
  h_remove wlt set_pos l i = Some (x, l') -> cnt k l = (if iid x =? k then 1 else 0) + cnt k l'.
Proof. intros H. rewrite <- (cnt_perm_key k (x :: l') l); [reflexivity|eapply w_remove_perm, H]. Qed.
Lemma cnt_adjust k vals l : cnt k (fst (adjust fixed vals l)) = cnt k l.
Proof.
  rewrite (cnt_perm_key k _ _ (adjust_perm vals l)). unfold adjust_all. apply cnt_map. reflexivity.
Qed.
Lemma cnt_fix k l i : cnt k (h_fix wlt set_pos l i) = cnt k l.
Proof. apply cnt_perm_key, w_fix_perm. Qed.

(* ---- conservation ---- *)
Definition total (k : nat) (s : state) : nat :=
  cnt k (producers s) + cnt k (held (disp s)) + cnt k (heap s) + cnt k (buffer s) + cnt k (running s)
  + cnt k (map fst (senderr s)) + cnt k (deleting s) + cnt k (removed s) + cnt k (dropped s) + cntn k (done s).

Definition cons_inv (s : state) : Prop := forall k, total k s = if k <? nextid s then 1 else 0.

Ltac fin :=
  repeat match goal with
    | |- context[if ?a =? ?b then _ else _] => destruct (Nat.eqb_spec a b)
    | |- context[if ?a <? ?b then _ else _] => destruct (Nat.ltb_spec a b)
    | H : context[if ?a =? ?b then _ else _] |- _ => destruct (Nat.eqb_spec a b)
    | H : context[if ?a <? ?b then _ else _] |- _ => destruct (Nat.ltb_spec a b)
    end; subst; try lia.

Lemma decide_cnt vals s x s1 :
  decide fixed vals s = Some (x, s1) ->
  exists h2, (forall k, cnt k (heap s) = (if iid x =? k then 1 else 0) + cnt k h2) /\
             s1 = ev (EvDecide (heap s) vals (consults (heap s)) x) (set_heap h2 s) /\
             length (heap s) = S (length h2) /\ ipos x = (-1)%Z.
Proof.
  intros D. apply decide_spec in D. destruct D as (h2 & Hpop & ->). exists h2. split; [|split; [reflexivity|]].
  - intros k. rewrite <- (cnt_adjust k vals (heap s)). apply cnt_pop, Hpop.
  - split.
    + pose proof (Permutation_length (adjust_perm vals (heap s))) as Hl. rewrite !map_length in Hl.
      unfold adjust_all in Hl. rewrite map_length in Hl. rewrite <- Hl.
      apply (h_pop_length wlt set_pos _ _ _ Hpop).
    + pose proof (w_pop_ok _ _ _ (adjust_ok vals (heap s)) Hpop) as _.
      unfold h_pop in Hpop. destruct (length (fst (adjust fixed vals (heap s)))); [discriminate|].
      unfold pop_last in Hpop.
      destruct (length (fst (down wlt set_pos (S n) (swap set_pos (fst (adjust fixed vals (heap s))) 0 n) 0 n))); [discriminate|].
      destruct (nth_error _ _); [|discriminate]. injection Hpop as <- _. reflexivity.
Qed.

Lemma cons_init W L : cons_inv (init W L).
Proof. intros k. reflexivity. Qed.

Ltac unset :=
  cbn [trace disp heap nextseq nextid ev set_trace set_disp set_heap set_nextseq set_producers set_buffer set_tokens
       set_workitems set_removed set_dropped set_nextid set_running set_idle set_senderr set_deleting
       set_mon set_done set_posting set_wexited set_subs set_nextsub set_sL set_stopped set_cancelled
       set_breaked set_sem_closed set_wch_closed set_err_closed set_work_closed set_panicked
       producers buffer tokens idle running senderr deleting posting wexited workitems removed dropped mon subs
       nextsub stopped breaked cancelled sem_closed wch_closed err_closed work_closed panicked done sW sL] in *.

Ltac cnt_norm :=
  repeat progress (cbn [held map fst cntn iid set_seq set_st set_pos set_prio] in *;
                   rewrite ?map_app, ?cnt_app, ?cntn_app, ?cnt_cons, ?cnt_nil, ?cnt_push in * ).

Lemma cons_step s l s' : cons_inv s -> step fixed s l = Some s' -> cons_inv s'.
Proof.
  intros Hc H. step_inv H; intros kk; specialize (Hc kk); unfold total in *; unset;
    repeat match goal with
      | T : take_item _ _ = Some _ |- _ => apply take_item_spec in T; destruct T as (? & _ & T & _ & _); rewrite (T kk) in Hc
      | T : take_err _ _ = Some _ |- _ => apply take_err_spec in T; destruct T as (? & _ & T & _); rewrite (T kk) in Hc
      | D : decide _ _ _ = Some _ |- _ =>
          apply decide_cnt in D; destruct D as (? & D & -> & _ & _); unset; rewrite (D kk) in Hc
      end;
    repeat match goal with
      | E : disp s = _ |- _ => rewrite E in *; clear E
      | E : heap s = _ |- _ => rewrite E in *; clear E
      | E : buffer s = _ |- _ => rewrite E in *; clear E
      end;
    cnt_norm; try (fin; fail).
  - (* Dequeue *)
    assert (E : l1 = fst (adjust fixed vals l0)) by (rewrite Heqp1; reflexivity). subst l1.
    rewrite cnt_adjust.
    assert (Hh : cnt kk (heap s) = cnt kk l + cnt kk l0).
    { destruct (0 <=? ipos i)%Z.
      - destruct (h_remove wlt set_pos (heap s) (Z.to_nat (ipos i))) as [[x h']|] eqn:Er; [|discriminate].
        injection Heqo0 as <- <-. rewrite (cnt_remove kk _ _ _ _ Er). cnt_norm. lia.
      - injection Heqo0 as <- <-. reflexivity. }
    lia.
  - (* SetPrio *)
    match goal with E : adjust fixed vals ?h = (l, _) |- _ =>
      assert (E' : l = fst (adjust fixed vals h)) by (rewrite E; reflexivity) end. subst l.
    rewrite cnt_adjust, cnt_fix, cnt_map; [exact Hc|]. intros x. destruct (iid x =? id); reflexivity.
  - match goal with T : forall k, cnt k (map fst (senderr s)) = _ |- _ => rewrite <- (T kk) in Hc end. exact Hc.
Qed.

Theorem cons_reach s : reach fixed s -> cons_inv s.
Proof. induction 1; [apply cons_init|eapply cons_step; eauto]. Qed.

(* ---- I0: worker-pool identity and channel capacities ---- *)
Definition winv (s : state) : Prop :=
  idle s + length (running s) + length (senderr s) + length (deleting s) + posting s + wexited s = sW s /\
  length (buffer s) <= sW s /\ tokens s <= sW s.

Lemma winv_init W L : winv (init W L).
Proof. unfold winv. cbn. lia. Qed.

Lemma decide_frame vals s x s1 :
  decide fixed vals s = Some (x, s1) ->
  exists h2, s1 = ev (EvDecide (heap s) vals (consults (heap s)) x) (set_heap h2 s).
Proof. intros D. apply decide_spec in D. destruct D as (h2 & _ & ->). eauto. Qed.

Lemma winv_step s l s' : winv s -> step fixed s l = Some s' -> winv s'.
Proof.
  intros (H1 & H2 & H3) H. unfold winv.
  step_inv H; unset;
    repeat match goal with
      | T : take_item _ _ = Some _ |- _ => apply take_item_spec in T; destruct T as (_ & _ & _ & T & _)
      | T : take_err _ _ = Some _ |- _ => apply take_err_spec in T; destruct T as (_ & _ & _ & T)
      | D : decide _ _ _ = Some _ |- _ => apply decide_frame in D; destruct D as (? & ->); unset
      | B : buffer_room _ = true |- _ => unfold buffer_room in B; apply Nat.ltb_lt in B
      | B : negb (no_handoff _) = true |- _ =>
          unfold no_handoff, buffer_room in B; apply negb_true_iff, orb_false_iff in B; destruct B as [_ B];
          apply negb_false_iff, Nat.ltb_lt in B
      | B : (_ <? _) = true |- _ => apply Nat.ltb_lt in B
      end;
    repeat match goal with
      | E : buffer s = _ |- _ => rewrite E in *; clear E
      | E : idle s = _ |- _ => rewrite E in *; clear E
      | E : posting s = _ |- _ => rewrite E in *; clear E
      | E : tokens s = _ |- _ => rewrite E in *; clear E
      end;
    rewrite ?app_length in *; cbn [length] in *; try lia.
Qed.

Theorem winv_reach s : reach fixed s -> winv s.
Proof. induction 1; [apply winv_init|eapply winv_step; eauto]. Qed.

(* ---- started items are exactly those executing or past execution ---- *)
Fixpoint nstart (k : nat) (tr : list event) : nat :=
  match tr with
  | [] => 0
  | EvStart id :: r => (if id =? k then 1 else 0) + nstart k r
  | _ :: r => nstart k r
  end.

Definition started_inv (s : state) : Prop :=
  forall k, nstart k (trace s) = cnt k (running s) + cnt k (map fst (senderr s)) + cnt k (deleting s) + cntn k (done s).

Lemma started_step s l s' : started_inv s -> step fixed s l = Some s' -> started_inv s'.
Proof.
  intros Hc H. step_inv H; intros kk; specialize (Hc kk); unset;
    repeat match goal with
      | T : take_item _ _ = Some _ |- _ => apply take_item_spec in T; destruct T as (? & _ & T & _ & _); rewrite (T kk) in Hc
      | T : take_err _ _ = Some _ |- _ => apply take_err_spec in T; destruct T as (? & _ & T & _); rewrite (T kk) in Hc
      | D : decide _ _ _ = Some _ |- _ => apply decide_frame in D; destruct D as (? & ->); unset
      end;
    cbn [nstart] in *; cnt_norm; try (fin; fail).
  match goal with T : forall k, cnt k (map fst (senderr s)) = _ |- _ => rewrite <- (T kk) in Hc end. exact Hc.
Qed.

Theorem started_reach s : reach fixed s -> started_inv s.
Proof. induction 1; [intros k; reflexivity|eapply started_step; eauto]. Qed.

Theorem at_most_once s k : reach fixed s -> nstart k (trace s) <= 1.
Proof.
  intros R. pose proof (started_reach s R k) as Hs. pose proof (cons_reach s R k) as Hc.
  unfold total in Hc. destruct (k <? nextid s); lia.
Qed.

(* ---- position fields outside the heap (until the shutdown drain moves heap items out) ---- *)
Definition predrain (s : state) : bool :=
  match disp s with PhDrain _ | PhClosing _ | PhExited => false | _ => true end.

Definition others (s : state) : list item :=
  producers s ++ held (disp s) ++ buffer s ++ running s ++ map fst (senderr s) ++ deleting s ++ removed s ++ dropped s.

Definition pos_out (s : state) : Prop :=
  (predrain s = true -> forall x, In x (others s) -> ipos x = (-1)%Z) /\
  (predrain s = false -> heap s = []).

Lemma pos_out_init W L : pos_out (init W L).
Proof. split; [intros _ x []|discriminate]. Qed.

Lemma in_others s x :
  In x (others s) <->
  In x (producers s) \/ In x (held (disp s)) \/ In x (buffer s) \/ In x (running s) \/ In x (map fst (senderr s))
  \/ In x (deleting s) \/ In x (removed s) \/ In x (dropped s).
Proof. unfold others. rewrite !in_app_iff. tauto. Qed.

Lemma adjust_length vals l : length (fst (adjust fixed vals l)) = length l.
Proof.
  pose proof (Permutation_length (adjust_perm vals l)) as Hl. rewrite !map_length in Hl.
  unfold adjust_all in Hl. rewrite map_length in Hl. exact Hl.
Qed.

Lemma deq_heap_spec h (i : item) l l0 :
  pok h ->
  (if (0 <=? ipos i)%Z
   then match h_remove wlt set_pos h (Z.to_nat (ipos i)) with
        | Some (x, h') => Some ([x], h')
        | None => None
        end
   else Some ([], h)) = Some (l, l0) ->
  (forall x, In x l -> ipos x = (-1)%Z) /\ (h = [] -> l0 = []) /\ pok l0 /\
  (forall k, cnt k h = cnt k l + cnt k l0).
Proof.
  intros Hp H. destruct (0 <=? ipos i)%Z.
  - destruct (h_remove wlt set_pos h (Z.to_nat (ipos i))) as [[x h']|] eqn:Er; [|discriminate].
    injection H as <- <-. destruct (w_remove_pos _ _ _ _ Hp Er) as [Hp' Hx].
    split; [intros y [<-|[]]; exact Hx|]. split; [intros ->; discriminate Er|]. split; [exact Hp'|].
    intros k. rewrite (cnt_remove k _ _ _ _ Er). cnt_norm. lia.
  - injection H as <- <-. split; [intros x []|]. split; [auto|]. split; [exact Hp|]. intros k. reflexivity.
Qed.

Lemma pos_out_step s l s' : hinv s -> pos_out s -> step fixed s l = Some s' -> pos_out s'.
Proof.
  intros Hh [Hp Hd] H. unfold pos_out, predrain in *.
  step_inv H; unset;
    repeat match goal with
      | E : disp _ = _ |- _ => rewrite E in *; clear E
      end;
    (split; [intros Hpre; try discriminate Hpre; try specialize (Hp eq_refl); try specialize (Hp Hpre)
            |intros Hpre; try discriminate Hpre; try (apply Hd; exact Hpre); try reflexivity]).
  all: try (intros xx Hx; apply in_others in Hx; unset; cbn [held] in *;
            repeat match goal with
              | E : disp _ = _ |- _ => rewrite E in *; clear E
              | T : take_item _ _ = Some _ |- _ => apply take_item_spec in T; destruct T as (_ & ? & _ & _ & ?)
              | T : take_err _ _ = Some _ |- _ => apply take_err_spec in T; destruct T as (_ & _ & _ & _ & ? & ? & _)
              end;
            repeat progress (rewrite ?map_app, ?in_app_iff in Hx; cbn [In map fst held] in Hx)).
  all: repeat match goal with
         | D : decide _ _ _ = Some _ |- _ => apply decide_cnt in D; destruct D as (? & _ & -> & _ & ?); unset
         end.
  all: try (decompose [or] Hx; clear Hx; subst;
            solve [ reflexivity | assumption | contradiction
                  | cbn [ipos set_seq set_st set_prio];
                    apply Hp, in_others; try match goal with E : disp _ = _ |- _ => rewrite E end;
                    try match goal with E : buffer _ = _ |- _ => rewrite E in * end;
                    cbn [held]; rewrite ?in_app_iff; cbn [In]; intuition eauto ]).
  - (* Dequeue, before the drain *)
    destruct (deq_heap_spec _ _ _ _ (proj2 Hh) Heqo0) as (Hl & _).
    decompose [or] Hx; clear Hx; try (apply Hl; assumption);
      apply Hp, in_others; cbn [held]; rewrite ?in_app_iff; cbn [In]; intuition eauto.
  - (* Dequeue, after the drain *)
    destruct (deq_heap_spec _ _ _ _ (proj2 Hh) Heqo0) as (_ & Hl & _).
    rewrite (Hl (Hd Hpre)) in Heqp1. cbn in Heqp1. injection Heqp1 as <- _. reflexivity.
  - (* SetPrio after the drain *)
    assert (E : l = fst (adjust fixed vals (h_fix wlt set_pos
              (map (fun x => if iid x =? id then set_prio p x else x) (heap s)) (Z.to_nat (ipos i)))))
      by (rewrite Heqp0; reflexivity).
    assert (Hl : length l = 0).
    { rewrite E, adjust_length, (h_fix_length wlt set_pos), map_length, (Hd Hpre). reflexivity. }
    destruct l; [reflexivity|discriminate Hl].
Qed.

Theorem pos_out_reach s : reach fixed s -> pos_out s.
Proof.
  induction 1 as [|s l s' R IH H]; [apply pos_out_init|].
  eapply pos_out_step; eauto. apply hinv_reach, R.
Qed.

(* ---- workItems.Load ---- *)
Lemma in_all_items s x : In x (all_items s) <-> In x (heap s) \/ In x (others s).
Proof. unfold all_items, others. rewrite !in_app_iff. tauto. Qed.

Lemma find_item_spec id s it :
  find_item id s = Some it -> iid it = id /\ In it (all_items s) /\ memn id (workitems s) = true.
Proof.
  unfold find_item. destruct (memn id (workitems s)); [|discriminate]. intros H.
  apply find_some in H. destruct H as [H1 H2]. apply Nat.eqb_eq in H2. auto.
Qed.

Lemma pok_in l x : pok l -> In x l -> nth_error l (Z.to_nat (ipos x)) = Some x /\ (0 <= ipos x)%Z.
Proof.
  intros Hp Hx. apply In_nth_error in Hx. destruct Hx as (i & Hi). rewrite (Hp i x Hi), Nat2Z.id. split; [exact Hi|lia].
Qed.

(* the item Dequeue / SetPriority find with position >= 0 is in the heap, at that index *)
Lemma target_in_heap id s it :
  hinv s -> pos_out s -> predrain s = true -> find_item id s = Some it -> (ipos it <? 0)%Z = false ->
  iid it = id /\ In it (heap s) /\ nth_error (heap s) (Z.to_nat (ipos it)) = Some it.
Proof.
  intros [Ho Hp] [Hout _] Hpre Hf Hpos. apply find_item_spec in Hf. destruct Hf as (Hid & Hin & _).
  apply Z.ltb_ge in Hpos. apply in_all_items in Hin. destruct Hin as [Hin|Hin].
  - split; [exact Hid|]. split; [exact Hin|]. apply (pok_in _ _ Hp Hin).
  - specialize (Hout Hpre it Hin). lia.
Qed.

Definition wi_inv (s : state) : Prop :=
  forall k, cntn k (workitems s) =
            cnt k (producers s) + cnt k (held (disp s)) + cnt k (heap s) + cnt k (buffer s) + cnt k (running s)
            + cnt k (map fst (senderr s)) + cnt k (deleting s) + cnt k (dropped s).

Lemma memn_cntn k l : memn k l = true <-> 0 < cntn k l.
Proof.
  rewrite <- cntn_in. unfold memn. rewrite existsb_exists. split.
  - intros (x & Hx & E). apply Nat.eqb_eq in E. subst. exact Hx.
  - intros H. exists k. split; [exact H|apply Nat.eqb_refl].
Qed.

Lemma wi_step s l s' :
  hinv s -> pos_out s -> cons_inv s -> wi_inv s -> step fixed s l = Some s' -> wi_inv s'.
Proof.
  intros Hh Hpo Hc Hw H. step_inv H; intros kk; specialize (Hw kk); pose proof (Hc kk) as Hck; unfold total in Hck; unset;
    repeat match goal with
      | T : take_item _ _ = Some _ |- _ =>
          apply take_item_spec in T; destruct T as (? & _ & T & _ & _); rewrite (T kk) in Hw; rewrite (T kk) in Hck
      | T : take_err _ _ = Some _ |- _ =>
          apply take_err_spec in T; destruct T as (? & _ & T & _); rewrite (T kk) in Hw; rewrite (T kk) in Hck
      | D : decide _ _ _ = Some _ |- _ =>
          apply decide_cnt in D; destruct D as (? & D & -> & _ & _); unset; rewrite (D kk) in Hw
      end;
    repeat match goal with
      | E : disp s = _ |- _ => rewrite E in *; clear E
      | E : heap s = _ |- _ => rewrite E in *; clear E
      | E : buffer s = _ |- _ => rewrite E in *; clear E
      end;
    rewrite ?cntn_remove_id; cnt_norm; try (fin; fail).
  - (* Dequeue *)
    cbn in Heqb1.
    assert (E : l1 = fst (adjust fixed vals l0)) by (rewrite Heqp1; reflexivity). subst l1. rewrite cnt_adjust.
    destruct (predrain s) eqn:Hpre.
    + destruct (target_in_heap _ _ _ Hh Hpo Hpre Heqo Heqb1) as (Hid & Hin & Hnth).
      destruct (w_remove_ok _ _ _ (proj1 Hh) Hnth) as (x & h' & Hr & _ & Hk & _).
      rewrite Hr in Heqo0. assert (Hge : (0 <=? ipos i)%Z = true) by (apply Z.leb_le; apply Z.ltb_ge in Heqb1; lia).
      rewrite Hge in Heqo0. injection Heqo0 as <- <-.
      pose proof (cnt_remove kk _ _ _ _ Hr) as Hcr.
      assert (Hx : iid x = id) by (rewrite <- Hid; exact (f_equal iid Hk)).
      rewrite Hx in Hcr. fin.
    + destruct Hpo as [_ Hd]. specialize (Hd Hpre). rewrite Hd in Heqo0.
      destruct (0 <=? ipos i)%Z eqn:Hge; [discriminate Heqo0|].
      apply Z.leb_gt in Hge. apply Z.ltb_ge in Heqb1. lia.
  - (* SetPrio *)
    match goal with E : adjust fixed vals ?h = (l, _) |- _ =>
      assert (E' : l = fst (adjust fixed vals h)) by (rewrite E; reflexivity) end. subst l.
    rewrite cnt_adjust, cnt_fix, cnt_map; [exact Hw|]. intros x. destruct (iid x =? id); reflexivity.
  - match goal with T : forall k, cnt k (map fst (senderr s)) = _ |- _ => rewrite <- (T kk) in Hw end. exact Hw.
Qed.

Theorem wi_reach s : reach fixed s -> wi_inv s.
Proof.
  induction 1 as [|s l s' R IH H]; [intros k; reflexivity|].
  eapply wi_step; eauto using hinv_reach, pos_out_reach, cons_reach.
Qed.
