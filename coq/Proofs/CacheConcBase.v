(* List / association-list / run lemmas shared by the CacheConc proofs. *)
From Coq Require Import List Arith Bool Lia.
From TC.Model Require Import CacheConc.
Import ListNotations.

Ltac inv H := inversion H; subst; clear H.
(* case-split every match / if that occurs in a hypothesis, then open the resulting [Some _ = Some _] *)
Ltac break_all :=
  repeat match goal with
         | H' : context [match ?x with _ => _ end] |- _ => destruct x eqn:?; try discriminate
         | H' : context [if ?x then _ else _] |- _ => destruct x eqn:?; try discriminate
         end;
  repeat match goal with
         | H' : Some _ = Some _ |- _ => inversion H'; subst; clear H'
         end.

Lemma upd_length {A} n (x : A) l : length (upd n x l) = length l.
Proof. revert n; induction l as [|y t IH]; intros [|n]; simpl; auto. Qed.

Lemma nth_error_upd_eq {A} n (x : A) l : n < length l -> nth_error (upd n x l) n = Some x.
Proof. revert n; induction l as [|y t IH]; intros [|n] H; simpl in *; try lia; auto. apply IH; lia. Qed.

Lemma nth_error_upd_neq {A} n m (x : A) l : n <> m -> nth_error (upd n x l) m = nth_error l m.
Proof. revert n m; induction l as [|y t IH]; intros [|n] [|m] H; simpl; auto; try congruence. Qed.

Lemma nth_error_upd {A} n m (x : A) l :
  nth_error (upd n x l) m = if (n =? m) && (n <? length l) then Some x else nth_error l m.
Proof.
  destruct (Nat.eqb_spec n m) as [->|Hne]; simpl.
  - destruct (Nat.ltb_spec m (length l)).
    + apply nth_error_upd_eq; auto.
    + assert (E : nth_error l m = None) by (apply nth_error_None; lia).
      rewrite E. apply nth_error_None. rewrite upd_length. lia.
  - apply nth_error_upd_neq; auto.
Qed.

Lemma In_upd {A} n (x y : A) l : In y (upd n x l) -> y = x \/ In y l.
Proof.
  revert n; induction l as [|z t IH]; intros [|n] H; simpl in *; auto.
  - destruct H; auto.
  - destruct H as [H|H]; auto. destruct (IH _ H); auto.
Qed.

Lemma Forall_upd {A} (P : A -> Prop) n x l : Forall P l -> P x -> Forall P (upd n x l).
Proof.
  intros Hl Hx. apply Forall_forall. intros y Hy. destruct (In_upd _ _ _ _ Hy) as [->|H]; auto.
  rewrite Forall_forall in Hl; auto.
Qed.

Lemma nth_upd_eq {A} n (x d : A) l : n < length l -> nth n (upd n x l) d = x.
Proof. revert n; induction l as [|y t IH]; intros [|n] H; simpl in *; try lia; auto. apply IH; lia. Qed.

Lemma nth_upd_neq {A} n m (x d : A) l : n <> m -> nth m (upd n x l) d = nth m l d.
Proof. revert n m; induction l as [|y t IH]; intros [|n] [|m] H; simpl; auto; try congruence. Qed.

Lemma nth_error_nth' {A} (l : list A) n x d : nth_error l n = Some x -> nth n l d = x.
Proof. revert n; induction l as [|y t IH]; intros [|n] H; simpl in *; try discriminate; [congruence|auto]. Qed.

Lemma nth_error_lt {A} (l : list A) n x : nth_error l n = Some x -> n < length l.
Proof. intros H. apply nth_error_Some. congruence. Qed.

Lemma nth_error_app_new {A} (l : list A) x : nth_error (l ++ [x]) (length l) = Some x.
Proof. rewrite nth_error_app2 by lia. rewrite Nat.sub_diag. reflexivity. Qed.

Section AL.
  Context {K : Type}.
  Variable keqb : K -> K -> bool.
  Hypothesis keqb_spec : forall a b, reflect (a = b) (keqb a b).

  Lemma lookup_In {B} k (m : list (K * B)) b : lookup keqb k m = Some b -> In (k, b) m.
  Proof.
    induction m as [|[k' b'] t IH]; simpl; [discriminate|].
    destruct (keqb_spec k k') as [->|Hne]; intros H; [injection H as ->; auto|auto].
  Qed.

  Lemma In_aset {B} k (b : B) m x : In x (aset keqb k b m) -> x = (k, b) \/ In x m.
  Proof.
    induction m as [|[k' b'] t IH]; simpl.
    - intros [<-|[]]; auto.
    - destruct (keqb k k'); simpl; intros [H|H]; auto. destruct (IH H); auto.
  Qed.

  Lemma In_adel {B} k (m : list (K * B)) x : In x (adel keqb k m) -> In x m.
  Proof.
    induction m as [|[k' b'] t IH]; simpl; auto.
    destruct (keqb k k'); simpl; auto. intros [H|H]; auto.
  Qed.

  Lemma lookup_aset_eq {B} k (b : B) m : lookup keqb k (aset keqb k b m) = Some b.
  Proof.
    induction m as [|[k' b'] t IH]; simpl.
    - destruct (keqb_spec k k); congruence.
    - destruct (keqb_spec k k') as [->|Hne]; simpl.
      + destruct (keqb_spec k' k'); congruence.
      + destruct (keqb_spec k k'); congruence.
  Qed.

  Lemma lookup_aset_neq {B} k k' (b : B) m : k <> k' -> lookup keqb k' (aset keqb k b m) = lookup keqb k' m.
  Proof.
    intros Hne. induction m as [|[k2 b2] t IH]; simpl.
    - destruct (keqb_spec k' k); congruence.
    - destruct (keqb_spec k k2) as [->|H2]; simpl.
      + destruct (keqb_spec k' k2); congruence.
      + destruct (keqb_spec k' k2); congruence.
  Qed.

  Lemma aset_length {B} k (b : B) m : length m <= length (aset keqb k b m) <= S (length m).
  Proof.
    induction m as [|[k' b'] t IH]; simpl; [lia|]. destruct (keqb k k'); simpl; lia.
  Qed.
End AL.
