(* Proofs about Model/SyncMap.v: for every operation sequence the (fixed) wrapper never panics and its
   outputs are those of the reference map K -> option V; the concurrent object (one atomic sync.Map call,
   then a local assertion) is linearisable w.r.t. the sequential model — RELATIVE to the sync.Map contract. *)
From Coq Require Import List Bool Arith Lia.
From TC.Lib Require Import Conc.
From TC.Model Require Import SafeMap SyncMap.
From TC.Proofs Require Import SafeMapProofs.
Import ListNotations.

Section SyncMapProofs.
  Context {K V D : Type}.
  Variable keqb : K -> K -> bool.
  Hypothesis keqb_spec : forall x y, reflect (x = y) (keqb x y).
  Variable deqb : D -> D -> bool.
  Hypothesis deqb_spec : forall x y, reflect (x = y) (deqb x y).
  Variable zero : V.
  Variable inj : V -> option D.
  Variable proj : D -> V.
  (* the type assertion undoes the conversion to `any`; only the zero value of V can become the nil any *)
  Hypothesis inj_proj : forall v, match inj v with Some d => proj d = v | None => v = zero end.

  Notation any := (option D).
  Notation cmap := (list (K * any)).
  Notation lookup := (@SafeMap.lookup K any keqb).
  Notation op := (SyncMap.op K V).
  Notation ret := (SyncMap.ret K V).
  Notation step := (@SyncMap.step K V D keqb deqb zero inj proj).
  Notation run := (@SyncMap.run K V D keqb deqb zero inj proj).
  Notation ret_ok := (@SyncMap.ret_ok K V zero).
  Notation ref_next := (@SyncMap.ref_next K V keqb).
  Notation ref_run := (@SyncMap.ref_run K V keqb zero).

  Definition decode (x : any) : V := match x with Some d => proj d | None => zero end.

  Lemma decode_inj v : decode (inj v) = v.
  Proof. unfold decode. pose proof (inj_proj v) as H. destruct (inj v); auto. Qed.

  Lemma any_eqb_eq x y : any_eqb deqb x y = true <-> x = y.
  Proof.
    destruct x as [a|], y as [b|]; simpl; try (split; [discriminate|discriminate]); [|tauto].
    destruct (deqb_spec a b) as [->|N]; split; auto; [discriminate|intros [= E]; contradiction].
  Qed.

  (* every stored `any` is the image of some V (only the wrapper's Store-like methods write) *)
  Definition stored_ok (x : any) : Prop := inj (decode x) = x.
  Definition wfc (m : cmap) : Prop := NoDup (map fst m) /\ Forall (fun kx => stored_ok (snd kx)) m.
  Definition cabs (m : cmap) : @fmap K V := fun k => option_map decode (lookup k m).

  Lemma stored_inj v : stored_ok (inj v).
  Proof. unfold stored_ok. now rewrite decode_inj. Qed.

  Lemma wfc_set k v m : wfc m -> wfc (c_store keqb k (inj v) m).
  Proof.
    intros [Hn Hf]. split.
    - now apply (wf_set keqb keqb_spec).
    - unfold c_store, SafeMap.set. constructor; [apply stored_inj|].
      rewrite Forall_forall in *. intros x Hx. apply Hf. eapply In_remove; eauto.
  Qed.
  Lemma wfc_remove k m : wfc m -> wfc (c_delete keqb k m).
  Proof.
    intros [Hn Hf]. split.
    - now apply (wf_remove keqb keqb_spec).
    - rewrite Forall_forall in *. intros x Hx. apply Hf. eapply In_remove; eauto.
  Qed.

  Lemma lookup_stored k x m : wfc m -> lookup k m = Some x -> stored_ok x.
  Proof.
    intros [_ Hf] Hl. apply (lookup_In keqb keqb_spec) in Hl. rewrite Forall_forall in Hf. exact (Hf _ Hl).
  Qed.

  Lemma cabs_set k v m k' : cabs (c_store keqb k (inj v) m) k' = fupd keqb (cabs m) k (Some v) k'.
  Proof.
    unfold cabs, c_store, fupd. rewrite (lookup_set keqb keqb_spec).
    destruct (keqb k' k); [simpl; now rewrite decode_inj|reflexivity].
  Qed.
  Lemma cabs_remove k m k' : cabs (c_delete keqb k m) k' = fupd keqb (cabs m) k None k'.
  Proof.
    unfold cabs, c_delete, fupd. rewrite (lookup_remove keqb keqb_spec). destruct (keqb k' k); reflexivity.
  Qed.

  Lemma assert_all_ok (l : cmap) :
    assert_all (asV_ok zero proj) l = Some (map (fun kx => (fst kx, decode (snd kx))) l).
  Proof. induction l as [|[k x] t IH]; simpl; [reflexivity|]. now rewrite IH. Qed.

  Lemma NoDup_firstn {A} n (l : list A) : NoDup l -> NoDup (firstn n l).
  Proof.
    revert l; induction n as [|n IH]; intros l H; simpl; [constructor|].
    destruct l as [|a t]; [constructor|]. inversion H as [|? ? Hn Ht]; subst. constructor; [|auto].
    intros Hin. apply Hn. rewrite <- (firstn_skipn n t). apply in_or_app. now left.
  Qed.
  Lemma In_firstn {A} n (l : list A) x : In x (firstn n l) -> In x l.
  Proof. intros H. rewrite <- (firstn_skipn n l). apply in_or_app. now left. Qed.

  Lemma dom_cabs m : wfc m -> dom_of (cabs m) (map fst m).
  Proof.
    intros [Hn _]. split; [exact Hn|]. intros k. unfold cabs.
    rewrite (keys_lookup keqb keqb_spec). destruct (lookup k m); simpl; split; congruence.
  Qed.

  Lemma visit_cabs m n : wfc m ->
    visit_ok (cabs m) n (RPairs (map (fun kx => (fst kx, decode (snd kx))) (firstn (S n) m))).
  Proof.
    intros Hw. exists (map fst m), (map (fun kx => (fst kx, decode (snd kx))) (firstn (S n) m)).
    split; [now apply dom_cabs|]. split; [reflexivity|]. split; [|split].
    - replace (map fst (map (fun kx : K * any => (fst kx, decode (snd kx))) (firstn (S n) m)))
        with (firstn (S n) (map fst m)); [apply NoDup_firstn; apply Hw|].
      rewrite map_map, firstn_map. apply map_ext. reflexivity.
    - intros k v Hin. apply in_map_iff in Hin as ([k' x] & [= -> <-] & Hin). apply In_firstn in Hin.
      unfold cabs. rewrite (In_lookup keqb keqb_spec k x m); [reflexivity|apply Hw|exact Hin].
    - rewrite !map_length, firstn_length. reflexivity.
  Qed.

  (* one call: no panic, state stays well-formed, result and next state are those of the reference map *)
  Lemma sync_step_ok m o : wfc m ->
    exists m' r, step m o = Some (m', r) /\ wfc m' /\ ret_ok (cabs m) o r /\ ref_next (cabs m) o r (cabs m').
  Proof.
    intros Hw. unfold SyncMap.step, step_gen. destruct o; simpl; unfold c_load, SyncMap.any.
    - (* Load *)
      destruct (lookup k m) as [x|] eqn:E; simpl; eexists _, _; (split; [reflexivity|]); (split; [exact Hw|]);
        unfold cabs; rewrite E; simpl; split; reflexivity.
    - (* Store *)
      eexists _, _. split; [reflexivity|]. split; [now apply wfc_set|]. split; [reflexivity|]. intros k'. apply cabs_set.
    - (* Swap *)
      destruct (lookup k m) as [x|] eqn:E; simpl; eexists _, _; (split; [reflexivity|]); (split; [now apply wfc_set|]);
        (split; [unfold cabs; rewrite E; reflexivity|]); intros k'; apply cabs_set.
    - (* Delete *)
      eexists _, _. split; [reflexivity|]. split; [now apply wfc_remove|]. split; [reflexivity|]. intros k'. apply cabs_remove.
    - (* LoadOrStore *)
      destruct (lookup k m) as [x|] eqn:E; simpl; eexists _, _; (split; [reflexivity|]).
      + split; [exact Hw|]. unfold cabs at 1 2. rewrite E. simpl. split; [reflexivity|]. intros k'.
        unfold cabs at 2. rewrite E. reflexivity.
      + split; [now apply wfc_set|]. unfold cabs at 1 2. rewrite E. simpl. pose proof (decode_inj v) as Hd; unfold decode in Hd; rewrite Hd. split; [reflexivity|].
        intros k'. unfold cabs at 2. rewrite E. simpl. apply cabs_set.
    - (* LoadAndDelete *)
      destruct (lookup k m) as [x|] eqn:E; simpl; eexists _, _; (split; [reflexivity|]).
      + split; [now apply wfc_remove|]. split; [unfold cabs; rewrite E; reflexivity|]. intros k'. apply cabs_remove.
      + split; [exact Hw|]. split; [unfold cabs; rewrite E; reflexivity|]. intros k'. simpl.
        unfold fupd. destruct (keqb_spec k' k) as [->|N]; [|reflexivity]. unfold cabs. now rewrite E.
    - (* CompareAndDelete *)
      destruct (lookup k m) as [x|] eqn:E; simpl.
      + destruct (any_eqb deqb x (inj old)) eqn:Eq; simpl; eexists _, _; (split; [reflexivity|]).
        * apply any_eqb_eq in Eq. subst x. split; [now apply wfc_remove|]. split.
          -- left. split; [|reflexivity]. unfold cabs. rewrite E. simpl. now rewrite decode_inj.
          -- left. split; [reflexivity|]. intros k'. apply cabs_remove.
        * split; [exact Hw|]. split; [|right; split; reflexivity].
          right. split; [|reflexivity]. unfold cabs. rewrite E. simpl. intros [= Hd].
          assert (x = inj old) as Hx.
          { pose proof (lookup_stored _ _ _ Hw E) as Hs. unfold stored_ok in Hs. rewrite Hd in Hs. now symmetry. }
          apply any_eqb_eq in Hx. congruence.
      + eexists _, _. split; [reflexivity|]. split; [exact Hw|]. split; [|right; split; reflexivity].
        right. split; [|reflexivity]. unfold cabs. rewrite E. discriminate.
    - (* CompareAndSwap *)
      destruct (lookup k m) as [x|] eqn:E; simpl.
      + destruct (any_eqb deqb x (inj old)) eqn:Eq; simpl; eexists _, _; (split; [reflexivity|]).
        * apply any_eqb_eq in Eq. subst x. split; [now apply wfc_set|]. split.
          -- left. split; [|reflexivity]. unfold cabs. rewrite E. simpl. now rewrite decode_inj.
          -- left. split; [reflexivity|]. intros k'. apply cabs_set.
        * split; [exact Hw|]. split; [|right; split; reflexivity].
          right. split; [|reflexivity]. unfold cabs. rewrite E. simpl. intros [= Hd].
          assert (x = inj old) as Hx.
          { pose proof (lookup_stored _ _ _ Hw E) as Hs. unfold stored_ok in Hs. rewrite Hd in Hs. now symmetry. }
          apply any_eqb_eq in Hx. congruence.
      + eexists _, _. split; [reflexivity|]. split; [exact Hw|]. split; [|right; split; reflexivity].
        right. split; [|reflexivity]. unfold cabs. rewrite E. discriminate.
    - (* Range *)
      rewrite assert_all_ok. eexists _, _. split; [reflexivity|]. split; [exact Hw|]. split; [|intros k'; reflexivity].
      now apply visit_cabs.
    - (* Iterate *)
      rewrite assert_all_ok. eexists _, _. split; [reflexivity|]. split; [exact Hw|]. split; [|intros k'; reflexivity].
      now apply visit_cabs.
  Qed.

  Lemma sync_run_is_map ops : forall m, wfc m ->
    exists rs, run m ops = Some rs /\ ref_run (cabs m) ops rs.
  Proof.
    induction ops as [|o t IH]; intros m Hw.
    - exists []. split; [reflexivity|constructor].
    - destruct (sync_step_ok m o Hw) as (m' & r & Hs & Hw' & Hret & Hnext).
      destruct (IH m' Hw') as (rs & Hr & Href).
      exists (r :: rs). split.
      + unfold SyncMap.run in *. simpl. unfold SyncMap.step in Hs. rewrite Hs, Hr. reflexivity.
      + econstructor; eauto.
  Qed.

  (* no operation sequence panics, and the outputs are those of the reference map *)
  Theorem syncmap_is_map_proof ops :
    exists rs, run [] ops = Some rs /\ ref_run (fun _ => None) ops rs.
  Proof. apply (sync_run_is_map ops []). split; constructor. Qed.

  (* ------------------------------------------------------------------ *)
  (* concurrent object, relative to the sync.Map contract                *)
  (* ------------------------------------------------------------------ *)
  Notation obj := (@syncmap_obj K V D keqb deqb zero inj proj).
  Notation spec := (@syncmap_spec K V D keqb deqb zero inj proj).

  (* the linearisation point is the sync.Map call; afterwards the result is already determined *)
  Definition sync_lp (o : Op obj) (l : Loc obj) : option (Ret obj) :=
    match l with
    | LCall _ => None
    | LAssert o' w => Some (finish zero (asV_ok zero proj) o' w)
    end.
  Definition sync_linv (o : Op obj) (l : Loc obj) : Prop :=
    match l with
    | LCall o' => o' = proj1_sig o
    | LAssert o' w => o' = proj1_sig o
    end.

  Lemma finish_ok_total (o : op) (w : raw K D) : exists r, finish zero (asV_ok zero proj) o w = Some r.
  Proof.
    destruct o, w; simpl; eauto; try (destruct ok; eauto); rewrite assert_all_ok; eauto.
  Qed.

  Theorem syncmap_linearizable_proof (m0 : cmap) :
    linearizable obj cmap spec m0 m0.
  Proof.
    apply (fixed_lp_linearizable obj cmap spec (fun m => m) sync_lp (fun _ => True) sync_linv).
    - intros o. split; reflexivity.
    - intros s o l _ HL. unfold step_ok. destruct l as [o'|o' w]; simpl in *; subst o'.
      + destruct (contract_call keqb deqb inj s (proj1_sig o)) as [m' w] eqn:E. split; [exact I|].
        split; [reflexivity|]. right. destruct (finish_ok_total (proj1_sig o) w) as [r Hr].
        exists (Some r). unfold syncmap_spec, SyncMap.step, step_gen. rewrite E, Hr. split; [reflexivity|].
        simpl. now rewrite Hr.
      + split; [exact I|]. split; reflexivity.
    - exact I.
  Qed.
End SyncMapProofs.
