(* Proofs for Model/Propositions.v: every loop equals the stdlib quantifier (existsb / forallb) and hence
   its logical specification; the map loops are invariant under permutation of the entry list. *)
From Coq Require Import List Bool Permutation ZArith Lia.
From TC.Model Require Import Propositions.
Import ListNotations.

Section SliceProps.
  Context {A : Type}.

  Lemma prop_any_existsb (p : A -> bool) s : prop_any p s = existsb p s.
  Proof. induction s as [|e t IH]; simpl; [reflexivity|]. rewrite IH. destruct (p e); reflexivity. Qed.

  Lemma prop_all_forallb (p : A -> bool) s : prop_all p s = forallb p s.
  Proof. induction s as [|e t IH]; simpl; [reflexivity|]. rewrite IH. destruct (p e); reflexivity. Qed.

  Lemma prop_none_existsb (p : A -> bool) s : prop_none p s = negb (existsb p s).
  Proof. induction s as [|e t IH]; simpl; [reflexivity|]. rewrite IH. destruct (p e); reflexivity. Qed.

  Lemma prop_any_spec (p : A -> bool) s : prop_any p s = true <-> exists e, In e s /\ p e = true.
  Proof. rewrite prop_any_existsb. apply existsb_exists. Qed.

  Lemma prop_any_false (p : A -> bool) s : prop_any p s = false <-> forall e, In e s -> p e = false.
  Proof.
    rewrite prop_any_existsb. split.
    - intros H e He. destruct (p e) eqn:E; [|reflexivity].
      assert (existsb p s = true) by (apply existsb_exists; eauto). congruence.
    - intros H. destruct (existsb p s) eqn:E; [|reflexivity].
      apply existsb_exists in E. destruct E as [e [He Hp]]. rewrite (H e He) in Hp. discriminate.
  Qed.

  Lemma prop_all_spec (p : A -> bool) s : prop_all p s = true <-> forall e, In e s -> p e = true.
  Proof. rewrite prop_all_forallb. apply forallb_forall. Qed.

  Lemma prop_all_false (p : A -> bool) s : prop_all p s = false <-> exists e, In e s /\ p e = false.
  Proof.
    induction s as [|e t IH]; simpl.
    - split; [discriminate|]. intros [e [[] _]].
    - destruct (p e) eqn:E; simpl.
      + rewrite IH. split.
        * intros [x [Hx Hp]]. eauto.
        * intros [x [[Hx | Hx] Hp]]; [subst; congruence | eauto].
      + split; [|reflexivity]. intros _. exists e. auto.
  Qed.

  Lemma prop_none_spec (p : A -> bool) s : prop_none p s = true <-> forall e, In e s -> p e = false.
  Proof.
    rewrite prop_none_existsb, <- prop_any_existsb, negb_true_iff. apply prop_any_false.
  Qed.

  Lemma prop_none_any (p : A -> bool) s : prop_none p s = negb (prop_any p s).
  Proof. rewrite prop_none_existsb, prop_any_existsb. reflexivity. Qed.

  Lemma prop_all_none (p : A -> bool) s : prop_all p s = prop_none (fun e => negb (p e)) s.
  Proof. induction s as [|e t IH]; simpl; [reflexivity|]. rewrite IH. reflexivity. Qed.

  Lemma prop_all_any (p : A -> bool) s : prop_all p s = negb (prop_any (fun e => negb (p e)) s).
  Proof. rewrite prop_all_none. apply prop_none_any. Qed.

  Lemma prop_any_app (p : A -> bool) s1 s2 : prop_any p (s1 ++ s2) = prop_any p s1 || prop_any p s2.
  Proof. rewrite !prop_any_existsb. apply existsb_app. Qed.

  Lemma prop_all_app (p : A -> bool) s1 s2 : prop_all p (s1 ++ s2) = prop_all p s1 && prop_all p s2.
  Proof. rewrite !prop_all_forallb. apply forallb_app. Qed.

  Variable eqb ltb leb : A -> A -> bool.
  Hypothesis eqb_spec : forall x y, reflect (x = y) (eqb x y).

  Lemma contains_spec s v : slice_contains eqb s v = true <-> In v s.
  Proof using eqb_spec.
    unfold slice_contains. rewrite prop_any_spec. split.
    - intros [e [He Hv]]. destruct (eqb_spec e v); [subst; assumption|discriminate].
    - intros H. exists v. split; [assumption|]. destruct (eqb_spec v v); congruence.
  Qed.

  Lemma contains_false s v : slice_contains eqb s v = false <-> ~ In v s.
  Proof using eqb_spec.
    rewrite <- contains_spec. destruct (slice_contains eqb s v); split; congruence.
  Qed.

  Lemma contains_all_forallb s v :
    slice_contains_all eqb s v = forallb (fun e => slice_contains eqb s e) v.
  Proof. induction v as [|e t IH]; simpl; [reflexivity|]. rewrite IH. destruct (slice_contains eqb s e); reflexivity. Qed.

  Lemma contains_any_existsb s v :
    slice_contains_any eqb s v = existsb (fun e => slice_contains eqb s e) v.
  Proof. induction v as [|e t IH]; simpl; [reflexivity|]. rewrite IH. destruct (slice_contains eqb s e); reflexivity. Qed.

  Lemma contains_none_existsb s v :
    slice_contains_none eqb s v = negb (existsb (fun e => slice_contains eqb s e) v).
  Proof. induction v as [|e t IH]; simpl; [reflexivity|]. rewrite IH. destruct (slice_contains eqb s e); reflexivity. Qed.

  Lemma contains_all_spec s v : slice_contains_all eqb s v = true <-> incl v s.
  Proof using eqb_spec.
    rewrite contains_all_forallb, forallb_forall. unfold incl.
    split; intros H e He; [apply contains_spec | apply contains_spec]; auto.
  Qed.

  Lemma contains_any_spec s v : slice_contains_any eqb s v = true <-> exists e, In e v /\ In e s.
  Proof using eqb_spec.
    rewrite contains_any_existsb, existsb_exists.
    split; intros [e [He Hs]]; exists e; (split; [assumption|]); apply contains_spec; assumption.
  Qed.

  Lemma contains_none_any s v : slice_contains_none eqb s v = negb (slice_contains_any eqb s v).
  Proof. rewrite contains_none_existsb, contains_any_existsb. reflexivity. Qed.

  Lemma contains_none_spec s v : slice_contains_none eqb s v = true <-> forall e, In e v -> ~ In e s.
  Proof using eqb_spec.
    rewrite contains_none_any, negb_true_iff. split.
    - intros H e He Hs. assert (slice_contains_any eqb s v = true) by (apply contains_any_spec; eauto). congruence.
    - intros H. destruct (slice_contains_any eqb s v) eqn:E; [|reflexivity].
      apply contains_any_spec in E. destruct E as [e [He Hs]]. exfalso. exact (H e He Hs).
  Qed.

  Lemma all_Forall (r : A -> bool) s : prop_all r s = true <-> Forall (fun e => r e = true) s.
  Proof. rewrite prop_all_spec. symmetry. apply Forall_forall. Qed.

  Lemma any_Exists (r : A -> bool) s : prop_any r s = true <-> Exists (fun e => r e = true) s.
  Proof. rewrite prop_any_spec. symmetry. apply Exists_exists. Qed.
End SliceProps.

(* the order comparisons at Z (the harness instantiates int, string and float64, all order-isomorphic images) *)
Lemma Forall_iff {A} (P Q : A -> Prop) s : (forall x, P x <-> Q x) -> (Forall P s <-> Forall Q s).
Proof. intros H. rewrite !Forall_forall. split; intros F x Hx; apply H; auto. Qed.
Lemma Exists_iff {A} (P Q : A -> Prop) s : (forall x, P x <-> Q x) -> (Exists P s <-> Exists Q s).
Proof. intros H. rewrite !Exists_exists. split; intros [x [Hx Hp]]; exists x; (split; [assumption|]); apply H; auto. Qed.

Section MapProps.
  Context {K V : Type}.
  Variable keqb : K -> K -> bool.
  Variable veqb : V -> V -> bool.
  Hypothesis keqb_spec : forall x y, reflect (x = y) (keqb x y).
  Hypothesis veqb_spec : forall x y, reflect (x = y) (veqb x y).

  (* every map loop is a slice loop over the keys / the values *)
  Lemma map_key_any_eq (m : list (K * V)) p : map_key_any m p = prop_any p (map fst m).
  Proof. induction m as [|[k v] t IH]; simpl; [reflexivity|]. rewrite IH. reflexivity. Qed.
  Lemma map_key_all_eq (m : list (K * V)) p : map_key_all m p = prop_all p (map fst m).
  Proof. induction m as [|[k v] t IH]; simpl; [reflexivity|]. rewrite IH. reflexivity. Qed.
  Lemma map_key_none_eq (m : list (K * V)) p : map_key_none m p = prop_none p (map fst m).
  Proof. induction m as [|[k v] t IH]; simpl; [reflexivity|]. rewrite IH. reflexivity. Qed.
  Lemma map_value_any_eq (m : list (K * V)) p : map_value_any m p = prop_any p (map snd m).
  Proof. induction m as [|[k v] t IH]; simpl; [reflexivity|]. rewrite IH. reflexivity. Qed.
  Lemma map_value_all_eq (m : list (K * V)) p : map_value_all m p = prop_all p (map snd m).
  Proof. induction m as [|[k v] t IH]; simpl; [reflexivity|]. rewrite IH. reflexivity. Qed.
  Lemma map_value_none_eq (m : list (K * V)) p : map_value_none m p = prop_none p (map snd m).
  Proof. induction m as [|[k v] t IH]; simpl; [reflexivity|]. rewrite IH. reflexivity. Qed.
  Lemma map_contains_value_eq (m : list (K * V)) v :
    map_contains_value veqb m v = slice_contains veqb (map snd m) v.
  Proof. unfold slice_contains. induction m as [|[k x] t IH]; simpl; [reflexivity|]. rewrite IH. reflexivity. Qed.
  Lemma map_contains_key_eq (m : list (K * V)) k :
    map_contains_key keqb m k = prop_any (fun k' => keqb k k') (map fst m).
  Proof. induction m as [|[k' x] t IH]; simpl; [reflexivity|]. rewrite IH. reflexivity. Qed.

  Lemma In_fst (m : list (K * V)) k : In k (map fst m) <-> exists v, In (k, v) m.
  Proof.
    rewrite in_map_iff. split.
    - intros [[k' v] [E H]]. simpl in E. subst. eauto.
    - intros [v H]. exists (k, v). auto.
  Qed.
  Lemma In_snd (m : list (K * V)) v : In v (map snd m) <-> exists k, In (k, v) m.
  Proof.
    rewrite in_map_iff. split.
    - intros [[k v'] [E H]]. simpl in E. subst. eauto.
    - intros [k H]. exists (k, v). auto.
  Qed.

  Lemma map_contains_key_spec (m : list (K * V)) k : map_contains_key keqb m k = true <-> exists v, In (k, v) m.
  Proof using keqb_spec.
    rewrite map_contains_key_eq, prop_any_spec, <- In_fst. split.
    - intros [k' [H E]]. destruct (keqb_spec k k'); [subst; assumption|discriminate].
    - intros H. exists k. split; [assumption|]. destruct (keqb_spec k k); congruence.
  Qed.

  Lemma map_contains_value_spec (m : list (K * V)) v : map_contains_value veqb m v = true <-> exists k, In (k, v) m.
  Proof using veqb_spec. rewrite map_contains_value_eq, (contains_spec veqb veqb_spec), In_snd. reflexivity. Qed.

  Lemma map_key_any_spec (m : list (K * V)) p : map_key_any m p = true <-> exists k v, In (k, v) m /\ p k = true.
  Proof.
    rewrite map_key_any_eq, prop_any_spec. split.
    - intros [k [H Hp]]. apply In_fst in H. destruct H as [v H]. eauto.
    - intros [k [v [H Hp]]]. exists k. split; [apply In_fst; eauto|assumption].
  Qed.
  Lemma map_key_all_spec (m : list (K * V)) p : map_key_all m p = true <-> forall k v, In (k, v) m -> p k = true.
  Proof.
    rewrite map_key_all_eq, prop_all_spec. split.
    - intros H k v Hin. apply H. apply In_fst. eauto.
    - intros H k Hin. apply In_fst in Hin. destruct Hin as [v Hin]. eauto.
  Qed.
  Lemma map_key_none_spec (m : list (K * V)) p : map_key_none m p = true <-> forall k v, In (k, v) m -> p k = false.
  Proof.
    rewrite map_key_none_eq, prop_none_spec. split.
    - intros H k v Hin. apply H. apply In_fst. eauto.
    - intros H k Hin. apply In_fst in Hin. destruct Hin as [v Hin]. eauto.
  Qed.
  Lemma map_value_any_spec (m : list (K * V)) p : map_value_any m p = true <-> exists k v, In (k, v) m /\ p v = true.
  Proof.
    rewrite map_value_any_eq, prop_any_spec. split.
    - intros [v [H Hp]]. apply In_snd in H. destruct H as [k H]. eauto.
    - intros [k [v [H Hp]]]. exists v. split; [apply In_snd; eauto|assumption].
  Qed.
  Lemma map_value_all_spec (m : list (K * V)) p : map_value_all m p = true <-> forall k v, In (k, v) m -> p v = true.
  Proof.
    rewrite map_value_all_eq, prop_all_spec. split.
    - intros H k v Hin. apply H. apply In_snd. eauto.
    - intros H v Hin. apply In_snd in Hin. destruct Hin as [k Hin]. eauto.
  Qed.
  Lemma map_value_none_spec (m : list (K * V)) p : map_value_none m p = true <-> forall k v, In (k, v) m -> p v = false.
  Proof.
    rewrite map_value_none_eq, prop_none_spec. split.
    - intros H k v Hin. apply H. apply In_snd. eauto.
    - intros H v Hin. apply In_snd in Hin. destruct Hin as [k Hin]. eauto.
  Qed.

  (* a boolean determined by an iff with an order-independent proposition is order independent *)
  Lemma bool_iff_eq (a b : bool) (P : Prop) : (a = true <-> P) -> (b = true <-> P) -> a = b.
  Proof. intros Ha Hb. destruct a, b; try reflexivity; [symmetry; apply Hb, Ha|apply Ha, Hb]; reflexivity. Qed.

  Lemma perm_in (m m' : list (K * V)) : Permutation m m' -> forall x, In x m' <-> In x m.
  Proof. intros H x. split; apply Permutation_in; [apply Permutation_sym|]; assumption. Qed.
End MapProps.
