(* The asynchronous sweeps that Set spawns during a Resize replay do not change its result:
   inserting extra Sweeps anywhere in a sequence of insertions of new keys yields the same state after
   the final Sweep. *)
From Coq Require Import List Arith Bool Lia.
From TC.Lib Require Import ListAux Assoc AssocProofs.
From TC.Model Require Import Cache.
From TC.Proofs Require Import CacheInv CacheViews CacheSetSweep.
Import ListNotations.

Section SweepsIrrelevant.
  Context {K V : Type}.
  Variable keqb : K -> K -> bool.
  Hypothesis keqb_spec : forall x y, reflect (x = y) (keqb x y).
  Notation state := (@state K V).
  Notation amap := (@amap K).
  Notation lookup := (lookup keqb).
  Notation upsert := (upsert keqb).
  Notation set := (set keqb).
  Notation Inv := (Inv keqb).
  Ltac sproj := cbn [parts next cur index P C with_parts with_index open_part sweep].

  (* A has lost some of B's oldest partitions but still has at least the newest P of them *)
  Definition ahead (A B : state) : Prop :=
    next A = next B /\ cur A = cur B /\ index A = index B /\ P A = P B /\ C A = C B /\
    exists j, parts A = skipn j (parts B) /\ j <= length (parts B) - P B.

  Lemma ahead_refl (B : state) : ahead B B.
  Proof. repeat split; auto. exists 0. split; [reflexivity|lia]. Qed.

  Lemma ahead_sweep_eq (A B : state) : ahead A B -> sweep A = sweep B.
  Proof.
    intros (Hn & Hc & Hi & HP & HC & j & Hp & Hj). unfold sweep.
    destruct A as [pa na ca ia PA CA], B as [pb nb cb ib PB CB]. simpl in *. subst.
    unfold with_parts. cbn [parts next cur index P C]. f_equal.
    rewrite skipn_length, skipn_skipn. f_equal. lia.
  Qed.

  Lemma ahead_sweep_l (A B : state) : ahead A B -> ahead (sweep A) B.
  Proof.
    intros (Hn & Hc & Hi & HP & HC & j & Hp & Hj). unfold sweep; sproj.
    repeat split; auto. rewrite Hp, skipn_length, skipn_skipn, HP.
    exists (j + (length (parts B) - j - P B)). split; [reflexivity|lia].
  Qed.

  (* peek / put behind a dropped prefix *)
  Lemma peek_skipn_keep id j (ps : list (nat * amap V)) :
    ~ In id (ids (firstn j ps)) -> peek id (skipn j ps) = peek id ps.
  Proof.
    revert ps; induction j as [|j IH]; intros ps Hn; [reflexivity|].
    destruct ps as [|[i m] t]; [reflexivity|]. simpl in Hn. cbn [skipn peek].
    destruct (Nat.eqb_spec i id) as [->|Hne]; [tauto|]. apply IH. tauto.
  Qed.

  Lemma put_skipn_keep id m j (ps : list (nat * amap V)) :
    ~ In id (ids (firstn j ps)) -> skipn j (put id m ps) = put id m (skipn j ps).
  Proof.
    revert ps; induction j as [|j IH]; intros ps Hn; [reflexivity|].
    destruct ps as [|[i m'] t]; [reflexivity|]. simpl in Hn. cbn [put].
    destruct (Nat.eqb_spec i id) as [->|Hne]; [tauto|]. cbn [skipn]. apply IH. tauto.
  Qed.

  Lemma cur_not_in_prefix (B : state) j :
    Inv B -> 1 <= P B -> j <= length (parts B) - P B -> ~ In (cur B) (ids (firstn j (parts B))).
  Proof.
    intros H HP Hj Hin. unfold ids in Hin. rewrite <- firstn_map in Hin. fold (ids (parts B)) in Hin.
    rewrite (inv_ids keqb B H) in Hin.
    rewrite firstn_seq in Hin. apply in_seq in Hin. rewrite (inv_cur keqb B H) in Hin.
    pose proof (inv_len keqb B H). lia.
  Qed.

  Lemma set_ahead (A B : state) k v :
    Inv B -> ahead A B -> lookup k (index B) = None -> ahead (set A k v) (set B k v).
  Proof.
    intros H (Hn & Hc & Hi & HP & HC & j & Hp & Hj) Hk.
    destruct (inv_pc keqb B H) as [HPB _].
    pose proof (cur_not_in_prefix B j H HPB Hj) as Hcur.
    unfold Cache.set. rewrite Hi, Hk. unfold Cache.fresh, room.
    rewrite Hc, Hp, HC. rewrite (peek_skipn_keep _ _ _ Hcur).
    destruct (peek (cur B) (parts B)) as [m|] eqn:Ep.
    - destruct (length m <? C B) eqn:Er.
      + (* room in the current partition: same update behind the dropped prefix *)
        rewrite Hc, Hp, (peek_skipn_keep _ _ _ Hcur), Ep.
        unfold ahead; sproj. rewrite Hi.
        split; [exact Hn|]. split; [exact Hc|]. split; [reflexivity|]. split; [exact HP|]. split; [exact HC|].
        exists j. rewrite length_put. split; [|exact Hj].
        symmetry. apply put_skipn_keep. exact Hcur.
      + (* open a new partition on both sides *)
        unfold open_part; sproj. rewrite Hn.
        assert (Hnew : forall ps : list (nat * amap V),
                   peek (S (next B)) (ps ++ [(S (next B), [])]) =
                   match peek (S (next B)) ps with Some x => Some x | None => Some [] end).
        { intros ps. rewrite peek_app. destruct (peek (S (next B)) ps); [reflexivity|].
          cbn [peek]. rewrite Nat.eqb_refl. reflexivity. }
        assert (HnB : peek (S (next B)) (parts B) = None).
        { apply peek_None. intros Hin. apply (Inv_id_range keqb B _ H) in Hin. lia. }
        assert (HnA : peek (S (next B)) (parts A) = None).
        { apply peek_None. intros Hin. rewrite Hp in Hin. unfold ids in Hin. rewrite <- skipn_map in Hin.
          apply peek_None in HnB. apply HnB. unfold ids.
          rewrite <- (firstn_skipn j (map fst (parts B))). apply in_or_app. right. exact Hin. }
        rewrite !Hnew, HnB, HnA.
        unfold ahead; sproj. rewrite Hi.
        split; [reflexivity|]. split; [reflexivity|]. split; [reflexivity|]. split; [exact HP|]. split; [exact HC|].
        exists j. rewrite length_put, app_length. cbn [length]. split; [|lia].
        rewrite Hp. rewrite put_skipn_keep.
        * f_equal. rewrite skipn_app. replace (j - length (parts B)) with 0 by lia. reflexivity.
        * intros Hin. unfold ids in Hin. rewrite <- firstn_map, map_app, firstn_app in Hin.
          replace (j - length (map fst (parts B))) with 0 in Hin by (rewrite map_length; lia).
          cbn [firstn] in Hin. rewrite app_nil_r in Hin.
          apply peek_None in HnB. apply HnB. unfold ids.
          rewrite <- (firstn_skipn j (map fst (parts B))). apply in_or_app. left. exact Hin.
    - (* no current partition at all (a brand-new cache): then nothing was dropped *)
      unfold open_part; sproj. rewrite Hn.
      assert (HnB : peek (S (next B)) (parts B) = None).
      { apply peek_None. intros Hin. apply (Inv_id_range keqb B _ H) in Hin. lia. }
      assert (HnA : peek (S (next B)) (parts A) = None).
      { apply peek_None. intros Hin. rewrite Hp in Hin. unfold ids in Hin. rewrite <- skipn_map in Hin.
        apply peek_None in HnB. apply HnB. unfold ids.
        rewrite <- (firstn_skipn j (map fst (parts B))). apply in_or_app. right. exact Hin. }
      rewrite !peek_app, HnB, HnA. cbn [peek]. rewrite Nat.eqb_refl.
      unfold ahead; sproj. rewrite Hi.
      split; [reflexivity|]. split; [reflexivity|]. split; [reflexivity|]. split; [exact HP|]. split; [exact HC|].
      exists j. rewrite length_put, app_length. cbn [length]. split; [|lia].
      rewrite Hp. rewrite put_skipn_keep.
      * f_equal. rewrite skipn_app. replace (j - length (parts B)) with 0 by lia. reflexivity.
      * intros Hin. unfold ids in Hin. rewrite <- firstn_map, map_app, firstn_app in Hin.
        replace (j - length (map fst (parts B))) with 0 in Hin by (rewrite map_length; lia).
        cbn [firstn] in Hin. rewrite app_nil_r in Hin.
        apply peek_None in HnB. apply HnB. unfold ids.
        rewrite <- (firstn_skipn j (map fst (parts B))). apply in_or_app. left. exact Hin.
  Qed.

  (* insertions of new keys with extra sweeps (flag true = an asynchronous sweep ran right after that Set) *)
  Definition ins_x (s : state) (kvx : K * V * bool) : state :=
    let '(k, v, x) := kvx in if x then sweep (set s k v) else set s k v.
  Definition ins_plain (s : state) (kvx : K * V * bool) : state := let '(k, v, _) := kvx in set s k v.

  Lemma index_set_none (s : state) k v k' :
    Inv s -> k' <> k -> lookup k' (index s) = None -> lookup k' (index (set s k v)) = None.
  Proof.
    intros H Hne Hl. destruct (lookup k' (index (set s k v))) eqn:E; [|reflexivity].
    pose proof (get_set keqb keqb_spec s k v k' H) as _.
    unfold Cache.set in E. unfold Cache.fresh, room in E.
    destruct (lookup k (index s)) as [id|]; [destruct (peek id (parts s))|];
      repeat match type of E with context [match ?x with _ => _ end] => destruct x end;
      cbn [index with_index with_parts open_part] in E;
      try (rewrite lookup_upsert_neq in E by assumption); congruence.
  Qed.

  Theorem sweeps_irrelevant (l : list (K * V * bool)) : forall (A B : state),
    Inv B -> ahead A B ->
    NoDup (map (fun kvx => fst (fst kvx)) l) ->
    (forall kvx, In kvx l -> lookup (fst (fst kvx)) (index B) = None) ->
    sweep (fold_left ins_x l A) = sweep (fold_left ins_plain l B).
  Proof.
    induction l as [|[[k v] x] t IH]; intros A B H Ha Hnd Hnew; cbn [fold_left].
    - apply ahead_sweep_eq. exact Ha.
    - inversion Hnd as [|? ? Hn Hnd']; subst.
      assert (Hk : lookup k (index B) = None) by (apply (Hnew (k, v, x)); left; reflexivity).
      pose proof (set_ahead A B k v H Ha Hk) as Ha'.
      apply IH; auto.
      + apply Inv_set; assumption.
      + unfold ins_x. destruct x; [apply ahead_sweep_l|]; exact Ha'.
      + intros [[k' v'] x'] Hin. cbn [fst]. apply index_set_none; auto.
        * intros ->. apply Hn. apply in_map_iff. exists (k, v', x'). auto.
        * apply (Hnew (k', v', x')). right. exact Hin.
  Qed.
End SweepsIrrelevant.
