(* Ghost invariant: insertion order agrees with partition order; nothing is evicted early. *)
From Coq Require Import List Arith Bool Lia.
From TC.Lib Require Import ListAux Assoc AssocProofs.
From TC.Model Require Import Cache CacheGhost.
From TC.Proofs Require Import CacheInv CacheViews.
Import ListNotations.

Section CacheFifo.
  Context {K V : Type}.
  Variable keqb : K -> K -> bool.
  Hypothesis keqb_spec : forall x y, reflect (x = y) (keqb x y).

  Notation state := (@state K V).
  Notation ghost := (@ghost K).
  Notation amap := (@amap K).
  Notation lookup := (lookup keqb).
  Notation upsert := (upsert keqb).
  Notation remove := (remove keqb).
  Notation has := (has keqb).
  Notation set := (set keqb).
  Notation fresh := (fresh keqb).
  Notation delete := (delete keqb).
  Notation get := (get keqb).
  Notation Inv := (Inv keqb).
  Notation gset := (gset keqb).
  Notation gexec := (gexec keqb).
  Notation is_fresh := (is_fresh keqb).
  Ltac sproj := cbn [parts next cur index P C with_parts with_index open_part sweep
                     born clock n_ins ins_cur tick ghost0].

  Record GInv (s : state) (g : ghost) : Prop := {
    g_idx : forall k t, lookup k (born g) = Some t -> exists id, lookup k (index s) = Some id;
    g_ord : forall a b ta tb ia ib,
        lookup a (born g) = Some ta -> lookup b (born g) = Some tb -> ta < tb ->
        lookup a (index s) = Some ia -> lookup b (index s) = Some ib -> ia <= ib;
    g_clk : forall k t, lookup k (born g) = Some t -> t < clock g;
    g_cnt : (next s - 1) * C s + ins_cur g <= n_ins g;
    g_cur1 : 2 <= next s -> 1 <= ins_cur g;
    g_curlen : forall m, peek (cur s) (parts s) = Some m -> length m <= ins_cur g;
    g_full : next s <= P s -> length (parts s) = next s;
    g_nd : NoDup (keys (born g));
    g_ne : 1 <= next s -> 1 <= length (parts s)
  }.

  Lemma GInv_init p c t : GInv (init p c) (ghost0 t).
  Proof. constructor; simpl; try discriminate; try lia; auto. constructor. Qed.

  Lemma GInv_clear_with p c t : 1 <= p -> GInv (clear_with p c) (ghost0 t).
  Proof.
    intros Hp. constructor; simpl; try discriminate; try lia; auto.
    - intros m [= <-]. simpl. lia.
    - constructor.
  Qed.

  Lemma GInv_tick s g : GInv s g -> GInv s (tick g).
  Proof.
    intros G. constructor; sproj; try apply G.
    intros k t Hl. pose proof (g_clk s g G k t Hl). lia.
  Qed.

  (* the current partition is live once a partition has been opened *)
  Lemma cur_live s g : Inv s -> GInv s g -> 1 <= next s -> exists m, peek (cur s) (parts s) = Some m.
  Proof.
    intros H G Hn. pose proof (g_ne s g G Hn) as Hl.
    destruct (peek (cur s) (parts s)) as [m|] eqn:E; [eauto|].
    apply peek_None in E. exfalso. apply E. apply (Inv_id_range keqb s _ H).
    rewrite (inv_cur keqb s H). pose proof (inv_len keqb s H). lia.
  Qed.

  Lemma is_fresh_absent (s : state) k : is_fresh s k = true -> absent keqb s k.
  Proof.
    unfold CacheGhost.is_fresh. intros Hf id Hl. rewrite Hl in Hf.
    destruct (peek id (parts s)); [discriminate|reflexivity].
  Qed.

  Lemma set_fresh (s : state) k v : is_fresh s k = true -> set s k v = fresh s k v.
  Proof.
    unfold CacheGhost.is_fresh, Cache.set. destruct (lookup k (index s)) as [id|]; [|reflexivity].
    destruct (peek id (parts s)); [discriminate|reflexivity].
  Qed.

  (* shape of the state after an insertion *)
  Lemma fresh_shape (s : state) k v :
    Inv s ->
    exists m,
      let s1 := if room s then s else open_part s in
      peek (cur s1) (parts s1) = Some m /\ length m < C s
      /\ fresh s k v = with_index (with_parts s1 (put (cur s1) (upsert k v m) (parts s1)))
                                  (upsert k (cur s1) (index s1)).
  Proof.
    intros H. unfold Cache.fresh. destruct (room s) eqn:Er.
    - destruct (room_true s Er) as (m & Hm & Hlt). exists m. rewrite Hm. auto.
    - exists []. rewrite (peek_open_cur keqb s H). split; [reflexivity|].
      split; [simpl; destruct (inv_pc keqb s H); lia|reflexivity].
  Qed.

  Lemma GInv_set s g k v : Inv s -> GInv s g -> GInv (set s k v) (gset s g k).
  Proof.
    intros H G. unfold CacheGhost.gset. destruct (is_fresh s k) eqn:Ef.
    - (* insertion *)
      pose proof (is_fresh_absent s k Ef) as Ha.
      rewrite (set_fresh s k v Ef).
      destruct (fresh_shape s k v H) as (m & Hm & Hlt & ->).
      destruct (room s) eqn:Er.
      + (* into the existing current partition *)
        assert (Hcid : In (cur s) (ids (parts s))) by (eapply peek_Some_ids; eauto).
        assert (Hnk : ~ In k (keys m)).
        { intros Hin. pose proof (inv_idx keqb s H _ _ _ Hm Hin) as Hl. specialize (Ha _ Hl). congruence. }
        constructor; sproj.
        * intros k' t. destruct (keqb_spec k' k) as [->|Hne].
          -- intros _. exists (cur s). apply lookup_upsert_eq; assumption.
          -- rewrite !lookup_upsert_neq by assumption. apply (g_idx s g G).
        * intros a b ta tb ia ib.
          destruct (keqb_spec b k) as [->|Hbk].
          -- rewrite (lookup_upsert_eq keqb keqb_spec k (cur s)). intros Hta _ _ Hia [= <-].
             destruct (keqb_spec a k) as [->|Hak].
             ++ rewrite lookup_upsert_eq in Hia by assumption. injection Hia as <-. lia.
             ++ rewrite lookup_upsert_neq in Hia by assumption.
                pose proof (inv_ixrange keqb s H a ia Hia). rewrite (inv_cur keqb s H). lia.
          -- rewrite (lookup_upsert_neq keqb keqb_spec k b) by assumption.
             destruct (keqb_spec a k) as [->|Hak].
             ++ rewrite lookup_upsert_eq by assumption. intros [= <-] Htb Hlt'.
                pose proof (g_clk s g G b tb Htb). lia.
             ++ rewrite !lookup_upsert_neq by assumption. apply (g_ord s g G).
        * intros k' t. destruct (keqb_spec k' k) as [->|Hne].
          -- rewrite lookup_upsert_eq by assumption. intros [= <-]. lia.
          -- rewrite lookup_upsert_neq by assumption. intros Hl. pose proof (g_clk s g G k' t Hl). lia.
        * pose proof (g_cnt s g G). lia.
        * lia.
        * intros m'. rewrite peek_put_eq by assumption. intros [= <-].
          rewrite length_upsert by assumption.
          replace (has k m) with false by (symmetry; apply has_false; assumption).
          pose proof (g_curlen s g G m Hm). lia.
        * rewrite length_put. apply (g_full s g G).
        * apply NoDup_upsert; [assumption|apply (g_nd s g G)].
        * rewrite length_put. apply (g_ne s g G).
      + (* a new partition is opened *)
        cbn [open_part cur parts index next P C] in *.
        assert (Hfull : next s * C s <= n_ins g).
        { destruct (Nat.eq_dec (next s) 0) as [E0|E0]; [rewrite E0; simpl; lia|].
          destruct (cur_live s g H G ltac:(lia)) as (mc & Hmc).
          unfold room in Er. rewrite Hmc in Er. apply Nat.ltb_ge in Er.
          pose proof (g_curlen s g G mc Hmc). pose proof (g_cnt s g G).
          replace (next s * C s) with ((next s - 1) * C s + C s); [lia|].
          rewrite Nat.mul_sub_distr_r. pose proof (Nat.mul_le_mono_r 1 (next s) (C s) ltac:(lia)). lia. }
        assert (Hm0 : m = []).
        { rewrite peek_app in Hm. destruct (peek (S (next s)) (parts s)) eqn:E.
          - apply peek_Some_ids in E. apply (Inv_id_range keqb s _ H) in E. lia.
          - cbn [peek] in Hm. rewrite Nat.eqb_refl in Hm. congruence. }
        subst m.
        assert (Hcid : In (S (next s)) (ids (parts s ++ [(S (next s), [])]))).
        { unfold ids. rewrite map_app, in_app_iff. right. left. reflexivity. }
        constructor; sproj.
        * intros k' t. destruct (keqb_spec k' k) as [->|Hne].
          -- intros _. exists (S (next s)). apply lookup_upsert_eq; assumption.
          -- rewrite !lookup_upsert_neq by assumption. apply (g_idx s g G).
        * intros a b ta tb ia ib.
          destruct (keqb_spec b k) as [->|Hbk].
          -- rewrite (lookup_upsert_eq keqb keqb_spec k (S (next s))). intros Hta _ _ Hia [= <-].
             destruct (keqb_spec a k) as [->|Hak].
             ++ rewrite lookup_upsert_eq in Hia by assumption. injection Hia as <-. lia.
             ++ rewrite lookup_upsert_neq in Hia by assumption.
                pose proof (inv_ixrange keqb s H a ia Hia). lia.
          -- rewrite (lookup_upsert_neq keqb keqb_spec k b) by assumption.
             destruct (keqb_spec a k) as [->|Hak].
             ++ rewrite lookup_upsert_eq by assumption. intros [= <-] Htb Hlt'.
                pose proof (g_clk s g G b tb Htb). lia.
             ++ rewrite !lookup_upsert_neq by assumption. apply (g_ord s g G).
        * intros k' t. destruct (keqb_spec k' k) as [->|Hne].
          -- rewrite lookup_upsert_eq by assumption. intros [= <-]. lia.
          -- rewrite lookup_upsert_neq by assumption. intros Hl. pose proof (g_clk s g G k' t Hl). lia.
        * replace (S (next s) - 1) with (next s) by lia. lia.
        * lia.
        * intros m'. rewrite peek_put_eq by assumption. intros [= <-]. simpl. lia.
        * rewrite length_put, app_length. simpl. intros Hp. pose proof (g_full s g G ltac:(lia)). lia.
        * apply NoDup_upsert; [assumption|apply (g_nd s g G)].
        * rewrite length_put, app_length. simpl. lia.
    - (* update in place: nothing the ghost tracks changes *)
      unfold CacheGhost.is_fresh in Ef. unfold Cache.set.
      destruct (lookup k (index s)) as [id|] eqn:El; [|discriminate].
      destruct (peek id (parts s)) as [m|] eqn:Ep; [|discriminate].
      assert (Hid : In id (ids (parts s))) by (eapply peek_Some_ids; eauto).
      assert (Hk : In k (keys m)) by (eapply (inv_live keqb s H); eauto).
      constructor; sproj; try apply G.
      + intros k' t Hl. pose proof (g_clk s g G k' t Hl). lia.
      + intros m'. destruct (Nat.eq_dec (cur s) id) as [Hc|Hne].
        * rewrite Hc. rewrite peek_put_eq by assumption. intros [= <-]. rewrite length_upsert by assumption.
          replace (has k m) with true by (symmetry; apply has_In; assumption).
          apply (g_curlen s g G). rewrite Hc. exact Ep.
        * rewrite peek_put_neq by assumption. apply (g_curlen s g G).
      + rewrite length_put. apply (g_full s g G).
      + rewrite length_put. apply (g_ne s g G).
  Qed.

  Lemma GInv_delete s g k : Inv s -> GInv s g ->
    GInv (delete s k) {| born := remove k (born g); clock := S (clock g); n_ins := n_ins g; ins_cur := ins_cur g |}.
  Proof.
    intros H G. pose proof (g_nd s g G) as Hndb. pose proof (inv_ixnd keqb s H) as Hndi.
    assert (Hb : forall k' t, lookup k' (remove k (born g)) = Some t -> k' <> k /\ lookup k' (born g) = Some t).
    { intros k' t. destruct (keqb_spec k' k) as [->|Hne].
      - rewrite lookup_remove_eq by assumption. discriminate.
      - rewrite lookup_remove_neq by assumption. auto. }
    unfold Cache.delete.
    destruct (lookup k (index s)) as [id|] eqn:El.
    2:{ constructor; sproj; try apply G.
        - intros k' t Hl. destruct (Hb _ _ Hl) as [_ Hl']. apply (g_idx s g G _ _ Hl').
        - intros a b ta tb ia ib Ha Hbb. destruct (Hb _ _ Ha) as [_ Ha']. destruct (Hb _ _ Hbb) as [_ Hb'].
          apply (g_ord s g G a b ta tb); assumption.
        - intros k' t Hl. destruct (Hb _ _ Hl) as [_ Hl']. pose proof (g_clk s g G _ _ Hl'). lia.
        - apply NoDup_remove; assumption. }
    destruct (peek id (parts s)) as [m|] eqn:Ep.
    2:{ constructor; sproj; try apply G.
        - intros k' t Hl. destruct (Hb _ _ Hl) as [_ Hl']. apply (g_idx s g G _ _ Hl').
        - intros a b ta tb ia ib Ha Hbb. destruct (Hb _ _ Ha) as [_ Ha']. destruct (Hb _ _ Hbb) as [_ Hb'].
          apply (g_ord s g G a b ta tb); assumption.
        - intros k' t Hl. destruct (Hb _ _ Hl) as [_ Hl']. pose proof (g_clk s g G _ _ Hl'). lia.
        - apply NoDup_remove; assumption. }
    destruct (has k m) eqn:Eh.
    2:{ constructor; sproj; try apply G.
        - intros k' t Hl. destruct (Hb _ _ Hl) as [_ Hl']. apply (g_idx s g G _ _ Hl').
        - intros a b ta tb ia ib Ha Hbb. destruct (Hb _ _ Ha) as [_ Ha']. destruct (Hb _ _ Hbb) as [_ Hb'].
          apply (g_ord s g G a b ta tb); assumption.
        - intros k' t Hl. destruct (Hb _ _ Hl) as [_ Hl']. pose proof (g_clk s g G _ _ Hl'). lia.
        - apply NoDup_remove; assumption. }
    assert (Hid : In id (ids (parts s))) by (eapply peek_Some_ids; eauto).
    constructor; sproj.
    - intros k' t Hl. destruct (Hb _ _ Hl) as [Hne Hl']. rewrite lookup_remove_neq by assumption.
      apply (g_idx s g G _ _ Hl').
    - intros a b ta tb ia ib Ha Hbb Hlt. destruct (Hb _ _ Ha) as [Hna Ha']. destruct (Hb _ _ Hbb) as [Hnb Hb'].
      rewrite !lookup_remove_neq by assumption. apply (g_ord s g G a b ta tb); assumption.
    - intros k' t Hl. destruct (Hb _ _ Hl) as [_ Hl']. pose proof (g_clk s g G _ _ Hl'). lia.
    - apply (g_cnt s g G).
    - apply (g_cur1 s g G).
    - intros m'. destruct (Nat.eq_dec (cur s) id) as [Hc|Hne].
      + rewrite Hc. rewrite peek_put_eq by assumption. intros [= <-]. rewrite <- Hc in Ep.
        pose proof (length_remove keqb k m). pose proof (g_curlen s g G m Ep). lia.
      + rewrite peek_put_neq by assumption. apply (g_curlen s g G).
    - rewrite length_put. apply (g_full s g G).
    - apply NoDup_remove; assumption.
    - rewrite length_put. apply (g_ne s g G).
  Qed.

  Lemma GInv_sweep s g : Inv s -> GInv s g -> GInv (sweep s) (tick g).
  Proof.
    intros H G. destruct (inv_pc keqb s H) as [HP _].
    constructor; unfold sweep; sproj; try apply G.
    - intros k t Hl. pose proof (g_clk s g G k t Hl). lia.
    - intros m Hp. apply peek_skipn in Hp; [|apply (Inv_nodup_ids keqb s H)]. apply (g_curlen s g G m Hp).
    - intros Hn. pose proof (g_full s g G Hn) as Hl. rewrite skipn_length. lia.
    - intros Hn. pose proof (g_ne s g G Hn). rewrite skipn_length. lia.
  Qed.

  (* ---- consequences ---- *)
  Theorem fifo s g a b ta tb :
    Inv s -> GInv s g ->
    lookup a (born g) = Some ta -> lookup b (born g) = Some tb -> ta < tb ->
    get s a <> None -> get s b <> None.
  Proof.
    intros H G Ha Hb Hlt Hga.
    destruct (g_idx s g G _ _ Hb) as (ib & Hib).
    unfold Cache.get in Hga. destruct (lookup a (index s)) as [ia|] eqn:Hia; [|congruence].
    destruct (peek ia (parts s)) as [ma|] eqn:Epa; [|congruence].
    pose proof (g_ord s g G _ _ _ _ _ _ Ha Hb Hlt Hia Hib) as Hle.
    assert (Hlive : In ib (ids (parts s))).
    { apply (Inv_id_range keqb s _ H). apply peek_Some_ids in Epa. apply (Inv_id_range keqb s _ H) in Epa.
      pose proof (inv_ixrange keqb s H b ib Hib). lia. }
    unfold Cache.get. rewrite Hib.
    destruct (peek ib (parts s)) as [mb|] eqn:Epb; [|apply peek_None in Epb; contradiction].
    pose proof (inv_live keqb s H _ _ _ Hib Epb) as Hin.
    destruct (lookup b mb) eqn:E; [discriminate|]. apply lookup_None in E; [contradiction|assumption].
  Qed.

  Theorem not_early s g :
    Inv s -> GInv s g -> n_ins g <= P s * C s ->
    forall k t, lookup k (born g) = Some t -> get s k <> None.
  Proof.
    intros H G Hn k t Hb.
    assert (Hnext : next s <= P s).
    { destruct (le_lt_dec (next s) (P s)) as [|Hgt]; [assumption|exfalso].
      pose proof (g_cur1 s g G ltac:(destruct (inv_pc keqb s H); lia)).
      pose proof (g_cnt s g G).
      assert (P s * C s <= (next s - 1) * C s) by (apply Nat.mul_le_mono_r; lia). lia. }
    pose proof (g_full s g G Hnext) as Hfull.
    destruct (g_idx s g G _ _ Hb) as (id & Hid).
    pose proof (inv_ixrange keqb s H k id Hid) as Hr.
    assert (Hlive : In id (ids (parts s))) by (apply (Inv_id_range keqb s _ H); lia).
    unfold Cache.get. rewrite Hid.
    destruct (peek id (parts s)) as [m|] eqn:Ep; [|apply peek_None in Ep; contradiction].
    pose proof (inv_live keqb s H _ _ _ Hid Ep) as Hin.
    destruct (lookup k m) eqn:E; [discriminate|]. apply lookup_None in E; [contradiction|assumption].
  Qed.

  (* each overflow costs at most one partition *)
  Lemma set_parts_length (s : state) k v : length (parts (set s k v)) <= S (length (parts s)).
  Proof.
    unfold Cache.set, Cache.fresh.
    destruct (lookup k (index s)) as [id|]; [destruct (peek id (parts s))|];
      try (sproj; rewrite length_put; lia);
      destruct (room s); sproj;
      match goal with |- context [peek ?a ?b] => destruct (peek a b) end; sproj;
      rewrite ?length_put, ?app_length; simpl; lia.
  Qed.
End CacheFifo.
