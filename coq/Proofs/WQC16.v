(* C16: Dequeue and SetPriority act on exactly the identified item (fixed code). *)
From Coq Require Import List Arith ZArith Bool Lia Permutation.
From TC.Lib Require Import GoHeap GoHeapProofs.
From TC.Model Require Import WQ.
From TC.Proofs Require Import WQHeap WQInv WQCons.
Import ListNotations.

(* ---- Dequeue of an item waiting in the priority queue ---- *)
Lemma dequeue_waiting s id vals it :
  reach fixed s -> panicked s = false -> predrain s = true ->
  find_item id s = Some it -> ist it = false -> (0 <= ipos it)%Z ->
  exists x h1 h2,
    step fixed s (Dequeue id vals)
    = Some (ev (EvDeq id true) (ev (EvAdjust (consults h1))
             (set_heap h2 (set_removed (removed s ++ [x]) (set_workitems (remove_id id (workitems s)) s))))) /\
    iid x = id /\ ikey x = ikey it /\ In it (heap s) /\
    Permutation (ikey x :: map ikey h1) (map ikey (heap s)) /\
    Permutation (map ikey h2) (map ikey (adjust_all vals h1)) /\
    heap_ok (item_lt fixed) h2.
Proof.
  intros R Hnp Hpre Hf Hst Hpos.
  pose proof (hinv_reach s R) as Hh. pose proof (pos_out_reach s R) as Hpo.
  assert (Hlt : (ipos it <? 0)%Z = false) by (apply Z.ltb_ge; lia).
  destruct (target_in_heap _ _ _ Hh Hpo Hpre Hf Hlt) as (Hid & Hin & Hnth).
  destruct (w_remove_ok _ _ _ (proj1 Hh) Hnth) as (x & h1 & Hr & _ & Hk & Hperm).
  exists x, h1, (fst (adjust fixed vals h1)).
  split.
  - unfold step. rewrite Hnp, Hf, Hst. cbn [position_default_zero fixed negb andb]. rewrite Hlt.
    assert (Hge : (0 <=? ipos it)%Z = true) by (apply Z.leb_le; lia). rewrite Hge, Hr.
    rewrite adjust_fixed. reflexivity.
  - split; [rewrite <- Hid; exact (f_equal iid Hk)|]. split; [exact Hk|]. split; [exact Hin|].
    split; [exact Hperm|]. split; [apply adjust_perm|apply adjust_ok].
Qed.

(* ---- items removed by Dequeue never start ---- *)
Lemma removed_mono s l s' x : step fixed s l = Some s' -> In x (removed s) -> In x (removed s').
Proof.
  intros H Hx. step_inv H; unset;
    repeat match goal with
      | D : decide _ _ _ = Some _ |- _ => apply decide_frame in D; destruct D as (? & ->); unset
      end; try assumption.
  apply in_or_app. left. exact Hx.
Qed.

Lemma removed_mono_run ls : forall s s' x, run fixed s ls = Some s' -> In x (removed s) -> In x (removed s').
Proof.
  induction ls as [|l t IH]; simpl; intros s s' x H Hx.
  - injection H as <-. exact Hx.
  - destruct (step fixed s l) as [s1|] eqn:E; [|discriminate]. eapply IH; [exact H|]. eapply removed_mono; eauto.
Qed.

Lemma removed_not_started s x : reach fixed s -> In x (removed s) -> nstart (iid x) (trace s) = 0.
Proof.
  intros R Hx. pose proof (started_reach s R (iid x)) as Hs. pose proof (cons_reach s R (iid x)) as Hc.
  unfold total in Hc. assert (Hr : 0 < cnt (iid x) (removed s)) by (apply cnt_in; eauto).
  destruct (iid x <? nextid s); lia.
Qed.

Theorem removed_never_starts s x ls s' :
  reach fixed s -> In x (removed s) -> run fixed s ls = Some s' -> nstart (iid x) (trace s') = 0.
Proof.
  intros R Hx Hr. apply removed_not_started; [eapply run_reach; eauto|eapply removed_mono_run; eauto].
Qed.

(* ---- Dequeue of anything else ---- *)
Lemma dequeue_not_waiting s id vals it :
  panicked s = false -> find_item id s = Some it -> (ist it = true \/ (ipos it < 0)%Z) ->
  step fixed s (Dequeue id vals) = Some (ev (EvDeq id false) s).
Proof.
  intros Hnp Hf H. unfold step. rewrite Hnp, Hf. destruct (ist it); [reflexivity|].
  destruct H as [H|H]; [discriminate|]. cbn [position_default_zero fixed negb andb].
  apply Z.ltb_lt in H. rewrite H. reflexivity.
Qed.
Lemma dequeue_unknown s id vals :
  panicked s = false -> find_item id s = None -> step fixed s (Dequeue id vals) = Some (ev (EvDeq id true) s).
Proof. intros Hnp Hf. unfold step. rewrite Hnp, Hf. reflexivity. Qed.

(* executing items are IN_PROGRESS *)
Definition st_inv (s : state) : Prop := forall x, In x (running s) -> ist x = true.
Lemma st_step s l s' : st_inv s -> step fixed s l = Some s' -> st_inv s'.
Proof.
  intros Hs H. unfold st_inv in *. step_inv H; unset;
    repeat match goal with
      | D : decide _ _ _ = Some _ |- _ => apply decide_frame in D; destruct D as (? & ->); unset
      | T : take_item _ _ = Some _ |- _ => apply take_item_spec in T; destruct T as (_ & _ & _ & _ & T)
      end; try assumption; intros y Hy; auto.
  apply in_app_or in Hy. destruct Hy as [Hy|[<-|[]]]; [auto|reflexivity].
Qed.
Theorem st_reach s : reach fixed s -> st_inv s.
Proof. induction 1; [intros x []|eapply st_step; eauto]. Qed.

(* where the identified item can be when it is not waiting in the heap *)
Lemma not_waiting_cases s id it :
  reach fixed s -> predrain s = true -> find_item id s = Some it -> ~ In it (heap s) ->
  (In it (running s) -> ist it = true) /\ (ipos it = (-1)%Z).
Proof.
  intros R Hpre Hf Hn. apply find_item_spec in Hf. destruct Hf as (_ & Hin & _).
  apply in_all_items in Hin. destruct Hin as [Hin|Hin]; [contradiction|].
  split; [apply (st_reach s R)|]. apply (proj1 (pos_out_reach s R) Hpre it Hin).
Qed.

(* ---- SetPriority ---- *)
Lemma adjust_all_key_perm vals l l' :
  Permutation (map ikey l) (map ikey l') -> Permutation (map ikey (adjust_all vals l)) (map ikey (adjust_all vals l')).
Proof.
  intros P. unfold adjust_all. rewrite !map_map.
  assert (E : forall l0, map (fun x => ikey (set_prio (eff vals x) x)) l0
                         = map (fun k => set_prio (eff vals k) k) (map ikey l0)).
  { intros l0. rewrite map_map. apply map_ext. intros x. reflexivity. }
  rewrite !E. apply Permutation_map, P.
Qed.

Lemma setprio_waiting s id p vals it :
  reach fixed s -> panicked s = false -> predrain s = true ->
  find_item id s = Some it -> ist it = false -> (0 <= ipos it)%Z ->
  let upd := fun x => if iid x =? id then set_prio p x else x in
  exists cs h2,
    step fixed s (SetPrio id p vals)
    = Some (ev (EvSetPrio id true) (ev (EvAdjust cs) (set_heap h2 s))) /\
    In it (heap s) /\ iid it = id /\
    Permutation (map ikey h2) (map ikey (adjust_all vals (map upd (heap s)))) /\
    heap_ok (item_lt fixed) h2.
Proof.
  intros R Hnp Hpre Hf Hst Hpos upd.
  pose proof (hinv_reach s R) as Hh. pose proof (pos_out_reach s R) as Hpo.
  assert (Hlt : (ipos it <? 0)%Z = false) by (apply Z.ltb_ge; lia).
  destruct (target_in_heap _ _ _ Hh Hpo Hpre Hf Hlt) as (Hid & Hin & Hnth).
  eexists. exists (fst (adjust fixed vals (h_fix wlt set_pos (map upd (heap s)) (Z.to_nat (ipos it))))).
  split.
  - unfold step. rewrite Hnp, Hf, Hst. cbn [position_default_zero fixed]. rewrite Hlt.
    rewrite adjust_fixed. cbn [fst]. reflexivity.
  - split; [exact Hin|]. split; [exact Hid|]. split; [|apply adjust_ok].
    etransitivity; [apply adjust_perm|]. apply adjust_all_key_perm, w_fix_perm.
Qed.

Lemma setprio_not_waiting s id p vals it :
  panicked s = false -> find_item id s = Some it -> (ist it = true \/ (ipos it < 0)%Z) ->
  step fixed s (SetPrio id p vals) = Some (ev (EvSetPrio id false) s).
Proof.
  intros Hnp Hf H. unfold step. rewrite Hnp, Hf. destruct (ist it); [reflexivity|].
  destruct H as [H|H]; [discriminate|]. cbn [position_default_zero fixed].
  apply Z.ltb_lt in H. rewrite H. reflexivity.
Qed.
Lemma setprio_unknown s id p vals :
  panicked s = false -> find_item id s = None -> step fixed s (SetPrio id p vals) = Some (ev (EvSetPrio id true) s).
Proof. intros Hnp Hf. unfold step. rewrite Hnp, Hf. reflexivity. Qed.

(* ---- items on the dispatcher's side have never started: state IN_QUEUE ---- *)
Definition unstarted (x : item) : Prop := ist x = false.
Lemma forall_key_perm l l' :
  Permutation (map ikey l) (map ikey l') -> Forall unstarted l -> Forall unstarted l'.
Proof.
  intros P H. apply Forall_forall. intros y Hy. rewrite Forall_forall in H.
  destruct (perm_key_in _ _ _ (Permutation_sym P) Hy) as (y' & Hy' & E).
  specialize (H y' Hy'). unfold unstarted in *. rewrite <- H. exact (f_equal ist (eq_sym E)).
Qed.

Definition dq_inv (s : state) : Prop :=
  Forall unstarted (producers s) /\ Forall unstarted (held (disp s)) /\ Forall unstarted (heap s).

Lemma adjust_unstarted vals l : Forall unstarted l -> Forall unstarted (fst (adjust fixed vals l)).
Proof.
  intros H. eapply forall_key_perm; [apply Permutation_sym, adjust_perm|].
  unfold adjust_all. apply Forall_forall. intros y Hy. apply in_map_iff in Hy. destruct Hy as (x & <- & Hx).
  rewrite Forall_forall in H. exact (H x Hx).
Qed.

Lemma decide_unstarted vals s x s1 :
  decide fixed vals s = Some (x, s1) -> Forall unstarted (heap s) -> unstarted x /\ Forall unstarted (heap s1).
Proof.
  intros D H. apply decide_spec in D. destruct D as (h2 & Hpop & ->). cbn.
  apply w_pop_perm in Hpop. pose proof (adjust_unstarted vals _ H) as Ha.
  assert (Hf : Forall unstarted (x :: h2)) by (eapply forall_key_perm; [apply Permutation_sym, Hpop|exact Ha]).
  inversion Hf; subst. auto.
Qed.

Lemma push_unstarted l w : Forall unstarted l -> unstarted w -> Forall unstarted (h_push wlt set_pos l w).
Proof.
  intros Hl Hw. apply (forall_key_perm (w :: l)); [apply Permutation_sym, w_push_perm|]. constructor; assumption.
Qed.

Lemma dq_step s l s' : dq_inv s -> step fixed s l = Some s' -> dq_inv s'.
Proof.
  intros (H1 & H2 & H3) H. unfold dq_inv.
  step_inv H; unset;
    repeat match goal with
      | E : disp s = _ |- _ => rewrite E in *; clear E
      | T : take_item _ _ = Some _ |- _ => apply take_item_spec in T; destruct T as (_ & ? & _ & _ & ?)
      | D : decide _ _ _ = Some _ |- _ =>
          let Hx := fresh "Hx" in
          pose proof (decide_unstarted _ _ _ _ D) as Hx; apply decide_frame in D; destruct D as (? & ->); unset
      end;
    cbn [held] in *; try (repeat split; assumption).
  all: repeat match goal with |- _ /\ _ => split end; try assumption; try (apply push_unstarted; try assumption).
  all: try (rewrite Forall_forall in *; cbn [In] in *; intros; intuition (subst; unfold unstarted in *; cbn [ist set_seq]; eauto); fail).
  - apply Forall_app. split; [assumption|]. repeat constructor.
  - (* Dequeue *)
    assert (E : l1 = fst (adjust fixed vals l0)) by (rewrite Heqp1; reflexivity). subst l1.
    apply adjust_unstarted. destruct (0 <=? ipos i)%Z.
    + destruct (h_remove wlt set_pos (heap s) (Z.to_nat (ipos i))) as [[x h']|] eqn:Er; [|discriminate].
      injection Heqo0 as <- <-. apply w_remove_perm in Er.
      assert (Hf : Forall unstarted (x :: h')) by (eapply forall_key_perm; [apply Permutation_sym, Er|exact H3]).
      inversion Hf; assumption.
    + injection Heqo0 as <- <-. exact H3.
  - (* SetPrio *)
    match goal with E : adjust fixed vals ?h = (l, _) |- _ =>
      assert (E' : l = fst (adjust fixed vals h)) by (rewrite E; reflexivity) end. subst l.
    apply adjust_unstarted. eapply forall_key_perm; [apply Permutation_sym, w_fix_perm|].
    apply Forall_forall. intros y Hy. apply in_map_iff in Hy. destruct Hy as (x & <- & Hx).
    rewrite Forall_forall in H3. specialize (H3 x Hx). unfold unstarted in *. destruct (iid x =? id); exact H3.
  - tauto.
  - rewrite Heql. constructor.
  - rewrite Heql in Hx. constructor; [tauto|constructor].
  - rewrite Heql in Hx. tauto.
  - rewrite Heql. exact H3.
Qed.

Theorem dq_reach s : reach fixed s -> dq_inv s.
Proof. induction 1; [repeat split; constructor|eapply dq_step; eauto]. Qed.

(* items taken out of the heap by Dequeue were never started *)
Lemma removed_unstarted_step s l s' :
  dq_inv s -> Forall unstarted (removed s) -> step fixed s l = Some s' -> Forall unstarted (removed s').
Proof.
  intros (_ & _ & H3) Hr H. step_inv H; unset;
    repeat match goal with D : decide _ _ _ = Some _ |- _ => apply decide_frame in D; destruct D as (? & ->); unset end;
    try assumption.
  apply Forall_app. split; [exact Hr|].
  destruct (0 <=? ipos i)%Z.
  - destruct (h_remove wlt set_pos (heap s) (Z.to_nat (ipos i))) as [[x h']|] eqn:Er; [|discriminate].
    injection Heqo0 as <- <-. apply w_remove_perm in Er.
    assert (Hf : Forall unstarted (x :: h')) by (eapply forall_key_perm; [apply Permutation_sym, Er|exact H3]).
    inversion Hf; subst. constructor; [assumption|constructor].
  - injection Heqo0 as <- <-. constructor.
Qed.
Theorem removed_unstarted s : reach fixed s -> Forall unstarted (removed s).
Proof.
  induction 1 as [|s l s' R IH H]; [constructor|]. eapply removed_unstarted_step; eauto. apply dq_reach, R.
Qed.
