(* The verified container/heap mirror (Lib/GoHeapProofs.v) instantiated for the work queue:
   Less = (priority, arrival number) lexicographic, Swap/Push/Pop write [ipos]. *)
From Coq Require Import List Arith ZArith Bool Lia Permutation.
From TC.Lib Require Import GoHeap GoHeapProofs.
From TC.Model Require Import WQ.
Import ListNotations.

Notation wlt := (item_lt fixed).
Notation wle := (le (item_lt fixed)).

(* what Swap/Push/Pop never change: everything but the position *)
Definition ikey (x : item) : item := set_pos 0 x.

Lemma wlt_eq x y :
  wlt x y = ((iprio x <? iprio y)%Z || ((iprio x =? iprio y)%Z && (iseq x <? iseq y))).
Proof. reflexivity. Qed.

Lemma wlt_setpos_l p x y : wlt (set_pos p x) y = wlt x y.
Proof. reflexivity. Qed.
Lemma wlt_setpos_r p x y : wlt x (set_pos p y) = wlt x y.
Proof. reflexivity. Qed.

(* le x y  <->  (prio x, seq x) <= (prio y, seq y) lexicographically *)
Definition lexle (p : Z) (q : nat) (p' : Z) (q' : nat) : Prop :=
  (p < p')%Z \/ (p = p' /\ q <= q').

Lemma wle_iff x y : wle x y = true <-> lexle (iprio x) (iseq x) (iprio y) (iseq y).
Proof.
  unfold le, lexle. rewrite wlt_eq, negb_true_iff, orb_false_iff, andb_false_iff.
  rewrite Z.ltb_ge, Z.eqb_neq, Nat.ltb_ge. lia.
Qed.

Lemma wle_total x y : wle x y = true \/ wle y x = true.
Proof. rewrite !wle_iff. unfold lexle. lia. Qed.
Lemma wle_trans x y z : wle x y = true -> wle y z = true -> wle x z = true.
Proof. rewrite !wle_iff. unfold lexle. lia. Qed.

Lemma ikey_setpos p x : ikey (set_pos p x) = ikey x.
Proof. reflexivity. Qed.
Lemma iid_setpos p x : iid (set_pos p x) = iid x.
Proof. reflexivity. Qed.
Lemma ipos_setpos p x : ipos (set_pos p x) = p.
Proof. reflexivity. Qed.

Lemma wle_ikey x y : wle x (ikey y) = wle x y.
Proof. reflexivity. Qed.

Notation hok := (heap_ok (item_lt fixed)).
Notation pok := (positions_ok ipos).

Definition w_init_ok : forall l, hok (h_init wlt set_pos l) :=
  h_init_ok wlt set_pos wlt_setpos_l wlt_setpos_r wle_total wle_trans.
Definition w_push_ok : forall l x, hok l -> hok (h_push wlt set_pos l x) :=
  h_push_ok wlt set_pos wlt_setpos_l wlt_setpos_r wle_total wle_trans.
Definition w_pop_ok :
  forall l x l', hok l -> h_pop wlt set_pos l = Some (x, l') ->
    hok l' /\ Permutation (ikey x :: map ikey l') (map ikey l) /\ (forall y, In y l -> wle x y = true) :=
  h_pop_ok wlt set_pos ikey wlt_setpos_l wlt_setpos_r wle_total wle_trans ikey_setpos.
Definition w_remove_ok :
  forall l i a, hok l -> nth_error l i = Some a ->
    exists x l', h_remove wlt set_pos l i = Some (x, l') /\ hok l' /\ ikey x = ikey a /\
                 Permutation (ikey x :: map ikey l') (map ikey l) :=
  h_remove_ok wlt set_pos ikey wlt_setpos_l wlt_setpos_r wle_total wle_trans ikey_setpos.

Definition w_init_perm : forall l, Permutation (map ikey (h_init wlt set_pos l)) (map ikey l) :=
  h_init_perm wlt set_pos ikey ikey_setpos.
Definition w_push_perm : forall l x, Permutation (map ikey (h_push wlt set_pos l x)) (ikey x :: map ikey l) :=
  h_push_perm wlt set_pos ikey ikey_setpos.
Definition w_fix_perm : forall l i, Permutation (map ikey (h_fix wlt set_pos l i)) (map ikey l) :=
  h_fix_perm wlt set_pos ikey ikey_setpos.
Definition w_pop_perm : forall l x l', h_pop wlt set_pos l = Some (x, l') ->
    Permutation (ikey x :: map ikey l') (map ikey l) :=
  h_pop_perm wlt set_pos ikey ikey_setpos.
Definition w_remove_perm : forall l i x l', h_remove wlt set_pos l i = Some (x, l') ->
    Permutation (ikey x :: map ikey l') (map ikey l) :=
  h_remove_perm wlt set_pos ikey ikey_setpos.

Definition w_init_pos : forall l, pok l -> pok (h_init wlt set_pos l) :=
  h_init_pos wlt set_pos ipos ipos_setpos.
Definition w_push_pos : forall l x, pok l -> pok (h_push wlt set_pos l x) :=
  h_push_pos wlt set_pos ipos ipos_setpos.
Definition w_pop_pos : forall l x l', pok l -> h_pop wlt set_pos l = Some (x, l') -> pok l' /\ ipos x = (-1)%Z :=
  h_pop_pos wlt set_pos ipos ipos_setpos.
Definition w_remove_pos : forall l i x l', pok l -> h_remove wlt set_pos l i = Some (x, l') ->
    pok l' /\ ipos x = (-1)%Z :=
  h_remove_pos wlt set_pos ipos ipos_setpos.
Definition w_fix_pos : forall l i, pok l -> pok (h_fix wlt set_pos l i) :=
  h_fix_pos wlt set_pos ipos ipos_setpos.

(* Permutation of keys transfers membership up to the position field *)
Lemma perm_key_in l l' y :
  Permutation (map ikey l) (map ikey l') -> In y l -> exists y', In y' l' /\ ikey y' = ikey y.
Proof.
  intros P Hy. assert (Hk : In (ikey y) (map ikey l')).
  { eapply Permutation_in; [exact P|]. apply in_map. exact Hy. }
  apply in_map_iff in Hk. destruct Hk as (y' & E & Hy'). eauto.
Qed.

(* ---- AdjustPriorities (fixed code) ---- *)
Lemma adjust_fixed vals l :
  adjust fixed vals l = (h_init wlt set_pos (adjust_all vals l), consults l).
Proof. reflexivity. Qed.

Lemma adjust_all_pos vals l : pok l -> pok (adjust_all vals l).
Proof.
  intros H i x Hx. unfold adjust_all in Hx. rewrite nth_error_map in Hx.
  destruct (nth_error l i) as [y|] eqn:E; [|discriminate]. injection Hx as <-. exact (H i y E).
Qed.

Lemma adjust_ok vals l : hok (fst (adjust fixed vals l)).
Proof. rewrite adjust_fixed. apply w_init_ok. Qed.
Lemma adjust_pos vals l : pok l -> pok (fst (adjust fixed vals l)).
Proof. intros H. rewrite adjust_fixed. apply w_init_pos, adjust_all_pos, H. Qed.
Lemma adjust_perm vals l : Permutation (map ikey (fst (adjust fixed vals l))) (map ikey (adjust_all vals l)).
Proof. rewrite adjust_fixed. apply w_init_perm. Qed.
Lemma adjust_consults vals l : snd (adjust fixed vals l) = consults l.
Proof. reflexivity. Qed.

Lemma map_iid_ikey l : map iid (map ikey l) = map iid l.
Proof. rewrite map_map. reflexivity. Qed.
Lemma perm_key_ids l l' : Permutation (map ikey l) (map ikey l') -> Permutation (map iid l) (map iid l').
Proof. intros P. rewrite <- (map_iid_ikey l), <- (map_iid_ikey l'). apply Permutation_map, P. Qed.
Lemma adjust_all_ids vals l : map iid (adjust_all vals l) = map iid l.
Proof. unfold adjust_all. rewrite map_map. reflexivity. Qed.
