(* Invariants of the publication model (Model/Pub.v): one record [Inv], preserved by every step. *)
From Coq Require Import List Arith Bool Lia.
From TC.Model Require Import Pub.
Import ListNotations.

Ltac bool_hyps := repeat match goal with
  | H : _ && _ = true |- _ => apply andb_true_iff in H; destruct H
  | H : (_ <? _) = true |- _ => apply Nat.ltb_lt in H
  | H : (_ <? _) = false |- _ => apply Nat.ltb_ge in H
  | H : (_ <=? _) = true |- _ => apply Nat.leb_le in H
  | H : (_ <=? _) = false |- _ => apply Nat.leb_gt in H
  | H : negb _ = true |- _ => apply negb_true_iff in H
  | H : negb _ = false |- _ => apply negb_false_iff in H
  | H : (_ =? _) = true |- _ => apply Nat.eqb_eq in H
  | H : (_ =? _) = false |- _ => apply Nat.eqb_neq in H
  | H : is_none ?x = true |- _ => destruct x eqn:?; try discriminate H; clear H
  | H : is_insel ?x = true |- _ => destruct x eqn:?; try discriminate H; clear H
  end.

(* invert [step st l = Some st'] into one goal per enabled branch *)
Ltac inv_step H :=
  unfold step in H;
  repeat match type of H with
         | context [match ?x with _ => _ end] => destruct x eqn:?
         | context [if ?x then _ else _] => destruct x eqn:?
         end;
  try discriminate; inversion H; subst; clear H; bool_hyps;
  repeat match goal with
         | |- context [if ?x then _ else _] => destruct x eqn:?
         end.

(* case analysis on every function update in the goal *)
Ltac dupd :=
  unfold with_cbF, with_cbT, with_pair, with_sub, with_panic in *; simpl in *;
  repeat match goal with
         | |- context [upd2 _ ?p ?s _ ?x ?y] =>
             unfold upd2 at 1; destruct (Nat.eqb_spec x p); destruct (Nat.eqb_spec y s); simpl; subst
         | |- context [upd _ ?k _ ?x] =>
             unfold upd at 1; destruct (Nat.eqb_spec x k); simpl; subst
         | H : context [upd2 _ ?p ?s _ ?x ?y] |- _ =>
             unfold upd2 in H at 1; destruct (Nat.eqb_spec x p); destruct (Nat.eqb_spec y s); simpl in H; subst
         | H : context [upd _ ?k _ ?x] |- _ =>
             unfold upd in H at 1; destruct (Nat.eqb_spec x k); simpl in H; subst
         end.

Section PubInv.
  Context {M : Type}.
  Notation state := (state M).
  Notation label := (label M).

  Definition key (x : nat * nat * M) : nat * nat := fst x.

  Record Inv (st : state) : Prop := mkInv {
    i_bnd : forall p s, pair st p s <> PNone -> p < npub st /\ s < nsub st;
    i_msg1 : forall p, p < npub st -> exists m, pmsg st p = Some m;
    i_msg2 : forall p m, pmsg st p = Some m -> p < npub st;
    i_pn0 : forall p, p < npub st -> pn0 st p <= nsub st;
    i_pt0 : forall p, p < npub st -> pt0 st p <= now st;
    i_open : forall p, popen st p = true -> p < npub st;
    (* filters *)
    i_acc : forall p s m, pmsg st p = Some m -> pair st p s <> PNone ->
                          (pair st p s = PFiltered <-> s_filt (subs st s) m = false);
    (* buffers *)
    i_buf : forall s p m, In (p, m) (s_got (subs st s) ++ s_buf (subs st s)) ->
                          pair st p s = PDelivered /\ pmsg st p = Some m;
    i_bufc : forall s p, pair st p s = PDelivered ->
                         exists m, pmsg st p = Some m /\ In (p, m) (s_got (subs st s) ++ s_buf (subs st s));
    i_nodup : forall s, NoDup (map fst (s_got (subs st s) ++ s_buf (subs st s)));
    i_cap : forall s, length (s_buf (subs st s)) <= s_cap (subs st s);
    (* callbacks *)
    i_cbF : forall s p m, In (s, p, m) (cbF st) <->
                          pair st p s = PFiltered /\ s_onF (subs st s) = true /\ pmsg st p = Some m;
    i_cbFn : NoDup (map key (cbF st));
    i_cbT : forall s p m, In (s, p, m) (cbT st) <->
                          pair st p s = PTimedOut /\ s_onT (subs st s) = true /\ pmsg st p = Some m;
    i_cbTn : NoDup (map key (cbT st));
    (* deadlines *)
    i_dl : forall p s dl, pair st p s = PInSel dl -> pt0 st p + s_tmo (subs st s) <= dl;
    i_to : forall p s, pair st p s = PTimedOut -> pt0 st p + s_tmo (subs st s) <= now st;
    (* closing *)
    i_ph : forall s, s_inmap (subs st s) = true -> s_phase (subs st s) = Open;
    i_insel : forall p s dl, pair st p s = PInSel dl -> s_phase (subs st s) <> Closed;
    i_ncl : forall s, s_ncl (subs st s) = match s_phase (subs st s) with Closed => 1 | _ => 0 end;
    i_eof : forall s, s_eof (subs st s) = true -> s_phase (subs st s) = Closed /\ s_buf (subs st s) = [];
    i_panic : panicked st = false
  }.

  Lemma inv_init : Inv (@init M).
  Proof.
    constructor; simpl; intros; try tauto; try discriminate; try lia; try constructor;
      try (split; intros; tauto); try (split; intros [? _]; discriminate).
  Qed.

  Lemma nodup_snoc {A B} (f : A -> B) l x :
    NoDup (map f l) -> ~ In (f x) (map f l) -> NoDup (map f (l ++ [x])).
  Proof.
    intros Hn Hx. rewrite map_app. simpl. induction (map f l) as [|a t IH]; simpl.
    - constructor; auto.
    - inversion Hn; subst. constructor.
      + rewrite in_app_iff. simpl. intros [?|[?|[]]]; auto. subst. apply Hx. left; auto.
      + apply IH; auto. intro. apply Hx. right; auto.
  Qed.

  Ltac use_inv I :=
    pose proof (i_bnd _ I) as Ibnd; pose proof (i_msg1 _ I) as Imsg1; pose proof (i_msg2 _ I) as Imsg2;
    pose proof (i_pn0 _ I) as Ipn0; pose proof (i_pt0 _ I) as Ipt0; pose proof (i_open _ I) as Iopen;
    pose proof (i_acc _ I) as Iacc;
    pose proof (i_buf _ I) as Ibuf; pose proof (i_bufc _ I) as Ibufc; pose proof (i_nodup _ I) as Inodup;
    pose proof (i_cap _ I) as Icap; pose proof (i_cbF _ I) as IcbF; pose proof (i_cbFn _ I) as IcbFn;
    pose proof (i_cbT _ I) as IcbT; pose proof (i_cbTn _ I) as IcbTn; pose proof (i_dl _ I) as Idl;
    pose proof (i_to _ I) as Ito; pose proof (i_ph _ I) as Iph; pose proof (i_insel _ I) as Iinsel;
    pose proof (i_ncl _ I) as Incl; pose proof (i_eof _ I) as Ieof; pose proof (i_panic _ I) as Ipanic.

  Ltac bnds :=
    repeat match goal with
      | Ibnd : forall p s, pair ?st p s <> PNone -> _, H : pair ?st ?p ?s = ?X |- _ =>
          lazymatch X with PNone => fail | _ => idtac end;
          lazymatch goal with _ : p < npub st |- _ => fail | _ => idtac end;
          let a := fresh in let b := fresh in
          assert (p < npub st /\ s < nsub st) as [a b] by (apply Ibnd; rewrite H; discriminate)
      | Ibnd : forall p s, pair ?st p s <> PNone -> _, H : pair ?st ?p ?s <> PNone |- _ =>
          lazymatch goal with _ : p < npub st |- _ => fail | _ => idtac end;
          let a := fresh in let b := fresh in
          assert (p < npub st /\ s < nsub st) as [a b] by (apply Ibnd; exact H)
      | Iopen : forall p, popen ?st p = true -> _, H : popen ?st ?p = true |- _ =>
          lazymatch goal with _ : p < npub st |- _ => fail | _ => idtac end;
          pose proof (Iopen _ H)
      | Imsg2 : forall p m, pmsg ?st p = Some m -> _, H : pmsg ?st ?p = Some _ |- _ =>
          lazymatch goal with _ : p < npub st |- _ => fail | _ => idtac end;
          pose proof (Imsg2 _ _ H)
      end.

  Ltac fwd :=
    repeat match goal with
      | H : In (?p, ?m) (s_got (subs ?st ?s) ++ s_buf (subs ?st ?s)) |- _ =>
          match goal with
          | Ibuf : (forall s p m, In (p, m) (s_got (subs st s) ++ s_buf (subs st s)) -> _) |- _ =>
              apply Ibuf in H; destruct H
          end
      | H : In (?p, ?m) (s_got (subs ?st ?s)) |- _ =>
          match goal with
          | Ibuf : (forall s p m, In (p, m) (s_got (subs st s) ++ s_buf (subs st s)) -> _) |- _ =>
              apply (fun h => Ibuf s p m (in_or_app _ _ _ (or_introl h))) in H; destruct H
          end
      | H : In (?p, ?m) (s_buf (subs ?st ?s)) |- _ =>
          match goal with
          | Ibuf : (forall s p m, In (p, m) (s_got (subs st s) ++ s_buf (subs st s)) -> _) |- _ =>
              apply (fun h => Ibuf s p m (in_or_app _ _ _ (or_intror h))) in H; destruct H
          end
      | H : In (?s, ?p, ?m) (cbF ?st) |- _ =>
          match goal with
          | IcbF : (forall s p m, In (s, p, m) (cbF st) <-> _) |- _ =>
              apply IcbF in H; destruct H as (? & ? & ?)
          end
      | H : In (?s, ?p, ?m) (cbT ?st) |- _ =>
          match goal with
          | IcbT : (forall s p m, In (s, p, m) (cbT st) <-> _) |- _ =>
              apply IcbT in H; destruct H as (? & ? & ?)
          end
      | H : In _ (_ ++ _) |- _ => apply in_app_or in H; destruct H
      | H : PInSel _ = PInSel _ |- _ => injection H; intros; subst; clear H
      | H : Some _ = Some _ |- _ => injection H; intros; subst; clear H
      | H1 : pmsg ?st ?p = Some ?m, H2 : pmsg ?st ?p = Some ?m' |- _ =>
          assert (m' = m) by congruence; subst m'; clear H2
      | H3 : s_filt (subs ?st ?s) ?m = false, H : pmsg ?st ?p = Some ?m, Hp : pair ?st ?p ?s = ?X |- _ =>
          lazymatch X with PNone => fail | PFiltered => fail | _ => idtac end;
          match goal with
          | Iacc : (forall p s m, pmsg st p = Some m -> pair st p s <> PNone -> _) |- _ =>
              let Hn := fresh in
              assert (Hn : pair st p s <> PNone) by (rewrite Hp; discriminate);
              pose proof (proj2 (Iacc p s m H Hn) H3); congruence
          end
      | H : In _ [_] |- _ => destruct H as [H | []]; inversion H; subst; clear H
      | H : In _ [] |- _ => destruct H
      | H : _ /\ _ |- _ => destruct H
      end.

  Ltac fin_in :=
    match goal with
    | IcbF : (forall s p m, In (s, p, m) (cbF ?st) <-> _) |- In _ (cbF ?st) => apply IcbF; auto
    | IcbT : (forall s p m, In (s, p, m) (cbT ?st) <-> _) |- In _ (cbT ?st) => apply IcbT; auto
    end.

  Ltac fin :=
    try solve [ eauto | congruence | lia | tauto | exfalso; lia | discriminate | constructor
              | match goal with H : _ |- _ => solve [apply H; eauto; congruence] end
              | match goal with H : _ |- _ => solve [eapply H; eauto; congruence] end
              | match goal with H : _ |- _ => solve [apply H; lia] end
              | match goal with
                | Ipt0 : (forall p, p < npub ?st -> pt0 ?st p <= now ?st), H : ?p < npub ?st |- _ =>
                    pose proof (Ipt0 _ H); lia
                end
              | apply in_or_app; left; fin_in
              | apply in_or_app; right; left; reflexivity ].

  Ltac easy_field :=
    intros; dupd; bnds; fwd; fin;
    try match goal with
        | |- _ <-> _ => split; intros; fwd; fin
        end.

  Ltac nodup_cb :=
    let HH := fresh "HH" in let HE := fresh "HE" in let HI := fresh "HI" in
    apply nodup_snoc; [assumption|]; simpl; intro HH; apply in_map_iff in HH;
    destruct HH as [[[? ?] ?] [HE HI]]; unfold key in HE; simpl in HE; inversion HE; subst;
    fwd; congruence.

  Lemma no_insel_spec (st : state) s p dl :
    no_insel st s = true -> p < npub st -> pair st p s = PInSel dl -> False.
  Proof.
    unfold no_insel. intros H Hp E. rewrite forallb_forall in H.
    specialize (H p). rewrite in_seq in H. rewrite E in H. simpl in H.
    assert (false = true) by (apply H; lia). discriminate.
  Qed.

  Lemma fresh_s st : Inv st -> forall p, pair st p (nsub st) = PNone.
  Proof.
    intros I p. destruct (pair st p (nsub st)) eqn:E; auto;
      (assert (p < npub st /\ nsub st < nsub st) as [_ ?] by (apply (i_bnd _ I); congruence); lia).
  Qed.
  Lemma fresh_p st : Inv st -> forall s, pair st (npub st) s = PNone.
  Proof.
    intros I s. destruct (pair st (npub st) s) eqn:E; auto;
      (assert (npub st < npub st /\ s < nsub st) as [? _] by (apply (i_bnd _ I); congruence); lia).
  Qed.

  Lemma inv_step st l st' : Inv st -> step st l = Some st' -> Inv st'.
  Proof.
    intros I H. use_inv I. pose proof (fresh_s _ I) as Hfs. pose proof (fresh_p _ I) as Hfp.
    destruct l.
    - inv_step H; constructor; simpl; easy_field; try rewrite Hfs in *; try congruence.
    - inv_step H; constructor; simpl; easy_field; try rewrite Hfp in *; try congruence.
    - inv_step H; constructor; simpl; easy_field.
      nodup_cb.
    - inv_step H; constructor; simpl; easy_field.
    - inv_step H; constructor; simpl; easy_field.
    - inv_step H; constructor; simpl; easy_field.
      all: try solve [eexists; split; [eassumption|]; rewrite app_assoc; apply in_or_app; right; left; reflexivity].
      all: try solve [match goal with
                      | H : pair ?st ?p0 ?s = PDelivered |- exists _, pmsg ?st ?p0 = _ /\ _ =>
                          let m0 := fresh "m" in
                          destruct (Ibufc _ _ H) as (m0 & ? & ?); exists m0; split; auto;
                          rewrite app_assoc; apply in_or_app; left; auto
                      end].
      all: try solve [rewrite app_assoc; apply nodup_snoc; [apply Inodup|]; simpl; intro HH;
                      apply in_map_iff in HH; destruct HH as [[p1 m1] [HE HI]]; simpl in HE; subst;
                      apply Ibuf in HI; destruct HI; congruence].
      all: try solve [rewrite app_length; simpl; lia].
      all: try solve [match goal with H : s_eof _ = true |- _ => apply Ieof in H; destruct H; congruence end].
      all: try solve [exfalso; eapply Iinsel; eauto].

    - inv_step H; constructor; simpl; easy_field.
      all: rewrite ?app_nil_r.
      all: try solve [eexists; split; [eassumption|]; apply in_or_app; right; left; reflexivity].
      all: try solve [match goal with
                      | H : pair ?st ?p0 ?s = PDelivered |- exists _, pmsg ?st ?p0 = _ /\ _ =>
                          let m0 := fresh "m" in
                          destruct (Ibufc _ _ H) as (m0 & ? & Hin); exists m0; split; auto;
                          rewrite Heql, app_nil_r in Hin; apply in_or_app; left; auto
                      end].
      all: try solve [apply nodup_snoc;
                      [specialize (Inodup s); rewrite Heql, app_nil_r in Inodup; exact Inodup|];
                      simpl; intro HH;
                      apply in_map_iff in HH; destruct HH as [[p1 m1] [HE HI]]; simpl in HE; subst;
                      fwd; congruence].
      all: try solve [match goal with H : s_eof _ = true |- _ => apply Ieof in H; destruct H; congruence end].

    - inv_step H; constructor; simpl; easy_field.
      + nodup_cb.
      + match goal with Hp : pair st p s = PInSel ?dl |- _ => pose proof (Idl _ _ _ Hp); lia end.
      + match goal with Hp : pair st p s = PInSel ?dl |- _ => pose proof (Idl _ _ _ Hp); lia end.
    - inv_step H; constructor; simpl; easy_field.
    - inv_step H; constructor; simpl; easy_field.
      all: try solve [apply (Ibuf s); rewrite Heql; apply in_or_app; right; simpl; auto].
      all: try solve [rewrite <- app_assoc; simpl; rewrite <- Heql; auto].
      all: try solve [specialize (Icap s); rewrite Heql in Icap; simpl in Icap; lia].
      all: try solve [match goal with H : s_eof _ = true |- _ => apply Ieof in H; destruct H; congruence end].

    - inv_step H; constructor; simpl; easy_field.
    - inv_step H; constructor; simpl; easy_field.
      + rewrite Incl. rewrite Heqp. reflexivity.
      + match goal with H : s_eof _ = true |- _ => apply Ieof in H; destruct H; congruence end.
      + apply Iph in Heqb0. congruence.
      + apply Iph in Heqb0. congruence.
    - inv_step H; constructor; simpl; easy_field.
      + match goal with H : s_inmap _ = true |- _ => apply Iph in H; congruence end.
      + exfalso. eapply no_insel_spec; eauto.
      + rewrite Incl, Heqp. reflexivity.
      + match goal with H : s_eof _ = true |- _ => apply Ieof in H; destruct H; congruence end.
  Qed.

  Theorem reach_inv st : reach st -> Inv st.
  Proof. induction 1; [apply inv_init | eapply inv_step; eauto]. Qed.

  Lemma run_reach (st st' : state) ls : reach st -> run st ls = Some st' -> reach st'.
  Proof.
    revert st. induction ls as [|l t IH]; simpl; intros st R H.
    - inversion H; subst; auto.
    - destruct (step st l) eqn:E; [|discriminate]. eapply IH; [|eauto]. eapply reach_step; eauto.
  Qed.

  Lemma run_app (st : state) l1 l2 :
    run st (l1 ++ l2) = match run st l1 with Some st1 => run st1 l2 | None => None end.
  Proof.
    revert st. induction l1; simpl; intros; auto. destruct (step st a); auto.
  Qed.

End PubInv.
