(* Get right after Set, also across sweeps. *)
From Coq Require Import List Arith Bool Lia.
From TC.Lib Require Import ListAux Assoc AssocProofs.
From TC.Model Require Import Cache CacheGhost.
From TC.Proofs Require Import CacheInv CacheViews CacheFifo.
Import ListNotations.

Section SetSweep.
  Context {K V : Type}.
  Variable keqb : K -> K -> bool.
  Hypothesis keqb_spec : forall x y, reflect (x = y) (keqb x y).
  Notation state := (@state K V).
  Notation lookup := (lookup keqb).
  Notation set := (set keqb).
  Notation get := (get keqb).
  Notation Inv := (Inv keqb).
  Ltac sproj := cbn [parts next cur index P C with_parts with_index open_part sweep].

  Lemma set_PC (s : state) k v : P (set s k v) = P s /\ C (set s k v) = C s.
  Proof.
    unfold Cache.set, Cache.fresh.
    destruct (lookup k (index s)) as [id|]; [destruct (peek id (parts s))|]; try (split; reflexivity);
      destruct (room s); sproj;
      match goal with |- context [peek ?a ?b] => destruct (peek a b) end; split; reflexivity.
  Qed.

  Lemma sweep_small (s : state) : length (parts s) <= P s -> sweep s = s.
  Proof.
    intros Hl. unfold sweep. replace (length (parts s) - P s) with 0 by lia. destruct s; reflexivity.
  Qed.

  Lemma sweep_idem (s : state) : sweep (sweep s) = sweep s.
  Proof. apply sweep_small. unfold sweep; sproj. rewrite skipn_length. lia. Qed.

  Theorem get_set_same (s : state) k v : Inv s -> get (set s k v) k = Some v.
  Proof.
    intros H. rewrite get_set by assumption. destruct (keqb_spec k k); [reflexivity|congruence].
  Qed.

  (* at a quiescent point (no sweep pending) a Set is still visible after the sweep it may trigger *)
  Theorem get_set_sweep (s : state) k v :
    Inv s -> length (parts s) <= P s -> get (sweep (set s k v)) k = Some v.
  Proof.
    intros H Hq. pose proof (get_set_same s k v H) as Hg.
    destruct (is_fresh keqb s k) eqn:Ef.
    - apply get_sweep_cur; [apply Inv_set; assumption| |exact Hg].
      rewrite (set_fresh keqb s k v Ef).
      destruct (fresh_shape keqb s k v H) as (m & Hm & Hlt & ->). sproj.
      apply lookup_upsert_eq. assumption.
    - rewrite sweep_small; [exact Hg|].
      unfold CacheGhost.is_fresh in Ef. unfold Cache.set.
      destruct (lookup k (index s)) as [id|]; [|discriminate].
      destruct (peek id (parts s)); [|discriminate]. sproj. rewrite length_put. exact Hq.
  Qed.

  (* what a sweep removes: exactly the (length parts - P) oldest partitions, each of at most C entries *)
  Theorem sweep_removes (s : state) :
    Inv s ->
    let evicted := firstn (length (parts s) - P s) (parts s) in
    parts s = evicted ++ parts (sweep s)
    /\ length evicted = length (parts s) - P s
    /\ (forall id m, In (id, m) evicted -> length m <= C s)
    /\ len s = length (flat_map (fun p => map fst (snd p)) evicted) + len (sweep s).
  Proof.
    intros H evicted. unfold sweep; sproj. split; [symmetry; apply firstn_skipn|].
    split; [unfold evicted; rewrite firstn_length; lia|]. split.
    - intros id m Hin. eapply (inv_cap keqb s H). apply In_peek; [apply (Inv_nodup_ids keqb s H)|].
      rewrite <- (firstn_skipn (length (parts s) - P s) (parts s)). apply in_or_app. left. exact Hin.
    - unfold len, keys_of; sproj. rewrite <- app_length, <- flat_map_app. unfold evicted. rewrite firstn_skipn. reflexivity.
  Qed.

  (* with prompt sweeps one overflow costs at most one partition's worth of entries *)
  Theorem overflow_cost (s : state) k v :
    Inv s -> length (parts s) <= P s ->
    len (set s k v) <= C s + len (sweep (set s k v)).
  Proof.
    intros H Hq. pose proof (Inv_set keqb keqb_spec s k v H) as H'.
    destruct (sweep_removes (set s k v) H') as (_ & Hl & Hc & ->).
    apply Nat.add_le_mono_r.
    pose proof (set_parts_length keqb s k v) as Hsl.
    destruct (set_PC s k v) as [HP HC].
    set (ev := firstn (length (parts (set s k v)) - P (set s k v)) (parts (set s k v))) in *.
    assert (Hev : length ev <= 1) by (rewrite Hl, HP; lia).
    destruct ev as [|[i m] [|? ?]]; simpl in *; try lia.
    rewrite app_nil_r, map_length. rewrite <- HC. apply (Hc i m). left. reflexivity.
  Qed.
End SetSweep.
