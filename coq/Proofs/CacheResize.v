(* Resize: capacity, bound; Clear behaves like a new cache. *)
From Coq Require Import List Arith Bool Lia.
From TC.Lib Require Import ListAux Assoc AssocProofs.
From TC.Model Require Import Cache CacheGhost.
From TC.Proofs Require Import CacheInv CacheViews CacheFifo CacheRun.
Import ListNotations.

Section CacheResize.
  Context {K V : Type}.
  Variable keqb : K -> K -> bool.
  Hypothesis keqb_spec : forall x y, reflect (x = y) (keqb x y).

  Notation state := (@state K V).
  Notation label := (@label K V).
  Notation amap := (@amap K).
  Notation lookup := (lookup keqb).
  Notation set := (set keqb).
  Notation get := (get keqb).
  Notation Inv := (Inv keqb).
  Notation exec := (exec keqb).
  Notation step := (step keqb).
  Notation resize := (resize keqb).
  Notation replay := (replay keqb).
  Ltac sproj := cbn [parts next cur index P C with_parts with_index open_part sweep].

  Lemma replay_part_PC (t : state) (old : amap V) ks :
    P (replay_part keqb t old ks) = P t /\ C (replay_part keqb t old ks) = C t.
  Proof.
    unfold replay_part. sproj.
    revert t. induction ks as [|k r IH]; intros t; simpl; [auto|].
    destruct (IH (match lookup k old with Some v => set t k v | None => t end)) as [H1 H2].
    rewrite H1, H2. destruct (lookup k old); [apply (set_PC keqb)|auto].
  Qed.

  Lemma replay_PC (olds : list (nat * amap V)) : forall (t : state) order,
    P (replay t olds order) = P t /\ C (replay t olds order) = C t.
  Proof.
    induction olds as [|[i old] r IH]; intros t order; simpl; [destruct order; auto|].
    destruct order as [|ks order'];
      match goal with |- context [replay ?x r ?o] => destruct (IH x o) as [H1 H2] end;
      rewrite H1, H2; apply replay_part_PC.
  Qed.

  (* C13: after Resize the capacity is exactly what the configured calculator gave *)
  Theorem resize_capacity (s : state) p c order :
    P (resize s (p, c) order) = p /\ C (resize s (p, c) order) = c.
  Proof.
    unfold Cache.resize. destruct ((p =? P s) && (c =? C s)) eqn:E.
    - apply andb_prop in E. destruct E as [E1 E2]. apply Nat.eqb_eq in E1, E2. auto.
    - destruct (replay_PC (parts s) (clear_with p c) order) as [H1 H2]. rewrite H1, H2. auto.
  Qed.

  Lemma len_replay (olds : list (nat * amap V)) : forall (t : state) order,
    Inv t -> len t <= capacity t -> len (replay t olds order) <= capacity t.
  Proof.
    induction olds as [|[i old] r IH]; intros t order H Hl; simpl; [destruct order; exact Hl|].
    assert (Hstep : forall ks, Inv (replay_part keqb t old ks)
                               /\ len (replay_part keqb t old ks) <= capacity (replay_part keqb t old ks)
                               /\ capacity (replay_part keqb t old ks) = capacity t).
    { intros ks. split; [apply Inv_replay_part; assumption|].
      destruct (replay_part_PC t old ks) as [H1 H2]. unfold capacity at 1 2 3. rewrite H1, H2. split; [|reflexivity].
      unfold replay_part.
      set (t' := fold_left _ ks t).
      assert (Ht' : Inv t' /\ P t' = P t /\ C t' = C t).
      { unfold t'. clear - H keqb_spec. revert t H. induction ks as [|k q IHk]; intros t H; simpl; [auto|].
        destruct (lookup k old) as [v|]; [|apply IHk; exact H].
        destruct (IHk (set t k v) (Inv_set keqb keqb_spec t k v H)) as (A & B & D).
        destruct (set_PC keqb t k v) as [E1 E2]. rewrite <- E1, <- E2. auto. }
      destruct Ht' as (Hi & HP & HC). pose proof (len_after_sweep keqb t' Hi) as Hb.
      unfold capacity in Hb. rewrite HP, HC in Hb. exact Hb. }
    destruct order as [|ks order'].
    - destruct (Hstep (map fst old)) as (A & B & D). rewrite <- D. apply IH; assumption.
    - destruct (Hstep ks) as (A & B & D). rewrite <- D. apply IH; assumption.
  Qed.

  (* C13: Len <= Capacity right after a Resize that changed the geometry *)
  Theorem resize_len (s : state) p c order :
    1 <= p -> 1 <= c -> (p =? P s) && (c =? C s) = false ->
    len (resize s (p, c) order) <= capacity (resize s (p, c) order).
  Proof.
    intros Hp Hc E. destruct (resize_capacity s p c order) as [H1 H2].
    unfold capacity at 1. rewrite H1, H2. unfold Cache.resize. rewrite E.
    change (p * c) with (capacity (@clear_with K V p c)).
    apply len_replay; [apply Inv_clear_with; assumption|]. unfold len. simpl. lia.
  Qed.

  (* ---- Clear leaves a cache that behaves like a new one ---- *)
  Definition E (s1 s2 : state) : Prop :=
    s1 = s2 \/ exists p c, 1 <= p /\ 1 <= c /\ s1 = init p c /\ s2 = clear_with p c.

  Lemma replay_nil_parts (t : state) order : replay t [] order = t.
  Proof. destruct order; reflexivity. Qed.

  Lemma E_step (s1 s2 : state) (l : label) :
    E s1 s2 -> lvalid l -> snd (step s1 l) = snd (step s2 l) /\ E (fst (step s1 l)) (fst (step s2 l)).
  Proof.
    intros [->|(p & c & Hp & Hc & -> & ->)] Hv; [split; [reflexivity|left; reflexivity]|].
    destruct l as [k v|k|k|k| | | | | | |[p' c'] order]; simpl;
      try solve [split; [reflexivity|right; exists p, c; repeat split; auto]].
    - (* Set *) split; [reflexivity|]. left.
      unfold Cache.set, Cache.fresh, room. simpl.
      replace (0 <? c) with true by (symmetry; apply Nat.ltb_lt; lia). simpl. reflexivity.
    - (* Sweep *) split; [reflexivity|]. right. exists p, c.
      split; [exact Hp|]. split; [exact Hc|]. split; [reflexivity|].
      destruct p as [|p]; [lia|]. reflexivity.
    - (* Clear *) split; [reflexivity|]. left. reflexivity.
    - (* Resize *) split; [reflexivity|]. destruct Hv as [Hp' Hc']. unfold Cache.resize. simpl.
      destruct ((p' =? p) && (c' =? c)); [right; exists p, c; auto|]. left.
      assert (Hs : forall ks, replay_part keqb (clear_with p' c') (@nil (K * V)) ks = clear_with p' c').
      { intros ks. unfold replay_part.
        replace (fold_left _ ks (clear_with p' c')) with (@clear_with K V p' c').
        - destruct p' as [|p']; [lia|]. reflexivity.
        - induction ks as [|k r IHk]; simpl; [reflexivity|exact IHk]. }
      destruct order as [|ks order']; rewrite Hs; reflexivity.
  Qed.

  Theorem clear_like_new (h : list label) : forall (s1 s2 : state),
    E s1 s2 -> Forall lvalid h -> run_obs keqb s1 h = run_obs keqb s2 h.
  Proof.
    induction h as [|l t IH]; intros s1 s2 HE Hv; simpl; [reflexivity|].
    inversion Hv; subst. destruct (E_step s1 s2 l HE) as [Ho HE']; [assumption|].
    destruct (step s1 l) as [s1' o1]. destruct (step s2 l) as [s2' o2]. simpl in *. subst o2.
    f_equal. apply IH; assumption.
  Qed.
End CacheResize.
