(* Proofs for Model/Tree.v.  The pointer-style model (find a path, rebuild along it) is first shown equal
   to a direct structural insertion [ins]; the properties are proved on [ins] and transported. *)
From Coq Require Import List Bool Arith Lia Sorted Permutation.
From TC.Model Require Import Tree.
Import ListNotations.

Section TreeProofs.
  Context {A : Type}.
  Variable eqb : A -> A -> bool.
  Hypothesis eqb_spec : forall x y, reflect (x = y) (eqb x y).
  Notation rtree := (rtree A).
  Notation tree := (tree A).

  (* induction principle with the hypothesis for all children *)
  Section Ind.
    Variable P : rtree -> Prop.
    Hypothesis H : forall v cs, Forall P cs -> P (Node v cs).
    Fixpoint rtree_ind' (t : rtree) : P t :=
      match t with
      | Node v cs =>
          H v cs ((fix go (l : list rtree) : Forall P l :=
                     match l with
                     | [] => Forall_nil P
                     | c :: r => Forall_cons c (rtree_ind' c) (go r)
                     end) cs)
      end.
  End Ind.

  Lemma eqb_refl x : eqb x x = true.
  Proof. destruct (eqb_spec x x); congruence. Qed.

  (* ---- direct insertion ---- *)
  Section InsChildren.
    Variable f : rtree -> option rtree.
    Variable new : rtree.
    Fixpoint ins_children (cs : list rtree) : list rtree :=
      match cs with
      | [] => [new]
      | c :: t => match f c with Some c' => c' :: t | None => c :: ins_children t end
      end.
  End InsChildren.

  Fixpoint ins (node : rtree) (anc : list A) {struct node} : option rtree :=
    match node with
    | Node v cs =>
        match anc with
        | [] => None
        | cur :: desc =>
            if eqb v cur then
              match desc with
              | [] => Some node
              | d :: ds => Some (Node v (ins_children (fun c => ins c desc) (chain d ds) cs))
              end
            else None
        end
    end.

  Lemma ins_None node anc : ins node anc = None <-> anc = [] \/ exists a r, anc = a :: r /\ value node <> a.
  Proof.
    destruct node as [v cs]. destruct anc as [|cur desc]; simpl.
    - split; auto.
    - destruct (eqb_spec v cur) as [-> | Hne].
      + split.
        * destruct desc; discriminate.
        * intros [H | [a [r [E N]]]]; [discriminate|]. injection E as <- <-. contradiction.
      + split; [|reflexivity]. intros _. right. eauto.
  Qed.

  Lemma ins_value node anc node' : ins node anc = Some node' -> value node' = value node.
  Proof.
    destruct node as [v cs]. destruct anc as [|cur desc]; simpl; [discriminate|].
    destruct (eqb v cur); [|discriminate]. destruct desc; intros [= <-]; reflexivity.
  Qed.

  (* glml + add_at = ins *)
  Lemma glml_ins node : forall anc,
    match glml eqb node anc with
    | None => ins node anc = None
    | Some (path, miss) =>
        ins node anc = Some (match miss with [] => node | a :: r => add_at path (chain a r) node end)
    end.
  Proof.
    induction node as [v cs IH] using rtree_ind'. intros anc.
    destruct anc as [|cur desc]; simpl; [reflexivity|].
    destruct (eqb v cur); [|reflexivity].
    destruct desc as [|d ds]; [reflexivity|].
    assert (G : match first_match (fun c => glml eqb c (d :: ds)) cs with
                | Some (i, (p, miss)) =>
                    ins_children (fun c => ins c (d :: ds)) (chain d ds) cs =
                      match miss with [] => cs | a :: r => upd_nth i (add_at p (chain a r)) cs end
                | None => ins_children (fun c => ins c (d :: ds)) (chain d ds) cs = cs ++ [chain d ds]
                end).
    { induction cs as [|c t IHt]; simpl; [reflexivity|].
      inversion IH as [|? ? Hc Ht]; subst. specialize (IHt Ht). specialize (Hc (d :: ds)).
      destruct (glml eqb c (d :: ds)) as [[p miss]|] eqn:E.
      - rewrite Hc. destruct miss; reflexivity.
      - rewrite Hc. destruct (first_match (fun c0 => glml eqb c0 (d :: ds)) t) as [[i [p miss]]|].
        + rewrite IHt. destruct miss; reflexivity.
        + rewrite IHt. reflexivity. }
    destruct (first_match (fun c => glml eqb c (d :: ds)) cs) as [[i [p miss]]|].
    - rewrite G. destruct miss; reflexivity.
    - rewrite G. reflexivity.
  Qed.

  Lemma add_chain_ins root anc :
    add_chain eqb (Some root) anc = match ins root anc with Some r' => Some (Some r') | None => None end.
  Proof.
    unfold add_chain. pose proof (glml_ins root anc) as H.
    destruct (glml eqb root anc) as [[p miss]|]; rewrite H; reflexivity.
  Qed.

  (* ---- paths of values from the root downwards ---- *)
  Fixpoint has_path (p : list A) (node : rtree) : Prop :=
    match p with
    | [] => False
    | a :: rest => value node = a /\ (rest = [] \/ exists c, In c (children node) /\ has_path rest c)
    end.

  Definition prefix (p l : list A) : Prop := exists s, l = p ++ s.
  Definition ne_prefix (p l : list A) : Prop := p <> [] /\ prefix p l.

  Lemma prefix_nil l : prefix [] l.
  Proof. exists l. reflexivity. Qed.
  Lemma prefix_cons a p b l : prefix (a :: p) (b :: l) <-> a = b /\ prefix p l.
  Proof.
    split.
    - intros [s E]. injection E as -> ->. split; [reflexivity|exists s; reflexivity].
    - intros [-> [s ->]]. exists s. reflexivity.
  Qed.
  Lemma prefix_of_nil p : prefix p [] -> p = [].
  Proof. intros [s E]. destruct p; [reflexivity|discriminate]. Qed.

  Lemma chain_paths d ds p : has_path p (chain d ds) <-> ne_prefix p (d :: ds).
  Proof.
    revert d p. induction ds as [|b r IH]; intros d p; destruct p as [|a rest]; simpl.
    - split; [tauto|]. intros [N _]. congruence.
    - unfold ne_prefix. rewrite prefix_cons. split.
      + intros [<- [-> | [c [[] _]]]]. split; [discriminate|]. split; [reflexivity|apply prefix_nil].
      + intros [_ [<- P]]. apply prefix_of_nil in P. auto.
    - split; [tauto|]. intros [N _]. congruence.
    - unfold ne_prefix. rewrite prefix_cons. split.
      + intros [<- [-> | [c [[<- | []] Hc]]]].
        * split; [discriminate|]. split; [reflexivity|apply prefix_nil].
        * apply IH in Hc. destruct Hc as [_ Hc]. split; [discriminate|]. split; [reflexivity|exact Hc].
      + intros [_ [<- P]]. split; [reflexivity|]. destruct rest as [|x rest']; [left; reflexivity|].
        right. exists (chain b r). split; [left; reflexivity|]. apply IH. split; [discriminate|exact P].
  Qed.

  Lemma ins_children_paths cs d ds rest :
    Forall (fun c => forall anc c', ins c anc = Some c' ->
                     forall p, has_path p c' <-> has_path p c \/ ne_prefix p anc) cs ->
    ((exists c, In c (ins_children (fun c => ins c (d :: ds)) (chain d ds) cs) /\ has_path rest c)
     <-> (exists c, In c cs /\ has_path rest c) \/ ne_prefix rest (d :: ds)).
  Proof.
    induction cs as [|c t IHt]; simpl; intros F.
    - split.
      + intros [c [[<- | []] H]]. right. apply chain_paths, H.
      + intros [[c [[] _]] | H]. exists (chain d ds). split; [left; reflexivity|apply chain_paths, H].
    - inversion F as [|? ? Hc Ht]; subst. specialize (IHt Ht).
      destruct (ins c (d :: ds)) as [c'|] eqn:E.
      + specialize (Hc _ _ E rest). split.
        * intros [x [[<- | Hx] H]].
          -- apply Hc in H. destruct H; [left; exists c; simpl; auto|right; assumption].
          -- left. exists x. simpl. auto.
        * intros [[x [[<- | Hx] H]] | H].
          -- exists c'. split; [left; reflexivity|]. apply Hc. left. exact H.
          -- exists x. simpl. auto.
          -- exists c'. split; [left; reflexivity|]. apply Hc. right. exact H.
      + split.
        * intros [x [[<- | Hx] H]].
          -- left. exists c. simpl. auto.
          -- destruct (proj1 IHt (ex_intro _ x (conj Hx H))) as [[y [Hy H']] | H'].
             ++ left. exists y. simpl. auto.
             ++ right. exact H'.
        * intros [[x [[<- | Hx] H]] | H].
          -- exists c. simpl. auto.
          -- destruct (proj2 IHt (or_introl (ex_intro _ x (conj Hx H)))) as [y [Hy H']]. exists y. simpl. auto.
          -- destruct (proj2 IHt (or_intror H)) as [y [Hy H']]. exists y. simpl. auto.
  Qed.

  (* after a successful insertion the paths are exactly the old paths plus the non-empty prefixes of the chain *)
  Lemma ins_paths node : forall anc node', ins node anc = Some node' ->
    forall p, has_path p node' <-> has_path p node \/ ne_prefix p anc.
  Proof.
    induction node as [v cs IH] using rtree_ind'. intros anc node' E p.
    destruct anc as [|cur desc]; simpl in E; [discriminate|].
    destruct (eqb_spec v cur) as [-> | Hne]; [|discriminate].
    destruct desc as [|d ds].
    - injection E as <-. split; [auto|]. intros [H | [N P]]; [exact H|].
      destruct p as [|a rest]; [congruence|]. apply prefix_cons in P. destruct P as [-> P].
      apply prefix_of_nil in P. subst. simpl. auto.
    - injection E as <-. destruct p as [|a rest]; simpl.
      + split; [tauto|]. intros [[] | [N _]]. congruence.
      + rewrite (ins_children_paths cs d ds rest IH). unfold ne_prefix at 2. rewrite prefix_cons. split.
        * intros [<- [-> | [H | H]]].
          -- left. auto.
          -- left. auto.
          -- right. split; [discriminate|]. split; [reflexivity|apply H].
        * intros [[<- [-> | H]] | [_ [<- P]]].
          -- auto.
          -- auto.
          -- split; [reflexivity|]. destruct rest as [|x r]; [auto|]. right. right. split; [discriminate|exact P].
  Qed.

  (* ---- siblings with equal values ---- *)
  Inductive nodup_sib : rtree -> Prop :=
  | nds v cs : NoDup (map value cs) -> (forall c, In c cs -> nodup_sib c) -> nodup_sib (Node v cs).

  Lemma chain_nodup d ds : nodup_sib (chain d ds).
  Proof.
    revert d. induction ds as [|b r IH]; intros d; simpl; constructor.
    - constructor.
    - intros c [].
    - repeat constructor. intros [].
    - intros c [<- | []]. apply IH.
  Qed.

  Lemma ins_children_values cs d ds :
    let cs' := ins_children (fun c => ins c (d :: ds)) (chain d ds) cs in
    (map value cs' = map value cs /\ In d (map value cs))
    \/ (map value cs' = map value cs ++ [d] /\ ~ In d (map value cs)).
  Proof.
    induction cs as [|c t IHt]; simpl.
    - right. split; [destruct ds; reflexivity|tauto].
    - destruct (ins c (d :: ds)) as [c'|] eqn:E.
      + left. simpl. rewrite (ins_value _ _ _ E). split; [reflexivity|].
        left. destruct c as [v cs0]. simpl in E. destruct (eqb_spec v d); [assumption|discriminate].
      + assert (value c <> d).
        { apply ins_None in E. destruct E as [E | [a [r [E N]]]]; [discriminate|]. injection E as <- <-. exact N. }
        simpl. destruct IHt as [[E1 E2] | [E1 E2]].
        * left. split; [f_equal; exact E1|right; exact E2].
        * right. split; [f_equal; exact E1|]. intros [H' | H']; contradiction.
  Qed.

  Lemma NoDup_snoc {X} (l : list X) x : ~ In x l -> (NoDup (l ++ [x]) <-> NoDup l).
  Proof.
    intros N. split.
    - intros H. rewrite <- (app_nil_r l). apply NoDup_remove_1 with (a := x). exact H.
    - intros H. apply (Permutation_NoDup (Permutation_cons_append l x)). constructor; assumption.
  Qed.

  Lemma ins_children_nodup cs d ds :
    Forall (fun c => forall anc c', ins c anc = Some c' -> (nodup_sib c' <-> nodup_sib c)) cs ->
    let cs' := ins_children (fun c => ins c (d :: ds)) (chain d ds) cs in
    ((forall c, In c cs' -> nodup_sib c) <-> (forall c, In c cs -> nodup_sib c)).
  Proof.
    induction cs as [|c t IHt]; simpl; intros F.
    - split; [intros _ c []|]. intros _ c [<- | []]. apply chain_nodup.
    - inversion F as [|? ? Hc Ht]; subst. specialize (IHt Ht).
      destruct (ins c (d :: ds)) as [c'|] eqn:E.
      + specialize (Hc _ _ E). split; intros H x [<- | Hx]; auto;
          try (apply Hc; apply H; left; reflexivity); try (apply H; right; exact Hx).
      + simpl in IHt. split; intros H x [<- | Hx].
        * apply H. left; reflexivity.
        * apply (proj1 IHt); [intros y Hy; apply H; right; exact Hy|exact Hx].
        * apply H. left; reflexivity.
        * apply (proj2 IHt); [intros y Hy; apply H; right; exact Hy|exact Hx].
  Qed.

  (* insertion neither creates nor removes equal-valued siblings *)
  Lemma ins_nodup node : forall anc node', ins node anc = Some node' -> (nodup_sib node' <-> nodup_sib node).
  Proof.
    induction node as [v cs IH] using rtree_ind'. intros anc node' E.
    destruct anc as [|cur desc]; simpl in E; [discriminate|].
    destruct (eqb v cur); [|discriminate].
    destruct desc as [|d ds]; injection E as <-; [tauto|].
    pose proof (ins_children_values cs d ds) as Hv. pose proof (ins_children_nodup cs d ds IH) as Hn.
    simpl in Hv, Hn.
    split; intros H; inversion H as [? ? H1 H2]; subst; constructor.
    - destruct Hv as [[E1 _] | [E1 N]]; rewrite E1 in H1; [exact H1|]. apply (NoDup_snoc _ _ N), H1.
    - apply Hn, H2.
    - destruct Hv as [[E1 _] | [E1 N]]; rewrite E1; [exact H1|]. apply (NoDup_snoc _ _ N), H1.
    - apply Hn, H2.
  Qed.

  (* ---- node count ---- *)
  Fixpoint size (node : rtree) : nat :=
    match node with Node _ cs => S (fold_right (fun c n => size c + n) 0 cs) end.

  Lemma walk_length node : forall l, length (walk_from l node) = size node.
  Proof.
    induction node as [v cs IH] using rtree_ind'. intros l. simpl. f_equal.
    induction cs as [|c t IHt]; simpl; [reflexivity|].
    inversion IH; subst. rewrite app_length. rewrite H1. rewrite IHt by assumption. reflexivity.
  Qed.
End TreeProofs.
