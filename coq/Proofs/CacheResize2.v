(* Resize keeps the newest data: all entries survive when they fit, otherwise the survivors are a
   suffix of the replay order (oldest old-partition first). *)
From Coq Require Import List Arith Bool Lia Permutation.
From TC.Lib Require Import ListAux Assoc AssocProofs.
From TC.Model Require Import Cache CacheGhost.
From TC.Proofs Require Import CacheInv CacheViews CacheFifo CacheRun CacheResize.
Import ListNotations.

Section CacheResize2.
  Context {K V : Type}.
  Variable keqb : K -> K -> bool.
  Hypothesis keqb_spec : forall x y, reflect (x = y) (keqb x y).

  Notation state := (@state K V).
  Notation ghost := (@ghost K).
  Notation amap := (@amap K).
  Notation lookup := (lookup keqb).
  Notation upsert := (upsert keqb).
  Notation set := (set keqb).
  Notation get := (get keqb).
  Notation Inv := (Inv keqb).
  Notation GInv := (GInv keqb).
  Notation gset := (gset keqb).
  Notation Both := (Both keqb).
  Notation greplay := (greplay keqb).
  Notation greplay_part := (greplay_part keqb).
  Ltac sproj := cbn [parts next cur index P C with_parts with_index open_part sweep
                     born clock n_ins ins_cur tick ghost0 fst snd].

  Definition before (a b : K) (l : list K) : Prop := exists l1 l2, l = l1 ++ a :: l2 /\ In b l2.

  Record RQ (sg : state * ghost) (done : list K) : Prop := {
    rq_idx : forall k, lookup k (index (fst sg)) <> None -> In k done;
    rq_born : forall k, In k done -> lookup k (born (snd sg)) <> None;
    rq_ord : forall a b, before a b done ->
                         exists ta tb, lookup a (born (snd sg)) = Some ta /\ lookup b (born (snd sg)) = Some tb /\ ta < tb;
    rq_cnt : n_ins (snd sg) <= length done
  }.

  Lemma index_set (s : state) k v k' :
    Inv s -> lookup k' (index (set s k v)) <> None -> k' = k \/ lookup k' (index s) <> None.
  Proof.
    intros H. destruct (is_fresh keqb s k) eqn:Ef.
    - rewrite (set_fresh keqb s k v Ef).
      destruct (fresh_shape keqb s k v H) as (m & Hm & Hlt & ->). sproj.
      destruct (keqb_spec k' k) as [->|Hne]; [auto|].
      rewrite lookup_upsert_neq by assumption. destruct (room s); auto.
    - unfold CacheGhost.is_fresh in Ef. unfold Cache.set.
      destruct (lookup k (index s)) as [id|]; [|discriminate].
      destruct (peek id (parts s)); [|discriminate]. sproj. auto.
  Qed.

  Lemma snoc_split (done : list K) k l1 a l2 :
    done ++ [k] = l1 ++ a :: l2 ->
    (l2 = [] /\ a = k /\ l1 = done) \/ (exists l2', l2 = l2' ++ [k] /\ done = l1 ++ a :: l2').
  Proof.
    intros E. destruct (@exists_last _ (a :: l2)) as (l' & x & Hl); [discriminate|].
    destruct l2 as [|y l2].
    - left. change (l1 ++ [a]) with (l1 ++ [a]) in E. apply app_inj_tail in E. destruct E; auto.
    - right. destruct (@exists_last _ (y :: l2)) as (l2' & z & Hl2); [discriminate|].
      rewrite Hl2 in E. change (l1 ++ a :: l2' ++ [z]) with (l1 ++ (a :: l2') ++ [z]) in E.
      rewrite app_assoc in E. apply app_inj_tail in E. destruct E as [E1 E2]. subst z.
      exists l2'. split; [exact Hl2|exact E1].
  Qed.

  Lemma RQ_set (s : state) (g : ghost) done k v :
    Both (s, g) -> RQ (s, g) done -> ~ In k done -> RQ (set s k v, gset s g k) (done ++ [k]).
  Proof.
    intros [H G] R Hnk. simpl in H, G.
    assert (Hnone : lookup k (index s) = None).
    { destruct (lookup k (index s)) eqn:E; [|reflexivity]. exfalso. apply Hnk. apply (rq_idx _ _ R). simpl. congruence. }
    assert (Ef : is_fresh keqb s k = true) by (unfold CacheGhost.is_fresh; rewrite Hnone; reflexivity).
    unfold CacheGhost.gset. rewrite Ef.
    constructor; sproj.
    - intros k' Hl. apply in_or_app. apply index_set in Hl; [|exact H].
      destruct Hl as [->|Hl]; [right; left; reflexivity|left; apply (rq_idx _ _ R); exact Hl].
    - intros k' Hin. apply in_app_or in Hin. destruct Hin as [Hin|[<-|[]]].
      + assert (k' <> k) by (intros ->; contradiction).
        rewrite lookup_upsert_neq by assumption. apply (rq_born _ _ R). exact Hin.
      + rewrite lookup_upsert_eq by assumption. discriminate.
    - intros a b (l1 & l2 & E & Hb). apply snoc_split in E.
      destruct E as [(-> & _ & _)|(l2' & -> & Hd)]; [destruct Hb|].
      assert (Ha : In a done) by (rewrite Hd; apply in_or_app; right; left; reflexivity).
      assert (Hak : a <> k) by (intros ->; contradiction).
      apply in_app_or in Hb. destruct Hb as [Hb|[<-|[]]].
      + assert (Hbd : In b done) by (rewrite Hd; apply in_or_app; right; right; exact Hb).
        assert (Hbk : b <> k) by (intros ->; contradiction).
        rewrite !lookup_upsert_neq by assumption. apply (rq_ord _ _ R). exists l1, l2'. auto.
      + rewrite lookup_upsert_neq by assumption. rewrite lookup_upsert_eq by assumption.
        pose proof (rq_born _ _ R a Ha) as Hba. simpl in Hba.
        destruct (lookup a (born g)) as [ta|] eqn:Eta; [|congruence].
        exists ta, (clock g). split; [reflexivity|]. split; [reflexivity|]. apply (g_clk keqb s g G a ta Eta).
    - rewrite app_length. simpl. pose proof (rq_cnt _ _ R). simpl in *. lia.
  Qed.

  Lemma RQ_sweep (s : state) (g : ghost) done : RQ (s, g) done -> RQ (sweep s, tick g) done.
  Proof. intros R. constructor; sproj; apply R. Qed.

  Lemma RQ_replay_part (sg : state * ghost) (old : amap V) ks done :
    Both sg -> RQ sg done -> NoDup (done ++ ks) -> (forall k, In k ks -> lookup k old <> None) ->
    Both (greplay_part sg old ks) /\ RQ (greplay_part sg old ks) (done ++ ks).
  Proof.
    intros HB R Hnd Hold. unfold CacheGhost.greplay_part.
    assert (Hf : forall ks sg done, Both sg -> RQ sg done -> NoDup (done ++ ks) ->
               (forall k, In k ks -> lookup k old <> None) ->
               let sg' := fold_left (fun '(s, g) k => match lookup k old with
                                                      | Some v => (set s k v, gset s g k)
                                                      | None => (s, g) end) ks sg in
               Both sg' /\ RQ sg' (done ++ ks)).
    { clear ks sg done HB R Hnd Hold. induction ks as [|k t IH]; intros [s g] done HB R Hnd Hold; simpl.
      - rewrite app_nil_r. auto.
      - destruct (lookup k old) as [v|] eqn:E; [|exfalso; apply (Hold k); [left; reflexivity|exact E]].
        replace (done ++ k :: t) with ((done ++ [k]) ++ t) in * by (rewrite <- app_assoc; reflexivity).
        apply IH.
        + apply Both_set; assumption.
        + apply RQ_set; [assumption..|]. intros Hin.
          rewrite <- app_assoc in Hnd. apply NoDup_remove_2 in Hnd. apply Hnd. apply in_or_app. left. exact Hin.
        + exact Hnd.
        + intros k' Hk'. apply Hold. right. exact Hk'. }
    destruct (Hf ks sg done HB R Hnd Hold) as [HB' R'].
    destruct (fold_left _ ks sg) as [s1 g1]. split; [apply Both_sweep; exact HB'|apply RQ_sweep; exact R'].
  Qed.

  (* the order oracle: for each old partition a permutation of its keys *)
  Definition order_ok (olds : list (nat * amap V)) (order : list (list K)) : Prop :=
    Forall2 (fun (p : nat * amap V) ks => Permutation ks (map fst (snd p))) olds order.

  Lemma RQ_replay (olds : list (nat * amap V)) : forall (sg : state * ghost) order done,
    Both sg -> RQ sg done -> order_ok olds order ->
    NoDup (done ++ concat order) ->
    (forall i old, In (i, old) olds -> NoDup (map fst old)) ->
    Both (greplay sg olds order) /\ RQ (greplay sg olds order) (done ++ concat order).
  Proof.
    induction olds as [|[i old] r IH]; intros sg order done HB R Hok Hnd Hkn.
    - inversion Hok; subst. simpl. rewrite app_nil_r. auto.
    - inversion Hok as [|? ks ? order' Hp Hok']; subst. simpl in Hp. cbn [CacheGhost.greplay concat] in *.
      rewrite app_assoc in *.
      assert (Hnd1 : NoDup (done ++ ks)).
      { eapply NoDup_app_remove_r. exact Hnd. }
      destruct (RQ_replay_part sg old ks done HB R Hnd1) as [HB' R'].
      { intros k Hk. apply (Permutation_in _ Hp) in Hk.
        destruct (lookup k old) eqn:E; [discriminate|]. apply lookup_None in E; [contradiction|assumption]. }
      apply IH; auto. intros i0 old0 Hin. apply (Hkn i0 old0). right. exact Hin.
  Qed.

  Lemma order_ok_perm (olds : list (nat * amap V)) order :
    order_ok olds order -> Permutation (concat order) (flat_map (fun p => map fst (snd p)) olds).
  Proof.
    induction 1 as [|p ks olds' order' Hp _ IH]; simpl; [constructor|].
    apply Permutation_app; assumption.
  Qed.

  Lemma RQ_nil (t : state) (g : ghost) : index t = [] -> n_ins g = 0 -> RQ (t, g) [].
  Proof.
    intros Hi Hn. constructor; sproj.
    - rewrite Hi. simpl. congruence.
    - intros k [].
    - intros a b (l1 & l2 & E & _). destruct l1; discriminate.
    - rewrite Hn. simpl. lia.
  Qed.

  Theorem resize_keeps_newest (s : state) p c order :
    Inv s -> 1 <= p -> 1 <= c -> (p =? P s) && (c =? C s) = false -> order_ok (parts s) order ->
    let r := resize keqb s (p, c) order in
    (len s <= p * c -> forall k v, get s k = Some v -> get r k = Some v)
    /\ (forall a b, before a b (concat order) -> get r a <> None -> get r b <> None).
  Proof.
    intros H Hp Hc E Hok r.
    assert (Hr : r = fst (greplay (clear_with p c, ghost0 0) (parts s) order)).
    { unfold r, Cache.resize. rewrite E. rewrite (greplay_fst keqb). reflexivity. }
    pose proof (order_ok_perm _ _ Hok) as Hperm. fold (keys_of s) in Hperm.
    assert (Hnd : NoDup ([] ++ concat order)).
    { simpl. apply (Permutation_NoDup (Permutation_sym Hperm)). apply (keys_nodup keqb); assumption. }
    destruct (RQ_replay (parts s) (clear_with p c, ghost0 0) order []) as [HB R]; auto.
    - split; simpl; [apply Inv_clear_with|apply GInv_clear_with]; assumption.
    - apply RQ_nil; reflexivity.
    - intros i old Hin. eapply (inv_nd keqb s H). apply In_peek; [apply (Inv_nodup_ids keqb s H)|exact Hin].
    - simpl in R. destruct (greplay (clear_with p c, ghost0 0) (parts s) order) as [r' g] eqn:Eg.
      simpl in Hr. subst r'. destruct HB as [Hi G]. simpl in Hi, G.
      destruct (resize_capacity keqb s p c order) as [HP HC]. fold r in HP, HC.
      split.
      + intros Hfit k v Hg.
        assert (Hin : In k (concat order)).
        { apply (Permutation_in _ (Permutation_sym Hperm)).
          apply (proj2 (keys_contains keqb keqb_spec s k H)).
          unfold contains. rewrite Hg. reflexivity. }
        pose proof (rq_born _ _ R k Hin) as Hb. simpl in Hb.
        destruct (lookup k (born g)) as [t|] eqn:Eb; [|congruence].
        assert (Hn : n_ins g <= P r * C r).
        { rewrite HP, HC. pose proof (rq_cnt _ _ R) as Hcnt. simpl in Hcnt.
          rewrite (Permutation_length Hperm) in Hcnt. unfold len in Hfit. lia. }
        pose proof (not_early keqb keqb_spec r g Hi G Hn k t Eb) as Hpres.
        destruct (get r k) as [v'|] eqn:Er; [|congruence].
        unfold r in Er. apply get_resize_sub in Er; try assumption. congruence.
      + intros a b Hbef Hga. destruct (rq_ord _ _ R a b Hbef) as (ta & tb & Ha & Hb & Hlt). simpl in Ha, Hb.
        exact (fifo keqb keqb_spec r g a b ta tb Hi G Ha Hb Hlt Hga).
  Qed.

  (* partition granularity: whatever the oracle order, every key of an older old-partition precedes
     every key of a newer one *)
  Lemma Forall2_In_r {A B} (R : A -> B -> Prop) l1 l2 x : Forall2 R l1 l2 -> In x l1 -> exists y, In y l2 /\ R x y.
  Proof.
    induction 1 as [|a b l1' l2' Hab _ IH]; intros Hin; [destruct Hin|].
    destruct Hin as [<-|Hin]; [exists b; split; [left; reflexivity|exact Hab]|].
    destruct (IH Hin) as (y & Hy & Hr). exists y. split; [right; exact Hy|exact Hr].
  Qed.

  Theorem older_partition_first (olds o1 o2 : list (nat * amap V)) order i oi j oj a b :
    order_ok olds order -> olds = o1 ++ (i, oi) :: o2 -> In (j, oj) o2 ->
    In a (map fst oi) -> In b (map fst oj) -> before a b (concat order).
  Proof.
    intros Hok -> Hj Ha Hb. unfold order_ok in Hok.
    apply Forall2_app_inv_l in Hok. destruct Hok as (r1 & r2 & _ & H2 & ->).
    inversion H2 as [|? ks ? r2' Hp Hrest]; subst. simpl in Hp.
    destruct (Forall2_In_r _ _ _ _ Hrest Hj) as (ks' & Hks' & Hp'). simpl in Hp'.
    apply (Permutation_in _ (Permutation_sym Hp)) in Ha. apply in_split in Ha. destruct Ha as (k1 & k2 & ->).
    exists (concat r1 ++ k1), (k2 ++ concat r2'). split.
    - rewrite concat_app. simpl. rewrite <- !app_assoc. reflexivity.
    - apply in_or_app. right. apply in_concat. exists ks'. split; [exact Hks'|].
      apply (Permutation_in _ (Permutation_sym Hp')). exact Hb.
  Qed.

  (* ---- the decidable check used by the correspondence run implies [order_ok] ---- *)
  Notation count_in := (count_in keqb).

  Lemma count_pos k l : 1 <= count_in k l <-> In k l.
  Proof.
    induction l as [|x t IH]; simpl; [split; [lia|tauto]|].
    destruct (keqb_spec k x) as [->|Hne]; [split; [auto|lia]|].
    rewrite <- IH. simpl. split; [auto|]. intros [->|Hc]; [congruence|exact Hc].
  Qed.

  Lemma count_nodup l : NoDup l -> forall k, count_in k l <= 1.
  Proof.
    induction 1 as [|x t Hn _ IH]; intros k; simpl; [lia|].
    destruct (keqb_spec k x) as [->|Hne]; [|apply IH].
    assert (count_in x t = 0); [|lia].
    destruct (count_in x t) eqn:Ec; [reflexivity|]. exfalso. apply Hn. apply count_pos. lia.
  Qed.

  Lemma nodup_count l : (forall k, In k l -> count_in k l <= 1) -> NoDup l.
  Proof.
    induction l as [|x t IH]; intros Hc; [constructor|]. constructor.
    - intros Hin. specialize (Hc x (or_introl eq_refl)). simpl in Hc.
      destruct (keqb_spec x x); [|congruence]. apply count_pos in Hin. lia.
    - apply IH. intros k Hk. specialize (Hc k (or_intror Hk)). simpl in Hc. destruct (keqb k x); lia.
  Qed.

  Lemma same_keys_perm a b : NoDup b -> same_keys keqb a b = true -> Permutation a b.
  Proof.
    intros Hb Hs. unfold same_keys in Hs. apply andb_prop in Hs. destruct Hs as [Hl Hall].
    apply Nat.eqb_eq in Hl. rewrite forallb_forall in Hall.
    assert (Hca : forall k, In k a -> count_in k a <= 1 /\ In k b).
    { intros k Hk. specialize (Hall k Hk). apply Nat.eqb_eq in Hall.
      pose proof (count_nodup b Hb k). pose proof (proj2 (count_pos k a) Hk).
      split; [lia|]. apply count_pos. lia. }
    assert (Hna : NoDup a) by (apply nodup_count; intros k Hk; apply Hca; exact Hk).
    apply NoDup_Permutation; [exact Hna|exact Hb|].
    intros k. split; [intros Hk; apply Hca; exact Hk|].
    apply (NoDup_length_incl Hna); [lia|]. intros x Hx. apply Hca. exact Hx.
  Qed.

  Theorem valid_order_sound (olds : list (nat * amap V)) : forall order,
    (forall i old, In (i, old) olds -> NoDup (map fst old)) ->
    valid_order keqb olds order = true -> order_ok olds order.
  Proof.
    induction olds as [|[i old] r IH]; intros order Hnd Hv; destruct order as [|ks order']; simpl in Hv;
      try discriminate; [constructor|].
    apply andb_prop in Hv. destruct Hv as [Hs Hv]. constructor.
    - simpl. apply same_keys_perm; [apply (Hnd i old); left; reflexivity|exact Hs].
    - apply IH; [|exact Hv]. intros i0 old0 Hin. apply (Hnd i0 old0). right. exact Hin.
  Qed.
End CacheResize2.
