(* Liveness side of C04 / C09 for the fixed work-queue model: the token/buffer invariants I1 and I2, the
   characterisation of internally-quiescent states (stuck-freedom, work conservation), the termination measure. *)
From Coq Require Import List Arith ZArith Bool Lia Permutation.
From TC.Lib Require Import GoHeap GoHeapProofs.
From TC.Model Require Import WQ.
From TC.Proofs Require Import WQHeap WQInv WQCons.
Import ListNotations.

(* the queue is running: neither Stop nor Break has been called, nothing is closed, nothing has panicked *)
Definition live (s : state) : Prop :=
  cancelled s = false /\ stopped s = false /\ predrain s = true /\ sem_closed s = false /\ wch_closed s = false /\
  err_closed s = false /\ work_closed s = false /\ wexited s = 0 /\ mon s <> MExited /\ dropped s = [].

Definition no_stop (l : label) : bool := match l with Stop | Break => false | _ => true end.

Lemma live_init W L : live (init W L).
Proof. unfold live. cbn. repeat split; try reflexivity. discriminate. Qed.

Lemma live_step s l s' : live s -> no_stop l = true -> step fixed s l = Some s' -> live s'.
Proof.
  intros (H1 & H2 & H3 & H4 & H5 & H6 & H7 & H8 & H9 & H10) Hl H. unfold live, predrain in *.
  step_inv H; unset; try discriminate Hl;
    repeat match goal with
      | D : decide _ _ _ = Some _ |- _ => apply decide_frame in D; destruct D as (? & ->); unset
      | E : disp s = _ |- _ => rewrite E in *; clear E
      end;
    try (repeat split; (assumption || reflexivity || discriminate || congruence)).
  all: try congruence.
  all: repeat split; try assumption; try reflexivity;
       repeat match goal with |- context[match ?l with [] => _ | _ :: _ => _ end] => destruct l end; discriminate.
Qed.

(* ---- I1 / I2 ---- *)
Definition busy (s : state) : nat := length (running s) + length (senderr s) + length (deleting s) + posting s.
Definition popped (s : state) : nat := match disp s with PhFullSend _ _ | PhTokSend _ => 1 | _ => 0 end.
Definition fw (s : state) : bool := match disp s with PhFullWait _ | PhFullSend _ _ => true | _ => false end.
(* F = items and tokens in flight between dispatcher and workers *)
Definition F (s : state) : nat := length (buffer s) + busy s + tokens s + popped s.

Definition tok_inv (s : state) : Prop :=
  panicked s = false -> F s <= 3 * sW s /\ ((0 < length (heap s) \/ fw s = true) -> sW s <= F s).

Lemma tok_init W L : tok_inv (init W L).
Proof. unfold tok_inv, F, busy, popped, fw. cbn. intros _. split; [lia|]. intros [H|H]; [lia|discriminate]. Qed.

Lemma deq_heap_len h (i : item) l l0 :
  (if (0 <=? ipos i)%Z
   then match h_remove wlt set_pos h (Z.to_nat (ipos i)) with
        | Some (x, h') => Some ([x], h')
        | None => None
        end
   else Some ([], h)) = Some (l, l0) -> length l0 <= length h.
Proof.
  destruct (0 <=? ipos i)%Z.
  - destruct (h_remove wlt set_pos h (Z.to_nat (ipos i))) as [[x h']|] eqn:Er; [|discriminate].
    intros H. injection H as <- <-. apply w_remove_perm in Er. apply Permutation_length in Er.
    cbn in Er. rewrite !map_length in Er. lia.
  - intros H. injection H as <- <-. lia.
Qed.

Lemma no_handoff_spec s : no_handoff s = true -> 0 < length (heap s) \/ sW s <= length (buffer s).
Proof.
  unfold no_handoff, buffer_room. intros B. apply orb_true_iff in B. rewrite !negb_true_iff, Nat.ltb_ge in B.
  destruct B as [B|B]; [left|right; exact B]. destruct (heap s); [discriminate|cbn; lia].
Qed.

Lemma tok_step s l s' : winv s -> tok_inv s -> step fixed s l = Some s' -> tok_inv s'.
Proof.
  intros Hw Hi H. pose proof (winv_step _ _ _ Hw H) as Hw'.
  destruct Hw as (W1 & W2 & W3). destruct Hw' as (W1' & W2' & W3').
  assert (Hnp : panicked s = false).
  { unfold step in H. destruct (panicked s); [discriminate|reflexivity]. }
  destruct (Hi Hnp) as [I1 I2]. clear Hi.
  unfold tok_inv, F, busy, popped, fw in *.
  step_inv H; unset; intros Hnp'; try discriminate Hnp';
    repeat match goal with
      | T : take_item _ _ = Some _ |- _ => apply take_item_spec in T; destruct T as (_ & _ & _ & T & _)
      | T : take_err _ _ = Some _ |- _ => apply take_err_spec in T; destruct T as (_ & _ & _ & T & _)
      | D : decide _ _ _ = Some _ |- _ => apply decide_cnt in D; destruct D as (? & _ & -> & D & _); unset
      | B : buffer_room _ = true |- _ => unfold buffer_room in B; apply Nat.ltb_lt in B
      | B : no_handoff _ && _ = true |- _ => apply andb_true_iff in B; destruct B as [B ?]
      | B : no_handoff _ = true |- _ => apply no_handoff_spec in B
      | B : (_ <? _) = true |- _ => apply Nat.ltb_lt in B
      end;
    repeat match goal with
      | E : disp s = _ |- _ => rewrite E in *; clear E
      | E : buffer s = _ |- _ => rewrite E in *; clear E
      | E : idle s = _ |- _ => rewrite E in *; clear E
      | E : posting s = _ |- _ => rewrite E in *; clear E
      | E : tokens s = _ |- _ => rewrite E in *; clear E
      | E : heap s = _ |- _ => rewrite E in *; clear E
      | B : _ \/ _ |- _ => destruct B as [B|B]
      end;
    rewrite ?app_length, ?(h_push_length wlt set_pos) in *; cbn [length] in *;
    try (split; [lia|intros [Hq|Hq]; try discriminate Hq; try lia; apply I2; auto; lia]).
  all: try (destruct (disp s);
            (split; [lia|intros [Hq|Hq]; try discriminate Hq; try lia;
                     (etransitivity; [apply I2; auto; lia|lia])]); fail).
  - (* Dequeue *)
    assert (E : l1 = fst (adjust fixed vals l0)) by (rewrite Heqp1; reflexivity).
    assert (Hl : length l1 <= length (heap s)).
    { rewrite E, adjust_length. eapply deq_heap_len; eauto. }
    split; [exact I1|]. intros [Hq|Hq]; apply I2; [left; lia|right; exact Hq].
  - (* SetPrio *)
    match goal with E : adjust fixed vals ?h = (l, _) |- _ =>
      assert (E' : l = fst (adjust fixed vals h)) by (rewrite E; reflexivity) end.
    assert (Hl : length l = length (heap s)).
    { rewrite E', adjust_length, (h_fix_length wlt set_pos), map_length. reflexivity. }
    split; [exact I1|]. intros [Hq|Hq]; apply I2; [left; lia|right; exact Hq].
Qed.

Theorem tok_reach s : reach fixed s -> tok_inv s.
Proof.
  induction 1 as [|s l s' R IH H]; [apply tok_init|].
  eapply tok_step; eauto. apply winv_reach, R.
Qed.

Lemma live_reach W L ls s :
  forallb no_stop ls = true -> run fixed (init W L) ls = Some s -> live s.
Proof.
  intros Hl. generalize (live_init W L). generalize (init W L). induction ls as [|l t IH]; simpl; intros s0 H0 H.
  - injection H as <-. exact H0.
  - apply andb_true_iff in Hl. destruct Hl as [Hl Ht].
    destruct (step fixed s0 l) as [s1|] eqn:E; [|discriminate].
    eapply IH; [exact Ht| |exact H]. eapply live_step; eauto.
Qed.

(* ---- internally-quiescent states ---- *)
Section Quiescent.
  Variable s : state.
  Hypothesis Hnp : panicked s = false.
  Hypothesis Hq : quiescent fixed s.

  Ltac use l := let H := fresh "Hs" in
    pose proof (Hq l eq_refl) as H; unfold step in H; rewrite Hnp in H.

  Lemma q_idle : disp s = PhIdle -> producers s = [] /\ tokens s = 0.
  Proof.
    intros Hd. split.
    - destruct (producers s) as [|x t] eqn:Ep; [reflexivity|exfalso].
      use (DRecv (iid x)). rewrite Hd, Ep in Hs. cbn in Hs. rewrite Nat.eqb_refl in Hs. discriminate.
    - destruct (tokens s) as [|n] eqn:Et; [reflexivity|exfalso].
      use (DTok []). rewrite Hd, Et in Hs. destruct (heap s); [discriminate|].
      destruct (decide fixed [] (set_tokens n s)) as [[x s1]|]; discriminate.
  Qed.

  Lemma q_got w : disp s <> PhGot w.
  Proof.
    intros Hd. use DHandoff. use DPush. use DFull. rewrite Hd in *.
    destruct (no_handoff s); cbn [negb andb] in *; [|discriminate].
    destruct (length (heap s) <? sL s); cbn [negb andb] in *; discriminate.
  Qed.

  Lemma q_fullwait w : disp s = PhFullWait w -> tokens s = 0.
  Proof.
    intros Hd. destruct (tokens s) as [|n] eqn:Et; [reflexivity|exfalso].
    use (DFullTok []). rewrite Hd, Et in Hs.
    destruct (decide fixed [] (set_tokens n s)) as [[x s1]|]; discriminate.
  Qed.

  Lemma q_send : popped s = 1 -> sW s <= length (buffer s).
  Proof.
    unfold popped. intros Hp. destruct (disp s) eqn:Hd; try discriminate.
    - use DFullSend. rewrite Hd in Hs. unfold buffer_room in Hs.
      destruct (Nat.ltb_spec (length (buffer s)) (sW s)); [discriminate|assumption].
    - use DTokSend. rewrite Hd in Hs. unfold buffer_room in Hs.
      destruct (Nat.ltb_spec (length (buffer s)) (sW s)); [discriminate|assumption].
  Qed.

  Lemma q_take : idle s = 0 \/ buffer s = [].
  Proof.
    use WTake. destruct (idle s); [left; reflexivity|]. destruct (buffer s); [right; reflexivity|discriminate].
  Qed.

  Lemma q_deleting : deleting s = [].
  Proof.
    destruct (deleting s) as [|x t] eqn:Ed; [reflexivity|exfalso].
    use (WDelete (iid x)). rewrite Ed in Hs. cbn in Hs. rewrite Nat.eqb_refl in Hs. discriminate.
  Qed.

  Lemma q_post : sem_closed s = false -> posting s = 0 \/ sW s <= tokens s.
  Proof.
    intros Hc. use WPost. destruct (posting s); [left; reflexivity|]. rewrite Hc in Hs.
    destruct (Nat.ltb_spec (tokens s) (sW s)); [discriminate|right; assumption].
  Qed.

  Lemma q_senderr : err_closed s = false -> senderr s = [] \/ mon s <> MIdle.
  Proof.
    intros Hc. destruct (senderr s) as [|[x e] t] eqn:Ee; [left; reflexivity|right].
    use (WSendErr (iid x)). rewrite Ee in Hs. cbn in Hs. rewrite Nat.eqb_refl, Hc in Hs.
    intros Hm. rewrite Hm in Hs. discriminate.
  Qed.
End Quiescent.

(* Stuck-freedom: a reachable, running, internally-quiescent state in which no work function is executing and no
   error waits for the monitor has nothing left to do: no blocked producer, nothing in the dispatcher's hand, the
   heap and the worker channel empty, every worker idle. *)
Theorem stuck_free s :
  reach fixed s -> live s -> panicked s = false -> 1 <= sW s -> quiescent fixed s ->
  running s = [] -> senderr s = [] ->
  producers s = [] /\ disp s = PhIdle /\ heap s = [] /\ buffer s = [] /\ deleting s = [] /\
  posting s = 0 /\ tokens s = 0 /\ idle s = sW s.
Proof.
  intros R Hl Hnp HW Hq Hr He.
  destruct Hl as (_ & _ & Hpre & Hsem & _ & _ & _ & Hwx & _).
  destruct (winv_reach s R) as (W1 & W2 & W3). destruct (tok_reach s R Hnp) as [I1 I2].
  pose proof (q_deleting s Hnp Hq) as Hd.
  unfold F, busy in *. rewrite Hr, He, Hd in *. cbn [length] in *.
  (* posting = 0 *)
  assert (Hp : posting s = 0).
  { destruct (q_post s Hnp Hq Hsem) as [Hp|Hp]; [exact Hp|].
    assert (Ht : tokens s = sW s) by lia.
    destruct (disp s) eqn:Ed; unfold predrain in Hpre; rewrite Ed in Hpre; try discriminate Hpre.
    - destruct (q_idle s Hnp Hq Ed). lia.
    - exfalso. eapply q_got; eauto.
    - pose proof (q_fullwait s Hnp Hq w Ed). lia.
    - assert (Hpp : popped s = 1) by (unfold popped; rewrite Ed; reflexivity).
      pose proof (q_send s Hnp Hq Hpp) as Hb. rewrite Hpp in I1.
      destruct (q_take s Hnp Hq) as [Hi|Hb0]; [lia|rewrite Hb0 in Hb; cbn in Hb; lia].
    - assert (Hpp : popped s = 1) by (unfold popped; rewrite Ed; reflexivity).
      pose proof (q_send s Hnp Hq Hpp) as Hb. rewrite Hpp in I1.
      destruct (q_take s Hnp Hq) as [Hi|Hb0]; [lia|rewrite Hb0 in Hb; cbn in Hb; lia]. }
  rewrite Hp in *.
  assert (Hi : idle s = sW s) by lia.
  assert (Hb : buffer s = []) by (destruct (q_take s Hnp Hq) as [H0|H0]; [lia|exact H0]).
  rewrite Hb in *. cbn [length] in *.
  destruct (disp s) eqn:Ed; unfold predrain in Hpre; rewrite Ed in Hpre; try discriminate Hpre.
  - destruct (q_idle s Hnp Hq Ed) as [Hpr Ht]. unfold popped, fw in *. rewrite Ed in *. rewrite Ht in *.
    assert (Hh : heap s = []).
    { destruct (heap s) as [|x t] eqn:Eh; [reflexivity|exfalso]. cbn in I2. assert (sW s <= 0) by (apply I2; left; lia). lia. }
    repeat split; auto.
  - exfalso. eapply q_got; eauto.
  - exfalso. pose proof (q_fullwait s Hnp Hq w Ed) as Ht. unfold popped, fw in *. rewrite Ed, Ht in *.
    assert (sW s <= 0) by (apply I2; right; reflexivity). lia.
  - exfalso. assert (Hpp : popped s = 1) by (unfold popped; rewrite Ed; reflexivity).
    pose proof (q_send s Hnp Hq Hpp) as Hb'. rewrite Hb in Hb'. cbn in Hb'. lia.
  - exfalso. assert (Hpp : popped s = 1) by (unfold popped; rewrite Ed; reflexivity).
    pose proof (q_send s Hnp Hq Hpp) as Hb'. rewrite Hb in Hb'. cbn in Hb'. lia.
Qed.

(* consequence with conservation: every id ever issued is finished or was dequeued *)
Corollary all_done s :
  reach fixed s -> live s -> panicked s = false -> 1 <= sW s -> quiescent fixed s ->
  running s = [] -> senderr s = [] ->
  forall k, k < nextid s -> cnt k (removed s) + cntn k (done s) = 1.
Proof.
  intros R Hl Hnp HW Hq Hr He k Hk.
  destruct (stuck_free s R Hl Hnp HW Hq Hr He) as (H1 & H2 & H3 & H4 & H5 & _).
  pose proof (cons_reach s R k) as Hc. unfold total in Hc.
  destruct Hl as (_ & _ & _ & _ & _ & _ & _ & _ & _ & Hdr).
  rewrite H1, H2, H3, H4, H5, Hr, He, Hdr in Hc. cbn [held map cnt cntn] in Hc.
  destruct (Nat.ltb_spec k (nextid s)); lia.
Qed.

(* Work conservation: at an internally-quiescent state of a running queue, if anything is waiting (a blocked
   producer, an item in the dispatcher's hand, in the heap or in the worker channel) then no worker is idle or
   posting: all W workers are inside a work function or delivering its error. *)
Definition waiting (s : state) : nat :=
  length (producers s) + length (held (disp s)) + length (heap s) + length (buffer s).

Theorem work_conserving s :
  reach fixed s -> live s -> panicked s = false -> 1 <= sW s -> quiescent fixed s ->
  0 < waiting s ->
  idle s = 0 /\ posting s = 0 /\ deleting s = [] /\ length (running s) + length (senderr s) = sW s.
Proof.
  intros R Hl Hnp HW Hq Hwt.
  destruct Hl as (_ & _ & Hpre & Hsem & _ & _ & _ & Hwx & _).
  destruct (winv_reach s R) as (W1 & W2 & W3). destruct (tok_reach s R Hnp) as [I1 I2].
  pose proof (q_deleting s Hnp Hq) as Hd.
  unfold F, busy, waiting in *. rewrite Hd in *. cbn [length] in *.
  assert (Hip : idle s = 0 /\ posting s = 0); [|destruct Hip; repeat split; auto; lia].
  destruct (disp s) eqn:Ed; unfold predrain in Hpre; rewrite Ed in Hpre; try discriminate Hpre;
    unfold popped, fw in *; rewrite ?Ed in *; cbn [held length] in *.
  - destruct (q_idle s Hnp Hq Ed) as [Hpr Ht]. rewrite Hpr, Ht in *. cbn [length] in *.
    assert (Hp : posting s = 0) by (destruct (q_post s Hnp Hq Hsem); lia).
    split; [|exact Hp]. rewrite Hp in *.
    destruct (q_take s Hnp Hq) as [Hi|Hb]; [exact Hi|]. rewrite Hb in *. cbn [length] in *.
    assert (sW s <= 0 + (length (running s) + length (senderr s) + 0 + 0) + 0 + 0) by (apply I2; left; lia). lia.
  - exfalso. eapply q_got; eauto.
  - pose proof (q_fullwait s Hnp Hq w Ed) as Ht. rewrite Ht in *.
    assert (Hp : posting s = 0) by (destruct (q_post s Hnp Hq Hsem); lia).
    split; [|exact Hp]. rewrite Hp in *.
    assert (HF : sW s <= length (buffer s) + (length (running s) + length (senderr s) + 0 + 0) + 0 + 0)
      by (apply I2; right; reflexivity).
    destruct (q_take s Hnp Hq) as [Hi|Hb]; [exact Hi|]. rewrite Hb in *. cbn [length] in *. lia.
  - assert (Hpp : popped s = 1) by (unfold popped; rewrite Ed; reflexivity).
    pose proof (q_send s Hnp Hq Hpp) as Hb.
    assert (Hi : idle s = 0) by (destruct (q_take s Hnp Hq) as [Hi|Hb0]; [exact Hi|rewrite Hb0 in Hb; cbn in Hb; lia]).
    split; [exact Hi|]. destruct (q_post s Hnp Hq Hsem) as [Hp|Hp]; [exact Hp|]. lia.
  - assert (Hpp : popped s = 1) by (unfold popped; rewrite Ed; reflexivity).
    pose proof (q_send s Hnp Hq Hpp) as Hb.
    assert (Hi : idle s = 0) by (destruct (q_take s Hnp Hq) as [Hi|Hb0]; [exact Hi|rewrite Hb0 in Hb; cbn in Hb; lia]).
    split; [exact Hi|]. destruct (q_post s Hnp Hq Hsem) as [Hp|Hp]; [exact Hp|]. lia.
Qed.

(* ---- termination measure: every internal step of a running queue strictly decreases it ---- *)
Definition dweight (d : dphase) : nat :=
  match d with PhGot _ => 18 | PhFullWait _ => 16 | PhFullSend _ _ => 24 | PhTokSend _ => 10 | _ => 0 end.
Definition measure (s : state) : nat :=
  20 * length (producers s) + dweight (disp s) + 12 * length (heap s) + 8 * length (buffer s)
  + 6 * length (running s) + 5 * length (senderr s) + 4 * length (deleting s) + 2 * posting s + tokens s.

Theorem measure_decreases s l s' :
  live s -> is_internal l = true -> step fixed s l = Some s' -> measure s' < measure s.
Proof.
  intros (H1 & H2 & H3 & H4 & H5 & H6 & H7 & H8 & H9 & H10) Hl H. unfold measure, predrain in *.
  step_inv H; try discriminate Hl; unset;
    repeat match goal with
      | T : take_item _ _ = Some _ |- _ => apply take_item_spec in T; destruct T as (_ & _ & _ & T & _)
      | T : take_err _ _ = Some _ |- _ => apply take_err_spec in T; destruct T as (_ & _ & _ & T & _)
      | D : decide _ _ _ = Some _ |- _ => apply decide_cnt in D; destruct D as (? & _ & -> & D & _); unset
      end;
    repeat match goal with
      | E : disp s = _ |- _ => rewrite E in *; clear E
      | E : buffer s = _ |- _ => rewrite E in *; clear E
      | E : idle s = _ |- _ => rewrite E in *; clear E
      | E : posting s = _ |- _ => rewrite E in *; clear E
      | E : tokens s = _ |- _ => rewrite E in *; clear E
      | E : heap s = _ |- _ => rewrite E in *; clear E
      end;
    rewrite ?app_length, ?(h_push_length wlt set_pos) in *; cbn [length dweight] in *;
    try congruence; try lia.
Qed.

(* the environment's Finish decreases it as well; Enq increases it *)
Lemma measure_finish s id r s' : step fixed s (Finish id r) = Some s' -> measure s' < measure s.
Proof.
  unfold step. destruct (panicked s); [discriminate|].
  destruct (take_item id (running s)) as [[x rest]|] eqn:T; [|discriminate].
  apply take_item_spec in T. destruct T as (_ & _ & _ & T & _).
  unfold measure. destruct r; intros H; injection H as <-; unset; rewrite ?app_length; cbn [length]; lia.
Qed.

(* ---- back-pressure: runs in which nothing completes (only Enqueue calls and internal steps) ---- *)
Definition bp_label (l : label) : bool := match l with Enq _ _ _ => true | _ => is_internal l end.

Fixpoint nreturned (tr : list event) : nat :=
  match tr with [] => 0 | EvReturned _ :: r => S (nreturned r) | _ :: r => nreturned r end.

Definition bp_inv (s : state) : Prop :=
  tokens s = 0 /\ posting s = 0 /\ senderr s = [] /\ deleting s = [] /\
  length (heap s) <= sL s /\
  (match disp s with PhIdle | PhGot _ | PhFullWait _ => True | _ => False end) /\
  (forall w, disp s = PhFullWait w -> sL s <= length (heap s)) /\
  nreturned (trace s) = length (held (disp s)) + length (heap s) + length (buffer s) + length (running s).

Lemma bp_init W L : bp_inv (init W L).
Proof. unfold bp_inv. cbn. repeat split; try lia. intros w H; discriminate. Qed.

Lemma bp_step s l s' : live s -> bp_inv s -> bp_label l = true -> step fixed s l = Some s' -> bp_inv s'.
Proof.
  intros Hlive (B1 & B2 & B3 & B4 & B5 & B6 & B7 & B8) Hl H.
  destruct Hlive as (L1 & L2 & L3 & L4 & L5 & L6 & L7 & L8 & L9 & L10).
  unfold bp_inv, predrain in *.
  step_inv H; try discriminate Hl; unset;
    repeat match goal with
      | T : take_item _ _ = Some _ |- _ => apply take_item_spec in T; destruct T as (_ & _ & _ & T & _)
      | T : take_err _ _ = Some _ |- _ => apply take_err_spec in T; destruct T as (_ & _ & _ & T & _)
      | B : no_handoff _ && _ = true |- _ => apply andb_true_iff in B; destruct B as [? B]
      | B : (_ <? _) = true |- _ => apply Nat.ltb_lt in B
      | B : negb (_ <? _) = true |- _ => apply negb_true_iff, Nat.ltb_ge in B
      end;
    repeat match goal with
      | E : disp s = _ |- _ => rewrite E in *; clear E
      | E : buffer s = _ |- _ => rewrite E in *; clear E
      | E : tokens s = _ |- _ => rewrite E in *; clear E
      | E : posting s = _ |- _ => rewrite E in *; clear E
      | E : senderr s = _ |- _ => rewrite E in *; clear E
      | E : deleting s = _ |- _ => rewrite E in *; clear E
      end;
    try discriminate; try contradiction;
    rewrite ?app_length, ?(h_push_length wlt set_pos) in *; cbn [length held nreturned] in *;
    try (repeat split; try assumption; try lia; try (intros ? Hx; discriminate Hx);
         try (intros ? Hx; injection Hx as <-; lia); fail).
Qed.

Lemma bp_no_stop l : bp_label l = true -> no_stop l = true.
Proof. destruct l; cbn; congruence. Qed.

Lemma bp_run W L ls s :
  forallb bp_label ls = true -> run fixed (init W L) ls = Some s -> live s /\ bp_inv s.
Proof.
  intros Hl. generalize (live_init W L) (bp_init W L). generalize (init W L).
  induction ls as [|l t IH]; simpl; intros s0 H0 B0 H.
  - injection H as <-. auto.
  - apply andb_true_iff in Hl. destruct Hl as [Hl Ht].
    destruct (step fixed s0 l) as [s1|] eqn:E; [|discriminate].
    eapply IH; [exact Ht| | |exact H].
    + eapply live_step; eauto using bp_no_stop.
    + eapply bp_step; eauto.
Qed.

Lemma sW_const s l s' : step fixed s l = Some s' -> sW s' = sW s.
Proof.
  intros H. step_inv H; unset;
    repeat match goal with D : decide _ _ _ = Some _ |- _ => apply decide_frame in D; destruct D as (? & ->); unset end;
    reflexivity.
Qed.
Lemma sW_run ls : forall s s', run fixed s ls = Some s' -> sW s' = sW s.
Proof.
  induction ls as [|l t IH]; simpl; intros s s' H; [injection H as <-; reflexivity|].
  destruct (step fixed s l) eqn:E; [|discriminate]. rewrite (IH _ _ H). eapply sW_const; eauto.
Qed.
Lemma sL_const s l s' : bp_label l = true -> step fixed s l = Some s' -> sL s' = sL s.
Proof.
  intros Hl H. step_inv H; try discriminate Hl; unset;
    repeat match goal with D : decide _ _ _ = Some _ |- _ => apply decide_frame in D; destruct D as (? & ->); unset end;
    reflexivity.
Qed.
Lemma sL_run ls : forall s s', forallb bp_label ls = true -> run fixed s ls = Some s' -> sL s' = sL s.
Proof.
  induction ls as [|l t IH]; simpl; intros s s' Hl H; [injection H as <-; reflexivity|].
  apply andb_true_iff in Hl. destruct Hl as [Hl Ht].
  destruct (step fixed s l) eqn:E; [|discriminate]. rewrite (IH _ _ Ht H). eapply sL_const; eauto.
Qed.

(* while nothing completes, at most 2W + L + 1 Enqueue calls return *)
Theorem backpressure_upper W L ls s :
  forallb bp_label ls = true -> run fixed (init W L) ls = Some s ->
  nreturned (trace s) <= 2 * W + L + 1.
Proof.
  intros Hl Hr. destruct (bp_run W L ls s Hl Hr) as [Hlive (B1 & B2 & B3 & B4 & B5 & B6 & B7 & B8)].
  pose proof (sW_run ls _ _ Hr) as HW. pose proof (sL_run ls _ _ Hl Hr) as HL. cbn in HW, HL.
  assert (R : reach fixed s) by (eapply run_reach; [apply reach_init|exact Hr]).
  destruct (winv_reach s R) as (W1 & W2 & W3).
  rewrite B8. destruct (disp s); try contradiction; cbn [held length]; lia.
Qed.

(* ... and an Enqueue call is blocked at an internally-quiescent state only after at least W + L + 1 have returned *)
Theorem backpressure_lower W L ls s :
  forallb bp_label ls = true -> run fixed (init W L) ls = Some s ->
  panicked s = false -> quiescent fixed s -> producers s <> [] ->
  W + L + 1 <= nreturned (trace s).
Proof.
  intros Hl Hr Hnp Hq Hp. destruct (bp_run W L ls s Hl Hr) as [Hlive (B1 & B2 & B3 & B4 & B5 & B6 & B7 & B8)].
  pose proof (sW_run ls _ _ Hr) as HW. pose proof (sL_run ls _ _ Hl Hr) as HL. cbn in HW, HL.
  assert (R : reach fixed s) by (eapply run_reach; [apply reach_init|exact Hr]).
  destruct (winv_reach s R) as (W1 & W2 & W3). destruct (tok_reach s R Hnp) as [I1 I2].
  destruct (disp s) eqn:Ed; try contradiction.
  - destruct (q_idle s Hnp Hq Ed). contradiction.
  - exfalso. eapply q_got; eauto.
  - specialize (B7 w eq_refl). unfold F, busy, popped, fw in I2. rewrite Ed, B1, B2, B3, B4 in I2. cbn [length] in I2.
    assert (sW s <= length (buffer s) + (length (running s) + 0 + 0 + 0) + 0 + 0) by (apply I2; right; reflexivity).
    rewrite B8. cbn [held length]. lia.
Qed.

(* ---- blocked producers resume as work completes (the canonical "queue full" state) ---- *)
Lemma take_item_in id l x : In x l -> iid x = id -> exists y r, take_item id l = Some (y, r).
Proof.
  induction l as [|a t IH]; [intros []|]. intros Hin Hid. cbn.
  destruct (Nat.eqb_spec (iid a) id); [eauto|].
  destruct Hin as [->|Hin]; [contradiction|]. destruct (IH Hin Hid) as (y & r & ->). eauto.
Qed.

(* a completion (nil result) at a state where no worker is between work function and Delete (true of every
   internally-quiescent state) gives its worker back and posts one token *)
Lemma finish_yields_token s id x rest :
  panicked s = false -> sem_closed s = false -> deleting s = [] ->
  take_item id (running s) = Some (x, rest) -> tokens s < sW s ->
  exists s', run fixed s [Finish id None; WDelete id; WPost] = Some s' /\
             tokens s' = S (tokens s) /\ idle s' = S (idle s) /\ running s' = rest /\
             disp s' = disp s /\ heap s' = heap s /\ buffer s' = buffer s /\ producers s' = producers s /\
             panicked s' = false /\ nreturned (trace s') = nreturned (trace s) /\ sW s' = sW s.
Proof.
  intros Hnp Hsem Hdel Ht Htok. destruct (take_item_spec _ _ _ _ Ht) as (Hid & _).
  assert (Hlt : (tokens s <? sW s) = true) by (apply Nat.ltb_lt; exact Htok).
  set (s1 := ev (EvDone id None) (set_running rest s)).
  set (s2 := set_deleting (deleting s ++ [x]) s1).
  assert (E1 : step fixed s (Finish id None) = Some s2).
  { unfold step. rewrite Hnp, Ht. reflexivity. }
  set (s3 := set_done (done s2 ++ [id]) (set_posting (S (posting s2))
               (set_workitems (remove_id id (workitems s2)) (set_deleting [] s2)))).
  assert (E2 : step fixed s2 (WDelete id) = Some s3).
  { unfold step. change (panicked s2) with (panicked s). rewrite Hnp.
    change (deleting s2) with (deleting s ++ [x]). rewrite Hdel. cbn [app take_item]. rewrite Hid, Nat.eqb_refl.
    reflexivity. }
  set (s4 := set_idle (S (idle s3)) (set_tokens (S (tokens s3)) (set_posting (posting s2) s3))).
  assert (E3 : step fixed s3 WPost = Some s4).
  { unfold step. change (panicked s3) with (panicked s). rewrite Hnp.
    change (posting s3) with (S (posting s2)). change (sem_closed s3) with (sem_closed s). rewrite Hsem.
    change (tokens s3) with (tokens s). change (sW s3) with (sW s). rewrite Hlt. reflexivity. }
  exists s4. split.
  - cbn [run]. rewrite E1, E2, E3. reflexivity.
  - cbn. repeat split; try reflexivity; assumption.
Qed.

(* with a token available, the dispatcher waiting in the full-queue branch hands out the best waiting item, queues
   the item it was holding and receives the next blocked producer's item: that Enqueue call returns *)
Lemma token_resumes_producer s w t vals p :
  panicked s = false -> disp s = PhFullWait w -> tokens s = S t -> heap s <> [] -> buffer_room s = true ->
  In p (producers s) ->
  exists s' q, run fixed s [DFullTok vals; DFullSend; DRecv (iid p)] = Some s' /\
               nreturned (trace s') = S (nreturned (trace s)) /\
               length (producers s') < length (producers s) /\ disp s' = PhGot q /\ iid q = iid p /\
               panicked s' = false.
Proof.
  intros Hnp Hd Ht Hh Hb Hp.
  destruct (decide fixed vals (set_tokens t s)) as [[x s1]|] eqn:D.
  2:{ exfalso. unfold decide in D. rewrite adjust_fixed in D. cbn [fst heap set_tokens] in D.
      destruct (h_pop wlt set_pos (h_init wlt set_pos (adjust_all vals (heap s)))) as [[y h2]|] eqn:Hpop; [discriminate|].
      apply (h_pop_none wlt set_pos) in Hpop.
      pose proof (adjust_length vals (heap s)) as Hl. rewrite adjust_fixed in Hl. cbn [fst] in Hl.
      rewrite Hpop in Hl. destruct (heap s); [contradiction|discriminate]. }
  destruct (decide_frame _ _ _ _ D) as (h2 & ->).
  destruct (take_item_in (iid p) (producers s) p Hp eq_refl) as (q & r & Hq).
  destruct (take_item_spec _ _ _ _ Hq) as (Hqid & _ & _ & Hlen & _).
  exists (ev (EvReturned (iid p)) (ev (EvArrive (iid p) (nextseq s))
            (set_nextseq (S (nextseq s)) (set_disp (PhGot (set_seq (nextseq s) q)) (set_producers r
               (set_disp PhIdle (set_heap (h_push wlt set_pos h2 w) (set_buffer (buffer s ++ [x])
                  (set_disp (PhFullSend x w) (ev (EvDecide (heap s) vals (consults (heap s)) x)
                     (set_heap h2 (set_tokens t s)))))))))))), (set_seq (nextseq s) q).
  split.
  - cbn [run]. unfold step at 1. rewrite Hnp, Hd, Ht, D. unset.
    unfold step at 1. unset. rewrite Hnp. unfold buffer_room in *. unset. rewrite Hb. unset.
    unfold step at 1. unset. rewrite Hnp, Hq. reflexivity.
  - unset. cbn [nreturned]. repeat split; try reflexivity; try assumption; lia.
Qed.

(* ---- Enqueue returns distinct ids ---- *)
Fixpoint enq_ids (tr : list event) : list nat :=
  match tr with [] => [] | EvEnq id _ :: r => id :: enq_ids r | _ :: r => enq_ids r end.

Lemma enq_ids_step s l s' :
  enq_ids (trace s) = rev (seq 0 (nextid s)) -> step fixed s l = Some s' ->
  enq_ids (trace s') = rev (seq 0 (nextid s')).
Proof.
  intros Hi H. step_inv H; unset;
    repeat match goal with D : decide _ _ _ = Some _ |- _ => apply decide_frame in D; destruct D as (? & ->); unset end;
    cbn [enq_ids]; try assumption.
  all: rewrite seq_S, rev_app_distr; cbn; rewrite Hi; reflexivity.
Qed.

Theorem enq_ids_reach s : reach fixed s -> enq_ids (trace s) = rev (seq 0 (nextid s)).
Proof. induction 1; [reflexivity|eapply enq_ids_step; eauto]. Qed.

(* exactly once at the end: a finished item was started exactly once *)
Lemma done_started_once s k :
  reach fixed s -> 0 < cntn k (done s) -> nstart k (trace s) = 1.
Proof.
  intros R Hd. pose proof (started_reach s R k) as Hs. pose proof (cons_reach s R k) as Hc.
  unfold total in Hc. destruct (k <? nextid s); lia.
Qed.
