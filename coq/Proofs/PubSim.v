(* Closing subscriber s does not affect the others: every run is matched, step by step, by a run in which
   s is never closed (no CloseSub s / FinishClose s, hence no Drop _ s) and which is identical on every
   other subscriber.  The matching run simply omits what happens to s - except that a Publish call that
   could skip s because it had been closed visits s before it returns (s is still in the map there). *)
From Coq Require Import List Arith Bool Lia.
From TC.Model Require Import Pub.
From TC.Proofs Require Import PubInv PubC06 PubC15.
Import ListNotations.

Section PubSim.
  Context {M : Type}.
  Notation state := (state M).
  Notation label := (label M).
  Variable s : nat.

  Definition notS (x : nat * nat * M) : bool := negb (fst (fst x) =? s).

  Definition target (l : label) : option nat :=
    match l with
    | Visit _ t | Enter _ t | Deliver _ t | Rendezvous _ t | Timeout _ t | Drop _ t
    | Recv t | CloseSub t | FinishClose t => Some t
    | _ => None
    end.

  Definition closes (l : label) : bool :=
    match l with CloseSub t | FinishClose t | Drop _ t => t =? s | _ => false end.

  Record sim (a b : state) : Prop := mkSim {
    sm_nsub : nsub b = nsub a;
    sm_npub : npub b = npub a;
    sm_now : now b = now a;
    sm_pmsg : forall p, pmsg b p = pmsg a p;
    sm_popen : forall p, popen b p = popen a p;
    sm_pt0 : forall p, pt0 b p = pt0 a p;
    sm_pn0 : forall p, pn0 b p = pn0 a p;
    sm_pgone : forall p t, t <> s -> pgone b p t = pgone a p t;
    sm_subs : forall t, t <> s -> subs b t = subs a t;
    sm_pair : forall p t, t <> s -> pair b p t = pair a p t;
    sm_cbF : filter notS (cbF b) = filter notS (cbF a);
    sm_cbT : filter notS (cbT b) = filter notS (cbT a);
    sm_in : s < nsub b -> s_inmap (subs b s) = true;
    sm_gone : forall p, pgone b p s = false
  }.

  Lemma sim_init : sim init init.
  Proof. constructor; simpl; auto. intros. lia. Qed.

  Lemma filter_snoc_s (l : list (nat * nat * M)) p m : filter notS (l ++ [(s, p, m)]) = filter notS l.
  Proof. rewrite filter_app. simpl. unfold notS at 2. simpl. rewrite Nat.eqb_refl. simpl. apply app_nil_r. Qed.

  Lemma filter_snoc_other (l l' : list (nat * nat * M)) t p m :
    t <> s -> filter notS l' = filter notS l -> filter notS (l' ++ [(t, p, m)]) = filter notS (l ++ [(t, p, m)]).
  Proof. intros Hn H. rewrite !filter_app, H. reflexivity. Qed.

  (* a step on s itself changes nothing the relation looks at *)
  Lemma sim_own_step (a a' b : state) l :
    sim a b -> target l = Some s -> step a l = Some a' -> sim a' b.
  Proof.
    intros S Ht H. destruct S.
    destruct l; simpl in Ht; inversion Ht; subst; inv_step H; constructor; simpl; auto;
      try (intros; unfold upd2, upd;
           repeat match goal with
                  | |- context [?x =? ?y] => destruct (Nat.eqb_spec x y); simpl; subst
                  end; auto; congruence);
      try (rewrite filter_snoc_s; assumption).
  Qed.

  Lemma no_insel_sim (a b : state) t : sim a b -> t <> s -> no_insel b t = no_insel a t.
  Proof.
    intros S Hn. unfold no_insel. rewrite (sm_npub _ _ S).
    induction (seq 0 (npub a)); simpl; auto. rewrite IHl, (sm_pair _ _ S); auto.
  Qed.

  Ltac sim_fields S :=
    pose proof (sm_nsub _ _ S) as Snsub; pose proof (sm_npub _ _ S) as Snpub; pose proof (sm_now _ _ S) as Snow;
    pose proof (sm_pmsg _ _ S) as Spmsg; pose proof (sm_popen _ _ S) as Spopen; pose proof (sm_pt0 _ _ S) as Spt0;
    pose proof (sm_pn0 _ _ S) as Spn0; pose proof (sm_pgone _ _ S) as Spgone; pose proof (sm_subs _ _ S) as Ssubs;
    pose proof (sm_pair _ _ S) as Spair; pose proof (sm_cbF _ _ S) as ScbF; pose proof (sm_cbT _ _ S) as ScbT;
    pose proof (sm_in _ _ S) as Sin; pose proof (sm_gone _ _ S) as Sgone.

  Ltac sim_close :=
    constructor; simpl; auto;
    try (intros; unfold upd2, upd;
         repeat match goal with
                | |- context [?x =? ?y] => destruct (Nat.eqb_spec x y); simpl; subst
                end; auto; try congruence; try lia);
    try (apply filter_snoc_other; auto).

  (* a step on another subscriber is matched by the same step *)
  Lemma sim_other_step (a a' b : state) l t :
    sim a b -> target l = Some t -> t <> s -> step a l = Some a' ->
    exists b', step b l = Some b' /\ sim a' b'.
  Proof.
    intros S Ht Hn H. sim_fields S.
    destruct l; simpl in Ht; inversion Ht; subst; clear Ht; unfold step in *.
    all: try rewrite Spmsg; try rewrite Spopen; try rewrite Snsub; try rewrite Snow;
      try rewrite (Spgone _ _ Hn); try rewrite (Spair _ _ Hn); try rewrite (Ssubs _ Hn);
      try rewrite (no_insel_sim _ _ _ S Hn).
    all: repeat match type of H with
           | context [match ?x with _ => _ end] => destruct x eqn:?
           | context [if ?x then _ else _] => destruct x eqn:?
           end; try discriminate; inversion H; subst; clear H.
    all: try (eexists; split; [reflexivity|]; unfold with_cbF, with_cbT, with_pair, with_sub, with_panic; sim_close).
  Qed.

  (* Subscribe, PubBegin, Tick: matched by the same step *)
  Lemma sim_global_step (a a' b : state) l :
    sim a b -> target l = None -> (forall p, l <> PubEnd p) -> step a l = Some a' ->
    exists b', step b l = Some b' /\ sim a' b'.
  Proof.
    intros S Ht Hne H. sim_fields S.
    destruct l; simpl in Ht; try discriminate; try (exfalso; eapply Hne; reflexivity);
      unfold step in *; inversion H; subst; clear H; (eexists; split; [reflexivity|]).
    - (* Subscribe *) rewrite Snsub. sim_close.
      all: try (rewrite Ssubs; auto; fail).
      all: try (apply Sin; lia).
    - (* PubBegin *) rewrite Snpub, Snsub, Snow. sim_close.
      all: try (rewrite Ssubs; auto; fail).
      all: try (destruct (s <? nsub a) eqn:E; simpl; auto; apply Nat.ltb_lt in E; rewrite Sin; auto; lia).
      all: try (apply Sin; lia).
    - (* Tick *) rewrite Snow. sim_close.
  Qed.

  (* the matching run may visit s itself (s-local change on the b side) *)
  Lemma sim_visit_b (a b b1 : state) p :
    sim a b -> step b (Visit p s) = Some b1 -> sim a b1.
  Proof.
    intros S H. destruct S. inv_step H; constructor; simpl; auto;
      try (intros; unfold upd2, upd;
           repeat match goal with
                  | |- context [?x =? ?y] => destruct (Nat.eqb_spec x y); simpl; subst
                  end; auto; congruence);
      try (rewrite filter_snoc_s; assumption).
  Qed.

  Lemma range_done_sim (a b : state) p :
    sim a b -> range_done a p = true -> (s < pn0 b p -> pair b p s <> PNone) -> range_done b p = true.
  Proof.
    intros S Ha Hs. unfold range_done in *. rewrite forallb_forall in *. intros t Hin.
    rewrite (sm_pn0 _ _ S) in Hin. specialize (Ha t Hin). apply in_seq in Hin.
    destruct (Nat.eq_dec t s) as [->|Hn].
    - rewrite (sm_pn0 _ _ S) in Hs. destruct (pair b p s) eqn:E; simpl; try apply implb_true_r'.
      all: try (destruct (negb (pgone b p s) && s_inmap (subs b s)); reflexivity).
      exfalso. apply Hs; auto. lia.
    - rewrite (sm_pgone _ _ S), (sm_subs _ _ S), (sm_pair _ _ S); auto.
  Qed.

  Lemma sim_pubend (a a' b : state) p :
    sim a b -> reach b -> step a (PubEnd p) = Some a' ->
    exists lb b', run b lb = Some b' /\ sim a' b' /\ forallb (fun l => negb (closes l)) lb = true.
  Proof.
    intros S Rb H. pose proof (reach_inv _ Rb) as Ib.
    unfold step in H. destruct (popen a p && range_done a p) eqn:E; [|discriminate].
    inversion H; subst; clear H. apply andb_true_iff in E. destruct E as [Ho Hr].
    assert (Hob : popen b p = true) by (rewrite (sm_popen _ _ S); auto).
    assert (Hp : p < npub b) by (apply (i_open _ Ib); auto).
    assert (finish : forall b1, sim a b1 -> popen b1 p = true -> (s < pn0 b1 p -> pair b1 p s <> PNone) ->
              exists b', step b1 (PubEnd p) = Some b' /\
                         sim (mkState (nsub a) (subs a) (npub a) (pmsg a) (upd (popen a) p false) (pt0 a) (pn0 a)
                                      (pgone a) (pair a) (now a) (cbF a) (cbT a) (panicked a)) b').
    { intros b1 S1 Ho1 Hs1. unfold step. rewrite Ho1, (range_done_sim _ _ _ S1 Hr Hs1). simpl.
      eexists. split; [reflexivity|]. destruct S1. constructor; simpl; auto.
      intros q. unfold upd. destruct (q =? p); auto. }
    destruct (is_none (pair b p s) && (s <? pn0 b p)) eqn:C.
    - apply andb_true_iff in C. destruct C as [C1 C2]. apply Nat.ltb_lt in C2.
      destruct (pair b p s) eqn:Ep; try discriminate.
      destruct (i_msg1 _ Ib _ Hp) as [m Hm].
      pose proof (i_pn0 _ Ib _ Hp) as Hn0.
      destruct (visit_enabled b p s m Hm Hob) as [b1 Hv]; auto; try lia.
      { apply (sm_gone _ _ S). }
      pose proof (sim_visit_b _ _ _ _ S Hv) as S1.
      destruct (visit_frame _ _ _ _ Hv) as (_ & _ & _ & _ & Fo & Fn0 & _ & Fv & _).
      destruct (finish b1 S1) as [b' [Hb' Sb']]; auto.
      { rewrite Fo; auto. }
      exists [Visit p s; PubEnd p], b'. cbn [run]. rewrite Hv, Hb'. split; auto.
    - destruct (finish b S Hob) as [b' [Hb' Sb']].
      { intros Hlt Hnone. rewrite Hnone in C. simpl in C. apply Nat.ltb_ge in C. lia. }
      exists [PubEnd p], b'. cbn [run]. rewrite Hb'. split; auto.
  Qed.

  (* ---------- the whole run ---------- *)
  Lemma sim_step (a a' b : state) l :
    sim a b -> reach b -> step a l = Some a' ->
    exists lb b', run b lb = Some b' /\ sim a' b' /\ forallb (fun l => negb (closes l)) lb = true.
  Proof.
    intros S Rb H. destruct (target l) as [t|] eqn:Ht.
    - destruct (Nat.eq_dec t s) as [->|Hn].
      + exists [], b. simpl. split; [reflexivity|]. split; [|reflexivity]. eapply sim_own_step; eauto.
      + destruct (sim_other_step _ _ _ _ _ S Ht Hn H) as [b' [Hb Sb]].
        exists [l], b'. cbn [run]. rewrite Hb. split; [reflexivity|]. split; [assumption|].
        cbn [forallb]. rewrite andb_true_r.
        destruct l; simpl in *; auto; inversion Ht; subst;
          destruct (Nat.eqb_spec t s); simpl; auto; congruence.
    - destruct l; simpl in Ht; try discriminate.
      3: { eapply sim_pubend; eauto. }
      all: match goal with
           | S0 : sim ?a0 ?b0, H0 : step ?a0 ?l = Some ?a1 |- _ =>
               let b' := fresh "b'" in let Hb := fresh "Hb" in let Sb := fresh "Sb" in
               destruct (sim_global_step a0 a1 b0 l S0 eq_refl) as [b' [Hb Sb]];
               [intros q; discriminate | exact H0 |];
               exists [l], b'; cbn [run]; rewrite Hb; auto
           end.
  Qed.

  Lemma forallb_app' {A} (f : A -> bool) l1 l2 :
    forallb f l1 = true -> forallb f l2 = true -> forallb f (l1 ++ l2) = true.
  Proof. intros. rewrite forallb_app. rewrite H, H0. reflexivity. Qed.

  Lemma sim_run (ls : list label) : forall a0 b0 a,
    sim a0 b0 -> reach b0 -> run a0 ls = Some a ->
    exists lb b, run b0 lb = Some b /\ sim a b /\ forallb (fun l => negb (closes l)) lb = true.
  Proof.
    induction ls as [|l t IH]; intros a0 b0 a S Rb H; simpl in H.
    - inversion H; subst. exists [], b0. simpl. auto.
    - destruct (step a0 l) as [a1|] eqn:E; [|discriminate].
      destruct (sim_step _ _ _ _ S Rb E) as (lb1 & b1 & Hr1 & S1 & F1).
      assert (Rb1 : reach b1) by (eapply run_reach; eauto).
      destruct (IH a1 b1 a S1 Rb1 H) as (lb2 & b2 & Hr2 & S2 & F2).
      exists (lb1 ++ lb2), b2. rewrite run_app, Hr1. split; auto. split; auto. apply forallb_app'; auto.
  Qed.

  (* every run is matched by a run without any close of s that agrees on every other subscriber *)
  Theorem others_untouched (ls : list label) (a : state) :
    run init ls = Some a ->
    exists lb b,
      run init lb = Some b /\ forallb (fun l => negb (closes l)) lb = true /\
      (s < nsub b -> s_inmap (subs b s) = true /\ s_phase (subs b s) = Open) /\
      nsub b = nsub a /\ npub b = npub a /\ now b = now a /\
      (forall p, pmsg b p = pmsg a p) /\
      (forall t, t <> s -> subs b t = subs a t /\ forall p, pair b p t = pair a p t) /\
      filter notS (cbF b) = filter notS (cbF a) /\ filter notS (cbT b) = filter notS (cbT a).
  Proof.
    intros H. destruct (sim_run ls init init a sim_init (reach_init) H) as (lb & b & Hr & S & F).
    exists lb, b.
    assert (Rb : reach b) by (eapply run_reach; [apply reach_init | eauto]).
    pose proof (reach_inv _ Rb) as Ib. destruct S.
    split; auto. split; auto. split.
    { intros Hlt. split; auto. apply (i_ph _ Ib). auto. }
    repeat split; auto.
  Qed.

End PubSim.
