(* Lemmas behind Props/C15.v: Publish never blocks, buffers absorb and keep, callbacks exactly once,
   own timeout, no leaked delivery goroutine. *)
From Coq Require Import List Arith Bool Lia ZArith Permutation.
From TC.Model Require Import Pub.
From TC.Lib Require Import ListAux.
From TC.Proofs Require Import PubInv PubC06.
Import ListNotations.

Section PubC15.
  Context {M : Type}.
  Notation state := (state M).
  Notation label := (label M).

  (* ---------- Publish never blocks ---------- *)

  (* what a Visit leaves alone *)
  Lemma visit_frame (st st' : state) p s :
    step st (Visit p s) = Some st' ->
    nsub st' = nsub st /\ subs st' = subs st /\ npub st' = npub st /\ pmsg st' = pmsg st /\
    popen st' = popen st /\ pn0 st' = pn0 st /\ pgone st' = pgone st /\
    pair st' p s <> PNone /\ (forall p' s', (p', s') <> (p, s) -> pair st' p' s' = pair st p' s').
  Proof.
    intros H. inv_step H; dupd; repeat split; auto; try congruence; try discriminate;
      intros p' s' Hne; unfold upd2;
      destruct (Nat.eqb_spec p' p); destruct (Nat.eqb_spec s' s); simpl; auto; subst; congruence.
  Qed.

  Lemma visit_enabled (st : state) p s m :
    pmsg st p = Some m -> popen st p = true -> s < nsub st -> pgone st p s = false ->
    pair st p s = PNone -> exists st', step st (Visit p s) = Some st'.
  Proof.
    intros Hm Ho Hs Hg Hp. unfold step. rewrite Hm, Ho, Hg, Hp.
    assert (s <? nsub st = true) by (apply Nat.ltb_lt; auto). rewrite H. simpl.
    destruct (s_filt (subs st s) m); eauto.
  Qed.

  Lemma visits_run (st : state) p m vs :
    pmsg st p = Some m -> popen st p = true -> NoDup vs ->
    (forall s, In s vs -> s < nsub st /\ pgone st p s = false /\ pair st p s = PNone) ->
    exists st', run st (map (Visit p) vs) = Some st' /\
                subs st' = subs st /\ popen st' = popen st /\ pn0 st' = pn0 st /\ pgone st' = pgone st /\
                (forall s, In s vs -> pair st' p s <> PNone) /\
                (forall s, ~ In s vs -> pair st' p s = pair st p s).
  Proof.
    revert st. induction vs as [|s vs IH]; intros st Hm Ho Hnd Hall; cbn [map run].
    - exists st. repeat split; auto.
    - inversion Hnd; subst.
      destruct (Hall s (or_introl eq_refl)) as (Hs & Hg & Hp).
      destruct (visit_enabled st p s m Hm Ho Hs Hg Hp) as [st1 E]. rewrite E.
      destruct (visit_frame _ _ _ _ E) as (Fn & Fs & Fnp & Fm & Fo & Fn0 & Fg & Fv & Fo').
      destruct (IH st1) as (st' & Hr & Gs & Go & Gn0 & Gg & Gv & Go'); auto.
      + rewrite Fm; auto.
      + rewrite Fo; auto.
      + intros s' Hin. destruct (Hall s' (or_intror Hin)) as (Hs' & Hg' & Hp').
        rewrite Fn, Fg. repeat split; auto. rewrite Fo'; auto. intro Heq. inversion Heq; subst. auto.
      + exists st'. split; auto. repeat split; try congruence.
        * intros s' [<- | Hin]; auto. rewrite Go'; auto.
        * intros s' Hn. rewrite Go' by (intro; apply Hn; right; auto).
          apply Fo'. intro Heq. inversion Heq; subst. apply Hn. left; auto.
  Qed.

  (* the subscribers call p still has to visit before it may return *)
  Definition todo (st : state) (p : nat) : list nat :=
    filter (fun s => negb (pgone st p s) && s_inmap (subs st s) && is_none (pair st p s)) (seq 0 (pn0 st p)).

  Lemma publish_can_finish (st : state) p :
    reach st -> p < npub st -> popen st p = true ->
    exists st' st'',
      run st (map (Visit p) (todo st p)) = Some st' /\ step st' (PubEnd p) = Some st'' /\
      length (todo st p) <= nsub st.
  Proof.
    intros R Hp Ho. pose proof (reach_inv _ R) as I.
    destruct (i_msg1 _ I _ Hp) as [m Hm].
    pose proof (i_pn0 _ I _ Hp) as Hn0.
    destruct (visits_run st p m (todo st p) Hm Ho) as (st' & Hr & Gs & Go & Gn0 & Gg & Gv & Go').
    - apply NoDup_filter. apply seq_NoDup.
    - intros s Hin. unfold todo in Hin. apply filter_In in Hin. destruct Hin as [Hin Hc].
      apply in_seq in Hin. bool_hyps. repeat split; auto. lia.
    - exists st'.
      assert (Hrd : range_done st' p = true).
      { unfold range_done. apply forallb_forall. intros s Hin. rewrite Gn0 in Hin.
        rewrite Gg, Gs.
        destruct (negb (pgone st p s) && s_inmap (subs st s)) eqn:E; simpl; auto.
        destruct (is_none (pair st p s)) eqn:E2.
        + assert (Hin' : In s (todo st p)) by (unfold todo; apply filter_In; split; auto; rewrite E, E2; auto).
          specialize (Gv s Hin'). destruct (pair st' p s); simpl; auto; congruence.
        + assert (Hn : ~ In s (todo st p)).
          { unfold todo. rewrite filter_In. intros [_ Hc]. rewrite E, E2 in Hc. discriminate. }
          rewrite (Go' s Hn). rewrite E2. auto. }
      unfold step at 1. rewrite Go, Ho, Hrd. simpl. eexists. split; [exact Hr|]. split; [reflexivity|].
      unfold todo. etransitivity; [apply filter_length_le|]. rewrite seq_length. exact Hn0.
  Qed.

  (* ---------- the buffer absorbs and keeps ---------- *)

  Lemma deliver_enabled (st : state) p s dl m :
    pair st p s = PInSel dl -> pmsg st p = Some m -> s_phase (subs st s) <> Closed ->
    length (s_buf (subs st s)) < s_cap (subs st s) -> enabled st (Deliver p s).
  Proof.
    intros Hp Hm Hph Hl. unfold enabled, step. rewrite Hp, Hm.
    assert (length (s_buf (subs st s)) <? s_cap (subs st s) = true) by (apply Nat.ltb_lt; auto).
    rewrite H. destruct (s_phase (subs st s)); try discriminate; congruence.
  Qed.

  Definition seen (st : state) (s : nat) := s_got (subs st s) ++ s_buf (subs st s).

  Lemma nsub_mono (st st' : state) l : step st l = Some st' -> nsub st <= nsub st'.
  Proof. intros H. destruct l; inv_step H; dupd; simpl; auto. Qed.

  (* received ++ buffered only ever grows at its end *)
  Lemma seen_grows (st st' : state) l s :
    step st l = Some st' -> s < nsub st -> exists ext, seen st' s = seen st s ++ ext.
  Proof.
    intros H Hs. unfold seen.
    destruct l; inv_step H; dupd; try (exists []; rewrite app_nil_r; reflexivity); try lia.
    all: try (eexists; rewrite app_assoc; reflexivity).
    all: try (match goal with H : s_buf _ = [] |- _ => rewrite H end;
              rewrite !app_nil_r; eexists; reflexivity).
    all: try (match goal with H : s_buf _ = _ :: _ |- _ => rewrite H end;
              exists []; rewrite app_nil_r, <- app_assoc; reflexivity).
  Qed.

  Lemma seen_grows_run (st st' : state) ls s :
    run st ls = Some st' -> s < nsub st -> exists ext, seen st' s = seen st s ++ ext.
  Proof.
    revert st. induction ls as [|l t IH]; simpl; intros st H Hs.
    - inversion H; subst. exists []. rewrite app_nil_r. auto.
    - destruct (step st l) as [st1|] eqn:E; [|discriminate].
      destruct (seen_grows _ _ _ s E Hs) as [e1 H1].
      destruct (IH st1 H) as [e2 H2]. { pose proof (nsub_mono _ _ _ E). lia. }
      exists (e1 ++ e2). rewrite H2, H1, app_assoc. reflexivity.
  Qed.

  Definition takes_from (s : nat) (l : label) : bool :=
    match l with Recv s' | Rendezvous _ s' => s' =? s | _ => false end.

  (* with no receive on s: nothing leaves the buffer, what arrives is appended *)
  Lemma buffer_kept (st st' : state) l s :
    step st l = Some st' -> s < nsub st -> takes_from s l = false ->
    s_got (subs st' s) = s_got (subs st s) /\ exists ext, s_buf (subs st' s) = s_buf (subs st s) ++ ext.
  Proof.
    intros H Hs Ht.
    destruct l; simpl in Ht; inv_step H; dupd;
      try (split; [reflexivity | exists []; rewrite app_nil_r; reflexivity]); try lia;
      try (rewrite Nat.eqb_refl in Ht; discriminate).
    all: split; auto; eexists; reflexivity.
  Qed.

  Lemma buffer_kept_run (st st' : state) ls s :
    run st ls = Some st' -> s < nsub st -> forallb (fun l => negb (takes_from s l)) ls = true ->
    s_got (subs st' s) = s_got (subs st s) /\ exists ext, s_buf (subs st' s) = s_buf (subs st s) ++ ext.
  Proof.
    revert st. induction ls as [|l t IH]; simpl; intros st H Hs Hf.
    - inversion H; subst. split; auto. exists []. rewrite app_nil_r. auto.
    - destruct (step st l) as [st1|] eqn:E; [|discriminate]. apply andb_true_iff in Hf. destruct Hf as [Hl Hf].
      apply negb_true_iff in Hl.
      destruct (buffer_kept _ _ _ s E Hs Hl) as [G1 [e1 B1]].
      destruct (IH st1 H) as [G2 [e2 B2]]; auto. { pose proof (nsub_mono _ _ _ E). lia. }
      split; [congruence|]. exists (e1 ++ e2). rewrite B2, B1, app_assoc. reflexivity.
  Qed.

  (* with nobody receiving, the buffer fills up to its capacity as long as accepted messages are pending *)
  Lemma buffer_absorbs (st : state) s :
    reach st -> s_phase (subs st s) <> Closed ->
    (forall p, ~ enabled st (Enter p s) /\ ~ enabled st (Deliver p s)) ->
    length (s_buf (subs st s)) = s_cap (subs st s) \/ forall p, is_pending (pair st p s) = false.
  Proof.
    intros R Hph Hst. pose proof (reach_inv _ R) as I.
    destruct (Nat.eq_dec (length (s_buf (subs st s))) (s_cap (subs st s))) as [|Hne]; [left; auto|right].
    pose proof (i_cap _ I s) as Hc.
    intros p. destruct (pair st p s) eqn:E; auto; exfalso.
    - apply (proj1 (Hst p)). unfold enabled, step. rewrite E. destruct (s_phase (subs st s)); discriminate.
    - assert (Hp : p < npub st) by (apply (i_bnd _ I p s); congruence).
      destruct (i_msg1 _ I _ Hp) as [m Hm].
      apply (proj2 (Hst p)). eapply deliver_enabled; eauto. lia.
  Qed.

  (* ---------- callbacks exactly once ---------- *)
  Lemma callbacks (st : state) :
    reach st ->
    (forall s p m, In (s, p, m) (cbF st) <->
                   pair st p s = PFiltered /\ s_onF (subs st s) = true /\ pmsg st p = Some m) /\
    NoDup (map key (cbF st)) /\
    (forall s p m, In (s, p, m) (cbT st) <->
                   pair st p s = PTimedOut /\ s_onT (subs st s) = true /\ pmsg st p = Some m) /\
    NoDup (map key (cbT st)).
  Proof.
    intros R. pose proof (reach_inv _ R) as I.
    split; [apply (i_cbF _ I)|]. split; [apply (i_cbFn _ I)|]. split; [apply (i_cbT _ I) | apply (i_cbTn _ I)].
  Qed.

  (* ---------- own timeout ---------- *)
  Lemma own_timeout_step (st st' : state) p s :
    reach st -> step st (Timeout p s) = Some st' -> pt0 st p + s_tmo (subs st s) <= now st.
  Proof.
    intros R H. pose proof (reach_inv _ R) as I. inv_step H;
      match goal with Hp : pair st p s = PInSel ?dl |- _ => pose proof (i_dl _ I _ _ _ Hp); lia end.
  Qed.

  Lemma own_timeout_state (st : state) p s :
    reach st -> pair st p s = PTimedOut -> pt0 st p + s_tmo (subs st s) <= now st.
  Proof. intros R. apply (i_to _ (reach_inv _ R)). Qed.

  (* ---------- no leak ---------- *)
  Lemma no_leak (st : state) :
    reach st ->
    (forall p s dl, pair st p s = PInSel dl -> dl <= now st) ->
    (forall p s, ~ enabled st (Enter p s) /\ ~ enabled st (Timeout p s)) ->
    forall p s, is_pending (pair st p s) = false.
  Proof.
    intros R Hdl Hst p s. pose proof (reach_inv _ R) as I.
    destruct (pair st p s) eqn:E; auto; exfalso.
    - apply (proj1 (Hst p s)). unfold enabled, step. rewrite E. destruct (s_phase (subs st s)); discriminate.
    - assert (Hp : p < npub st) by (apply (i_bnd _ I p s); congruence).
      destruct (i_msg1 _ I _ Hp) as [m Hm].
      apply (proj2 (Hst p s)). unfold enabled, step. rewrite E, Hm.
      assert (dl <=? now st = true) by (apply Nat.leb_le; eauto). rewrite H.
      destruct (s_onT (subs st s)); discriminate.
  Qed.

  Definition pair_dl (st : state) (ps : nat * nat) : nat :=
    match pair st (fst ps) (snd ps) with PInSel dl => dl | _ => 0 end.
  Definition max_dl (st : state) : nat :=
    fold_right Nat.max 0 (map (pair_dl st) (list_prod (seq 0 (npub st)) (seq 0 (nsub st)))).

  Lemma fold_max_ge (l : list nat) x : In x l -> x <= fold_right Nat.max 0 l.
  Proof. induction l; simpl; intros []; subst; try lia. specialize (IHl H). lia. Qed.

  (* time passes every deadline after finitely many ticks *)
  Lemma deadlines_pass (st : state) :
    reach st -> forall p s dl, pair st p s = PInSel dl -> dl <= now st + (max_dl st - now st).
  Proof.
    intros R p s dl E. pose proof (reach_inv _ R) as I.
    assert (Hb : p < npub st /\ s < nsub st) by (apply (i_bnd _ I); congruence).
    assert (dl <= max_dl st).
    { unfold max_dl. apply fold_max_ge. apply in_map_iff. exists (p, s). split.
      - unfold pair_dl. simpl. rewrite E. auto.
      - apply in_prod; apply in_seq; lia. }
    lia.
  Qed.

  (* ---------- the order of the Subscribe options does not matter ---------- *)
  Lemma apply_opt_comm (c : scfg M) (a b : sopt M) :
    okind a <> okind b -> apply_opt (apply_opt c a) b = apply_opt (apply_opt c b) a.
  Proof. destruct a, b; simpl; intros H; try reflexivity; exfalso; apply H; reflexivity. Qed.

  Lemma opts_perm (l1 l2 : list (sopt M)) :
    Permutation l1 l2 -> NoDup (map okind l1) ->
    forall c, fold_left apply_opt l1 c = fold_left apply_opt l2 c.
  Proof.
    induction 1; intros N c; simpl; auto.
    - inversion N; subst. apply IHPermutation; auto.
    - inversion N as [|? ? Hy N']; subst. rewrite apply_opt_comm; auto.
      intro E. apply Hy. simpl. left. symmetry. exact E.
    - rewrite IHPermutation1; auto. apply IHPermutation2.
      eapply Permutation_NoDup; [apply Permutation_map; eassumption | assumption].
  Qed.

End PubC15.
