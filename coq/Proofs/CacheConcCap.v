(* CacheConc after fix F15: Sets within capacity never cause an eviction (counting argument: a partition is opened
   only when all open partitions are full and the opener's own key is not yet stored), and with pairwise distinct
   keys every completed Set is visible afterwards. *)
From Coq Require Import List Arith Bool Lia.
From TC.Model Require Import CacheConc.
From TC.Proofs Require Import CacheConcBase CacheConcSafe.
Import ListNotations.

Fixpoint sumf {A} (f : A -> nat) (l : list A) : nat :=
  match l with [] => 0 | x :: t => f x + sumf f t end.

Lemma sumf_app {A} (f : A -> nat) l1 l2 : sumf f (l1 ++ l2) = sumf f l1 + sumf f l2.
Proof. induction l1; simpl; lia. Qed.

Lemma sumf_upd {A} (f : A -> nat) i x y l :
  nth_error l i = Some y -> sumf f (upd i x l) + f y = sumf f l + f x.
Proof.
  revert i; induction l as [|z t IH]; intros [|i] H; simpl in *; try discriminate.
  - inv H. lia.
  - specialize (IH _ H). lia.
Qed.

Lemma sumf_ge {A} (f : A -> nat) i y l : nth_error l i = Some y -> f y <= sumf f l.
Proof.
  revert i; induction l as [|z t IH]; intros [|i] H; simpl in *; try discriminate.
  - inv H. lia.
  - specialize (IH _ H). lia.
Qed.

Lemma upd_same {A} i (x : A) l : nth_error l i = Some x -> upd i x l = l.
Proof. revert i; induction l as [|z t IH]; intros [|i] H; simpl in *; try discriminate; [inv H; auto|f_equal; auto]. Qed.

Definition ents_of (m : nat) : list (nat * nat) := map (fun j => (S j, j)) (seq 0 m).

Lemma ents_of_S m : ents_of (S m) = ents_of m ++ [(S m, m)].
Proof. unfold ents_of. rewrite seq_S, map_app. reflexivity. Qed.

Lemma peek_ents_app id l1 l2 :
  peek_ents id (l1 ++ l2) = match peek_ents id l1 with Some p => Some p | None => peek_ents id l2 end.
Proof. induction l1 as [|[i p] t IH]; simpl; auto. destruct (i =? id); auto. Qed.

Lemma peek_ents_of id m : peek_ents id (ents_of m) = match id with 0 => None | S p => if p <? m then Some p else None end.
Proof.
  induction m as [|m IH]; [destruct id; reflexivity|].
  rewrite ents_of_S, peek_ents_app, IH. destruct id as [|p]; [reflexivity|].
  destruct (Nat.ltb_spec p m).
  - destruct (Nat.ltb_spec p (S m)); [reflexivity|lia].
  - simpl. destruct (Nat.eqb_spec m p) as [->|Hne].
    + destruct (Nat.ltb_spec p (S p)); [reflexivity|lia].
    + destruct (Nat.ltb_spec p (S m)); [lia|reflexivity].
Qed.

Section Cap.
  Context {K V : Type}.
  Variable keqb : K -> K -> bool.
  Variable zero : V.
  Hypothesis keqb_spec : forall a b, reflect (a = b) (keqb a b).
  Variable c : config.
  Hypothesis Hre : recheck c = true.
  Notation state := (@state K V).
  Notation thread := (@thread K V).
  Notation step := (@step K V keqb zero).
  Notation run := (@run K V keqb zero).
  Notation WF := (@WF K V).

  Definition wc_op (o : @op K V) : bool := match o with ODelete _ | OClear => false | _ => true end.
  Definition wc_label (l : @label K V) : bool := match l with LSpawn o => wc_op o | _ => true end.

  (* Set goroutines that have not yet stored their pair *)
  Definition uw (t : thread) : nat :=
    match t with
    | (OSet _ _, (PIdx | PRdParts _ | PPeek _ _ | PInPlace _ | PFast | PSlow | PWrite _ _)) => 1
    | _ => 0
    end.
  Definition tot (pm : list (list (K * V))) : nat := sumf (@length _) pm.
  Definition thr_cap (t : thread) : Prop := wc_op (fst t) = true /\ (forall n, snd t = PSwPop n -> n = 0).

  Record CapInv (s : state) : Prop := {
    ci_stacks : exists st, stacks s = [st] /\ ents st = ents_of (length (pmaps s)) /\ ctr st = length (pmaps s);
    ci_fparts : fparts s = 0;
    ci_findex : findex s = 0;
    ci_idxs : exists ix, idxs s = [ix];
    ci_cur : cur s = length (pmaps s);
    ci_max : length (pmaps s) <= maxP c;
    ci_full : forall j, S j < length (pmaps s) -> capC c <= length (nth j (pmaps s) []);
    ci_cnt : tot (pmaps s) + sumf uw (threads s) <= length (setlog s);
    ci_cpmw : cpmw s = false;
    ci_thr : Forall thr_cap (threads s)
  }.

  Lemma CapInv_init : CapInv init.
  Proof.
    constructor; simpl; auto; try lia.
    - eexists; repeat split.
    - eexists; reflexivity.
    - constructor; [|constructor]. split; simpl; auto. discriminate.
  Qed.

  Lemma tot_full pm C : (forall j, j < length pm -> C <= length (nth j pm [])) -> length pm * C <= tot pm.
  Proof.
    induction pm as [|m t IH]; intros H; simpl; [lia|].
    assert (H0 := H 0 ltac:(simpl; lia)). simpl in H0.
    assert (IH' : length t * C <= tot t).
    { apply IH. intros j Hj. apply (H (S j)). simpl; lia. }
    unfold tot in *. simpl. lia.
  Qed.

  Lemma tot_app pm m : tot (pm ++ [m]) = tot pm + length m.
  Proof. unfold tot. rewrite sumf_app. simpl. lia. Qed.

  (* a step that only moves thread i (and possibly spawns a sweeper) and leaves the cache data alone *)
  Lemma cap_frame (s s1 : state) i o p p1 extra :
    CapInv s -> nth_error (threads s) i = Some (o, p) ->
    stacks s1 = stacks s -> pmaps s1 = pmaps s -> idxs s1 = idxs s -> fparts s1 = fparts s ->
    findex s1 = findex s -> cur s1 = cur s -> cpmw s1 = cpmw s -> setlog s1 = setlog s ->
    threads s1 = upd i (o, p1) (threads s) ++ extra ->
    uw (o, p1) <= uw (o, p) -> (forall n, p1 = PSwPop n -> n = 0) ->
    sumf uw extra = 0 -> Forall thr_cap extra ->
    CapInv s1.
  Proof.
    intros [A1 A2 A3 A4 A5 A6 A7 A8 A9 A10] Et E1 E2 E3 E4 E5 E6 E7 E8 E9 Hu Hn Hx1 Hx2.
    constructor; rewrite ?E1, ?E2, ?E3, ?E4, ?E5, ?E6, ?E7, ?E8; auto.
    - rewrite E9, sumf_app, Hx1. pose proof (sumf_upd uw i (o, p1) (o, p) _ Et). unfold CacheConc.thread in *. lia.
    - rewrite E9. apply Forall_app; split; auto. apply Forall_upd; auto.
      rewrite Forall_forall in A10. destruct (A10 _ (nth_error_In _ _ Et)) as [B1 B2].
      split; simpl in *; auto.
  Qed.

  Ltac frame Hci Et :=
    eapply (cap_frame _ _ _ _ _ _ [] Hci Et); simpl; rewrite ?app_nil_r;
    try reflexivity; try (intros; discriminate); try (constructor; fail); auto.

  Lemma step_CapInv s l s' :
    WF s -> CapInv s -> step c s l = Some s' -> wc_label l = true ->
    length (setlog s') <= maxP c * capC c -> CapInv s'.
  Proof.
    intros Hwf Hci Hs Hl Hlen.
    destruct l as [o|i| | |i]; simpl in Hs.
    - (* spawn *)
      destruct Hci as [A1 A2 A3 A4 A5 A6 A7 A8 A9 A10]. simpl in Hl.
      destruct o; try discriminate; inv Hs; constructor; simpl in *; auto;
        try (rewrite sumf_app; simpl; lia);
        try (apply Forall_app; split; auto; constructor; [|constructor]; split; simpl; auto; discriminate).
    - destruct (nth_error (threads s) i) as [[o p]|] eqn:Et; [|discriminate].
      destruct Hwf as (Hfp & Hfi & Hst & Hth & Hpn).
      rewrite Forall_forall in Hth. destruct (Hth _ (nth_error_In _ _ Et)) as [Hok Hrf]. simpl in Hok, Hrf.
      assert (Hcap := ci_thr _ Hci). rewrite Forall_forall in Hcap.
      destruct (Hcap _ (nth_error_In _ _ Et)) as [Hop Hsw]. simpl in Hop, Hsw.
      pose proof (step_thread_setlog keqb zero _ _ _ _ _ _ Hs) as Esl. rewrite Esl in Hlen. clear Esl.
      destruct p; simpl in Hs, Hok, Hrf.
      + (* PIdx *)
        destruct (okey o) as [k|] eqn:Ek; [|destruct o; simpl in *; discriminate].
        destruct (nth_error (idxs s) (findex s)) as [ix|] eqn:Ei; [|apply nth_error_None in Ei; lia].
        destruct (lookup keqb k ix) as [[|id']|]; inv Hs; frame Hci Et; destruct o; simpl in *; try discriminate; auto.
      + inv Hs. frame Hci Et; destruct o; simpl in *; auto.
      + destruct (nth_error (stacks s) s0) as [st|] eqn:Es; [|apply nth_error_None in Es; lia].
        destruct (stk_peek id st); inv Hs; frame Hci Et; destruct o; simpl in *; try discriminate; auto.
      + destruct (okey o) as [k|] eqn:Ek; [|destruct o; simpl in *; discriminate].
        destruct (nth_error (pmaps s) p) as [m|] eqn:Em; [|apply nth_error_None in Em; lia].
        destruct o; simpl in *; try discriminate; inv Hs; frame Hci Et.
      + destruct o; simpl in *; discriminate.
      + destruct o; simpl in *; discriminate.
      + (* PInPlace *)
        destruct o; simpl in *; try discriminate.
        destruct (nth_error (pmaps s) p) as [m|] eqn:Em; [|apply nth_error_None in Em; lia].
        inv Hs. destruct Hci as [A1 A2 A3 A4 A5 A6 A7 A8 A9 A10].
        pose proof (aset_length keqb k v m) as Hal.
        constructor; simpl; rewrite ?upd_length; auto.
        * intros j Hj. specialize (A7 j Hj). destruct (Nat.eq_dec p j) as [->|Hne].
          -- rewrite nth_upd_eq by lia. rewrite (nth_error_nth' _ _ _ [] Em) in A7. lia.
          -- rewrite nth_upd_neq by auto. auto.
        * pose proof (sumf_upd (@length _) p (aset keqb k v m) m _ Em) as H1.
          pose proof (sumf_upd uw i (OSet k v, PDone RUnit) (OSet k v, PInPlace p) _ Et) as H2.
          unfold tot in *. simpl in H2. unfold CacheConc.thread in *. lia.
        * apply Forall_upd; auto. split; simpl; auto. discriminate.
      + (* PFast *)
        destruct (cpmw s); [discriminate|].
        destruct (room c s) as [[p'|]|]; inv Hs; try (frame Hci Et; destruct o; simpl in *; auto; fail).
        destruct Hci; constructor; simpl; auto.
      + (* PSlow *)
        destruct (cpmw s || negb (cpmr s =? 0)); [discriminate|].
        destruct o; simpl in Hok; try discriminate.
        pose proof Hci as Hci0.
        destruct Hci as [A1 A2 A3 A4 A5 A6 A7 A8 A9 A10].
        destruct A1 as (st & Est & Eents & Ectr).
        unfold room, open_partition in Hs. rewrite Est, A2 in Hs. simpl in Hs.
        unfold stk_peek in Hs. rewrite Eents, A5, peek_ents_of, Hre in Hs.
        set (m := length (pmaps s)) in *.
        assert (Hopen : (forall j, j < m -> capC c <= length (nth j (pmaps s) [])) ->
                  CapInv (set_threads (set_cur (set_stacks (set_pmaps s (pmaps s ++ [[]]))
                                     (upd 0 (stk_push m st) [st])) (ctr (stk_push m st)))
                         (upd i (OSet k v, PWrite m (ctr (stk_push m st))) (threads s) ++ [(OSweep, PSwBegin)]))).
        { intros Hfull.
          assert (Hm : S m <= maxP c).
          { pose proof (tot_full (pmaps s) (capC c) Hfull) as H1.
            pose proof (sumf_ge uw _ _ _ Et) as H2. simpl in H2. fold m in H1.
                        assert (m * capC c < maxP c * capC c) by lia.
            destruct (le_lt_dec (S m) (maxP c)) as [|Hgt]; [assumption|].
            assert (maxP c * capC c <= m * capC c) by (apply Nat.mul_le_mono_r; lia). lia. }
          constructor; simpl; rewrite ?app_length; simpl; rewrite ?Nat.add_1_r; fold m; auto.
          - eexists. split; [reflexivity|]. simpl. rewrite Eents, Ectr. fold m. rewrite ents_of_S. auto.
          - intros j Hj. rewrite app_nth1 by (fold m; lia). apply Hfull. lia.
          - rewrite tot_app, sumf_app. simpl.
            pose proof (sumf_upd uw i (OSet k v, PWrite m (S (ctr st))) (OSet k v, PSlow) _ Et) as H2.
            simpl in H2. unfold CacheConc.thread in *. lia.
          - apply Forall_app; split.
            + apply Forall_upd; auto. split; simpl; auto. discriminate.
            + constructor; [|constructor]. split; simpl; auto. discriminate. }
        destruct m as [|m'] eqn:Em.
        * (* no partition yet *)
          inv Hs. apply Hopen. intros j Hj; lia.
        * destruct (Nat.ltb_spec m' (S m')); [|lia].
          destruct (nth_error (pmaps s) m') as [pm|] eqn:Epm; [|apply nth_error_None in Epm; lia].
          destruct (Nat.ltb_spec (length pm) (capC c)).
          -- inv Hs. eapply (cap_frame _ _ _ _ _ _ [] Hci0 Et);
               simpl; rewrite ?app_nil_r; try reflexivity; auto; try (intros; discriminate).
          -- inv Hs. apply Hopen. intros j Hj.
             destruct (Nat.eq_dec j m') as [->|Hne]; [rewrite (nth_error_nth' _ _ _ [] Epm); lia|].
             apply A7. lia.
      + (* PWrite *)
        destruct o; simpl in *; try discriminate.
        destruct (nth_error (pmaps s) p) as [m|] eqn:Em; [|apply nth_error_None in Em; lia].
        inv Hs. destruct Hci as [A1 A2 A3 A4 A5 A6 A7 A8 A9 A10].
        pose proof (aset_length keqb k v m) as Hal.
        constructor; simpl; rewrite ?upd_length; auto.
        * intros j Hj. specialize (A7 j Hj). destruct (Nat.eq_dec p j) as [->|Hne].
          -- rewrite nth_upd_eq by lia. rewrite (nth_error_nth' _ _ _ [] Em) in A7. lia.
          -- rewrite nth_upd_neq by auto. auto.
        * pose proof (sumf_upd (@length _) p (aset keqb k v m) m _ Em) as H1.
          pose proof (sumf_upd uw i (OSet k v, PIndex id) (OSet k v, PWrite p id) _ Et) as H2.
          unfold tot in *. simpl in H2. unfold CacheConc.thread in *. lia.
        * apply Forall_upd; auto. split; simpl; auto. discriminate.
      + (* PIndex *)
        destruct (okey o) as [k|] eqn:Ek; [|destruct o; simpl in *; discriminate].
        destruct (nth_error (idxs s) (findex s)) as [ix|] eqn:Ei; [|apply nth_error_None in Ei; lia].
        inv Hs. destruct Hci as [A1 A2 A3 A4 A5 A6 A7 A8 A9 A10].
        constructor; simpl; auto.
        * destruct A4 as [ix0 E0]. rewrite E0, A3. simpl. eexists; reflexivity.
        * pose proof (sumf_upd uw i (o, PDone RUnit) (o, PIndex id) _ Et) as H2.
          destruct o; simpl in *; try discriminate. unfold CacheConc.thread in *. lia.
        * apply Forall_upd; auto. split; simpl; auto. discriminate.
      + (* PSwBegin *)
        destruct (swm s || cpmw s); [discriminate|].
        destruct (nth_error (stacks s) (fparts s)) as [st|] eqn:Es; [|apply nth_error_None in Es; lia].
        inv Hs. eapply (cap_frame _ _ _ _ _ _ [] Hci Et); simpl; rewrite ?app_nil_r; try reflexivity; auto;
          try (destruct o; simpl in *; auto; fail).
        intros n Hn. inv Hn.
        destruct Hci as [A1 A2 A3 A4 A5 A6 A7 A8 A9 A10]. destruct A1 as (st0 & Est & Eents & Ectr).
        rewrite Est, A2 in Es. simpl in Es. inv Es. rewrite Eents. unfold ents_of.
        rewrite map_length, seq_length. lia.
      + (* PSwPop *)
        rewrite (Hsw n eq_refl) in Hs. inv Hs.
        eapply (cap_frame _ _ _ _ _ _ [] Hci Et); simpl; rewrite ?app_nil_r; try reflexivity; auto;
          try (destruct o; simpl in *; auto; fail).
        intros n' Hn'. destruct o; discriminate.
      + destruct o; simpl in *; discriminate.
      + destruct o; simpl in *; discriminate.
      + destruct o; simpl in *; discriminate.
      + destruct (tick s); [|discriminate]. inv Hs.
        eapply (cap_frame _ _ _ _ _ _ [] Hci Et); simpl; rewrite ?app_nil_r; try reflexivity; auto;
          try (destruct o; simpl in *; auto; fail).
        intros; discriminate.
      + discriminate.
    - inv Hs. destruct Hci; constructor; simpl; auto.
    - inv Hs. destruct Hci; constructor; simpl; auto.
    - destruct (nth_error (threads s) i) as [[o p]|] eqn:Et; [|discriminate].
      destruct o; try discriminate. destruct p; try discriminate.
      destruct (cancelled s); [|discriminate]. inv Hs.
      eapply (cap_frame _ _ _ _ _ _ [] Hci Et); simpl; rewrite ?app_nil_r; try reflexivity; auto.
      intros; discriminate.
  Qed.
  (* ---------- presence: with pairwise distinct keys every stored pair stays visible ---------- *)
  Definition tkeys (ts : list thread) : list K :=
    flat_map (fun t : thread => match fst t with OSet k _ => [k] | _ => [] end) ts.

  Definition set_fact (s : state) (k : K) (v : V) (p : @pc V) : Prop :=
    match p with
    | PIdx | PFast | PSlow => True
    | PWrite p' id => id = S p' /\ p' < length (pmaps s)
    | PIndex id => exists p', id = S p' /\ p' < length (pmaps s) /\ lookup keqb k (nth p' (pmaps s) []) = Some v
    | PDone _ => exists p', lookup keqb k (hd [] (idxs s)) = Some (S p') /\ p' < length (pmaps s)
                            /\ lookup keqb k (nth p' (pmaps s) []) = Some v
    | _ => False
    end.

  Record PresInv (s : state) : Prop := {
    pi_keys : tkeys (threads s) = rev (map fst (setlog s));
    pi_idx : forall k id, lookup keqb k (hd [] (idxs s)) = Some id ->
                          exists i v r, nth_error (threads s) i = Some (OSet k v, PDone r);
    pi_set : forall i k v p, nth_error (threads s) i = Some (OSet k v, p) -> set_fact s k v p
  }.

  Lemma PresInv_init : PresInv init.
  Proof.
    constructor; simpl; auto.
    - intros k id H; discriminate.
    - intros [|[|i]] k v p H; simpl in H; discriminate.
  Qed.

  Lemma tkeys_app a b : tkeys (a ++ b) = tkeys a ++ tkeys b.
  Proof. unfold tkeys. apply flat_map_app. Qed.

  Lemma tkeys_upd ts i o p p1 : nth_error ts i = Some (o, p) -> tkeys (upd i (o, p1) ts) = tkeys ts.
  Proof.
    revert i; induction ts as [|t ts IH]; intros [|i] H; simpl in *; try discriminate.
    - inv H. reflexivity.
    - rewrite (IH _ H). reflexivity.
  Qed.

  Lemma tkeys_In ts j k v p : nth_error ts j = Some (OSet k v, p) -> In k (tkeys ts).
  Proof.
    revert j; induction ts as [|t ts IH]; intros [|j] H; simpl in *; try discriminate.
    - inv H. simpl. auto.
    - apply in_or_app. right. eauto.
  Qed.

  Lemma NoDup_app_r {A} (a b : list A) : NoDup (a ++ b) -> NoDup b.
  Proof. induction a as [|x t IH]; simpl; auto. intros H. inv H. auto. Qed.

  Lemma tkeys_inj ts : NoDup (tkeys ts) -> forall i j k v p v' p',
    nth_error ts i = Some (OSet k v, p) -> nth_error ts j = Some (OSet k v', p') -> i = j.
  Proof.
    induction ts as [|t ts IH]; intros Hnd [|i] [|j] k v p v' p' Hi Hj; simpl in *; try discriminate; auto.
    - inv Hi. simpl in Hnd. inv Hnd. exfalso. apply H1. eapply tkeys_In; eauto.
    - inv Hj. simpl in Hnd. inv Hnd. exfalso. apply H1. eapply tkeys_In; eauto.
    - f_equal. apply NoDup_app_r in Hnd. eapply IH; eauto.
  Qed.

  Lemma set_fact_mono (s s1 : state) e k v p :
    pmaps s1 = pmaps s ++ e -> idxs s1 = idxs s -> set_fact s k v p -> set_fact s1 k v p.
  Proof.
    intros E1 E2 H. destruct p; simpl in *; auto; rewrite ?E1, ?E2, ?app_length.
    - destruct H; split; auto; lia.
    - destruct H as (p' & H1 & H2 & H3). exists p'. rewrite app_nth1 by lia. repeat split; auto; lia.
    - destruct H as (p' & H1 & H2 & H3). exists p'. rewrite app_nth1 by lia. repeat split; auto; lia.
  Qed.

  Lemma nth_error_upd_app_old {A} (l extra : list A) i x j :
    j < length l -> i <> j -> nth_error (upd i x l ++ extra) j = nth_error l j.
  Proof. intros H1 H2. rewrite nth_error_app1 by (rewrite upd_length; auto). apply nth_error_upd_neq; auto. Qed.

  Lemma pres_frame (s s1 : state) i o p p1 e extra :
    PresInv s -> nth_error (threads s) i = Some (o, p) -> (forall r, p <> PDone r) ->
    pmaps s1 = pmaps s ++ e -> idxs s1 = idxs s -> setlog s1 = setlog s ->
    threads s1 = upd i (o, p1) (threads s) ++ extra -> tkeys extra = [] ->
    (forall k v, o = OSet k v -> set_fact s1 k v p1) ->
    PresInv s1.
  Proof.
    intros [B1 B2 B3] Et Hnd E1 E2 E3 E4 Hex Hnew.
    assert (Hlt := nth_error_lt _ _ _ Et).
    constructor.
    - rewrite E4, E3, tkeys_app, Hex, app_nil_r, (tkeys_upd _ _ _ _ _ Et). exact B1.
    - rewrite E2, E4. intros k id H. destruct (B2 _ _ H) as (i' & v & r & Hi').
      exists i', v, r. rewrite nth_error_upd_app_old; auto.
      + eapply nth_error_lt; eauto.
      + intros ->. rewrite Et in Hi'. inv Hi'. apply (Hnd r); reflexivity.
    - rewrite E4. intros j k v pj Hj.
      destruct (Nat.lt_ge_cases j (length (threads s))) as [Hjl|Hjl].
      + destruct (Nat.eq_dec i j) as [->|Hne].
        * rewrite nth_error_app1 in Hj by (rewrite upd_length; auto).
          rewrite nth_error_upd_eq in Hj by auto. inv Hj. auto.
        * rewrite nth_error_upd_app_old in Hj by auto. eapply set_fact_mono; eauto.
      + rewrite nth_error_app2 in Hj by (rewrite upd_length; auto).
        apply tkeys_In in Hj. rewrite Hex in Hj. destruct Hj.
  Qed.

  Lemma room_cap (s : state) p' :
    CapInv s -> room c s = Some (Some p') -> cur s = S p' /\ p' < length (pmaps s).
  Proof.
    intros [A1 A2 A3 A4 A5 A6 A7 A8 A9 A10] H. destruct A1 as (st & Est & Eents & Ectr).
    unfold room in H. rewrite Est, A2 in H. simpl in H. unfold stk_peek in H.
    rewrite Eents, A5, peek_ents_of in H.
    destruct (length (pmaps s)) as [|m'] eqn:Em; [discriminate|].
    destruct (Nat.ltb_spec m' (S m')); [|lia].
    destruct (nth_error (pmaps s) m'); [|discriminate].
    destruct (length l <? capC c); inv H. split; auto; lia.
  Qed.

  Lemma lookup_nth_upd_neq k k2 (v : V) pm p' m0 x :
    k <> k2 -> nth_error pm p' = Some m0 ->
    lookup keqb k2 (nth x (upd p' (aset keqb k v m0) pm) []) = lookup keqb k2 (nth x pm []).
  Proof.
    intros Hne Hm. destruct (Nat.eq_dec p' x) as [->|Hx].
    - rewrite nth_upd_eq by (eapply nth_error_lt; eauto).
      rewrite (nth_error_nth' _ _ _ [] Hm). apply lookup_aset_neq; auto.
    - rewrite nth_upd_neq by auto. reflexivity.
  Qed.

  Lemma pres_spawn (s s1 : state) t :
    PresInv s -> threads s1 = threads s ++ [t] -> idxs s1 = idxs s -> pmaps s1 = pmaps s ->
    rev (map fst (setlog s1)) = rev (map fst (setlog s)) ++ tkeys [t] ->
    (forall k v p, t = (OSet k v, p) -> p = PIdx) -> PresInv s1.
  Proof.
    intros [B1 B2 B3] E1 E2 E3 E4 Ht. constructor.
    - rewrite E1, tkeys_app, B1, E4. reflexivity.
    - rewrite E1, E2. intros k id H.
      destruct (B2 _ _ H) as (i' & v & r & Hi'). exists i', v, r.
      rewrite nth_error_app1 by (eapply nth_error_lt; eauto). exact Hi'.
    - intros i k v p Hi. rewrite E1 in Hi.
      destruct (Nat.lt_ge_cases i (length (threads s))) as [Hil|Hil].
      + rewrite nth_error_app1 in Hi by auto. eapply (set_fact_mono s s1 []); eauto. rewrite app_nil_r; auto.
      + rewrite nth_error_app2 in Hi by auto. destruct (i - length (threads s)) as [|[|?]]; simpl in Hi; try discriminate.
        inv Hi. rewrite (Ht _ _ _ eq_refl). simpl. auto.
  Qed.

  Lemma step_PresInv s l s' :
    WF s -> CapInv s -> PresInv s -> step c s l = Some s' -> wc_label l = true ->
    NoDup (map fst (setlog s')) -> PresInv s'.
  Proof.
    intros Hwf Hci Hpi Hs Hl Hnd.
    destruct l as [o|i| | |i]; simpl in Hs.
    - (* spawn *)
      destruct o; simpl in Hl; try discriminate; inv Hs;
        (eapply pres_spawn; [exact Hpi|simpl; rewrite ?app_nil_r; reflexivity..|intros k1 v1 p1 E; inv E; reflexivity]).
    - destruct (nth_error (threads s) i) as [[o p]|] eqn:Et; [|discriminate].
      pose proof (step_thread_setlog keqb zero _ _ _ _ _ _ Hs) as Esl. rewrite Esl in Hnd.
      assert (Hndk : NoDup (tkeys (threads s))) by (rewrite (pi_keys _ Hpi); apply NoDup_rev; exact Hnd).
      assert (Hfact : forall k v, o = OSet k v -> set_fact s k v p) by (intros k v ->; eapply pi_set; eauto).
      destruct Hwf as (Hfp & Hfi & Hst & Hth & Hpn).
      rewrite Forall_forall in Hth. destruct (Hth _ (nth_error_In _ _ Et)) as [Hok Hrf]. simpl in Hok, Hrf.
      assert (Hcap := ci_thr _ Hci). rewrite Forall_forall in Hcap.
      destruct (Hcap _ (nth_error_In _ _ Et)) as [Hop Hsw]. simpl in Hop, Hsw.
      assert (Hfr : forall (s1 : state) p1 e extra, (forall r, p <> PDone r) ->
                 pmaps s1 = pmaps s ++ e -> idxs s1 = idxs s -> setlog s1 = setlog s ->
                 threads s1 = upd i (o, p1) (threads s) ++ extra -> tkeys extra = [] ->
                 (forall k v, o = OSet k v -> set_fact s1 k v p1) -> PresInv s1)
        by (intros; eapply pres_frame; eauto).
      destruct p; simpl in Hs, Hok, Hrf.
      + (* PIdx *)
        destruct (okey o) as [k|] eqn:Ek; [|destruct o; simpl in *; discriminate].
        destruct (nth_error (idxs s) (findex s)) as [ix|] eqn:Ei; [|apply nth_error_None in Ei; lia].
        assert (Eix : hd [] (idxs s) = ix).
        { destruct (ci_idxs _ Hci) as [ix0 E0]. rewrite E0, (ci_findex _ Hci) in Ei. simpl in Ei. inv Ei. rewrite E0. reflexivity. }
        destruct (lookup keqb k ix) as [[|id']|] eqn:El; inv Hs;
          try (eapply (Hfr _ _ [] []); simpl; rewrite ?app_nil_r; try reflexivity; try discriminate;
               intros k1 v1 ->; simpl; auto; fail).
        eapply (Hfr _ _ [] []); simpl; rewrite ?app_nil_r; try reflexivity; try discriminate.
        intros k1 v1 ->. simpl in Ek. inv Ek. exfalso.
        destruct (pi_idx _ Hpi _ _ El) as (i' & v' & r & Hi').
        assert (i = i') by (eapply tkeys_inj; eauto). subst i'. rewrite Et in Hi'. discriminate.
      + specialize (Hfact). destruct o; simpl in Hok; try discriminate;
          try (inv Hs; eapply (Hfr _ _ [] []); simpl; rewrite ?app_nil_r; try reflexivity; discriminate).
        destruct (Hfact _ _ eq_refl).
      + destruct o; simpl in Hok; try discriminate; try (destruct (Hfact _ _ eq_refl));
          (destruct (nth_error (stacks s) s0) as [st|] eqn:Es; [|apply nth_error_None in Es; lia]);
          destruct (stk_peek id st); inv Hs;
          eapply (Hfr _ _ [] []); simpl; rewrite ?app_nil_r; try reflexivity; discriminate.
      + destruct (okey o) as [k|] eqn:Ek; [|destruct o; simpl in *; discriminate].
        destruct (nth_error (pmaps s) p) as [m|] eqn:Em; [|apply nth_error_None in Em; lia].
        destruct o; simpl in *; try discriminate; inv Hs;
          eapply (Hfr _ _ [] []); simpl; rewrite ?app_nil_r; try reflexivity; discriminate.
      + destruct o; simpl in *; discriminate.
      + destruct o; simpl in *; discriminate.
      + destruct o; simpl in Hok; try discriminate. destruct (Hfact _ _ eq_refl).
      + (* PFast *)
        destruct (cpmw s); [discriminate|]. destruct o; simpl in Hok; try discriminate.
        destruct (room c s) as [[p'|]|] eqn:Er; inv Hs.
        * destruct (room_cap _ _ Hci Er) as [E1 E2].
          eapply (Hfr _ _ [] []); simpl; rewrite ?app_nil_r; try reflexivity; try discriminate.
          intros k1 v1 _. simpl. auto.
        * eapply (Hfr _ _ [] []); simpl; rewrite ?app_nil_r; try reflexivity; try discriminate; intros; simpl; auto.
        * destruct Hpi; constructor; simpl; auto.
      + (* PSlow *)
        destruct (cpmw s || negb (cpmr s =? 0)); [discriminate|]. destruct o; simpl in Hok; try discriminate.
        destruct (room c s) as [r|] eqn:Er; [|inv Hs; destruct Hpi; constructor; simpl; auto].
        rewrite Hre in Hs. destruct r as [p'|].
        * inv Hs. destruct (room_cap _ _ Hci Er) as [E1 E2].
          eapply (Hfr _ _ [] []); simpl; rewrite ?app_nil_r; try reflexivity; try discriminate.
          intros k1 v1 _. simpl. auto.
        * unfold open_partition in Hs.
          destruct (nth_error (stacks s) (fparts s)) as [st|] eqn:Es; [|apply nth_error_None in Es; lia].
          inv Hs. eapply (Hfr _ _ [[]] [(OSweep, PSwBegin)]); simpl; try reflexivity; try discriminate.
          intros k1 v1 _. simpl. rewrite app_length. simpl.
          destruct (ci_stacks _ Hci) as (st0 & Est & Eents & Ectr).
          rewrite Est, (ci_fparts _ Hci) in Es. simpl in Es. inv Es. rewrite Ectr. split; auto. lia.
      + (* PWrite *)
        destruct o; simpl in Hok; try discriminate.
        destruct (nth_error (pmaps s) p) as [m|] eqn:Em; [|apply nth_error_None in Em; lia].
        inv Hs. destruct (Hfact _ _ eq_refl) as [Eid Hp]. subst id.
        destruct Hpi as [B1 B2 B3]. assert (Hlt := nth_error_lt _ _ _ Et).
        constructor; simpl.
        * rewrite (tkeys_upd _ _ _ _ _ Et). exact B1.
        * intros k1 id1 H. destruct (B2 _ _ H) as (i' & v' & r & Hi'). exists i', v', r.
          rewrite nth_error_upd_neq; auto. intros ->. rewrite Et in Hi'. discriminate.
        * intros j k1 v1 pj Hj. destruct (Nat.eq_dec i j) as [->|Hne].
          -- rewrite nth_error_upd_eq in Hj by auto. inv Hj. simpl. exists p. rewrite upd_length.
             repeat split; auto. rewrite nth_upd_eq by auto. apply lookup_aset_eq; auto.
          -- rewrite nth_error_upd_neq in Hj by auto.
             assert (Hk : k <> k1).
             { intros ->. apply Hne. eapply tkeys_inj; eauto. }
             specialize (B3 _ _ _ _ Hj). destruct pj; simpl in *; auto; rewrite ?upd_length; auto.
             ++ destruct B3 as (p' & H1 & H2 & H3). exists p'. rewrite lookup_nth_upd_neq; auto.
             ++ destruct B3 as (p' & H1 & H2 & H3). exists p'. rewrite lookup_nth_upd_neq; auto.
      + (* PIndex *)
        destruct o; simpl in Hok; try discriminate. simpl in Hs.
        destruct (nth_error (idxs s) (findex s)) as [ix|] eqn:Ei; [|apply nth_error_None in Ei; lia].
        destruct (ci_idxs _ Hci) as [ix0 E0]. rewrite E0, (ci_findex _ Hci) in Ei. simpl in Ei. inv Ei.
        inv Hs. rewrite (ci_findex _ Hci), E0. simpl.
        destruct (Hfact _ _ eq_refl) as (p' & Eid & Hp & Hlk). subst id.
        destruct Hpi as [B1 B2 B3]. assert (Hlt := nth_error_lt _ _ _ Et). rewrite E0 in B2. simpl in B2.
        constructor; simpl.
        * rewrite (tkeys_upd _ _ _ _ _ Et). exact B1.
        * intros k1 id1 H. destruct (keqb_spec k k1) as [<-|Hk].
          -- exists i, v, RUnit. apply nth_error_upd_eq; auto.
          -- rewrite lookup_aset_neq in H by auto. destruct (B2 _ _ H) as (i' & v' & r & Hi'). exists i', v', r.
             rewrite nth_error_upd_neq; auto. intros ->. rewrite Et in Hi'. discriminate.
        * intros j k1 v1 pj Hj. destruct (Nat.eq_dec i j) as [->|Hne].
          -- rewrite nth_error_upd_eq in Hj by auto. inv Hj. simpl. exists p'.
             repeat split; auto. apply lookup_aset_eq; auto.
          -- rewrite nth_error_upd_neq in Hj by auto.
             assert (Hk : k <> k1).
             { intros ->. apply Hne. eapply tkeys_inj; eauto. }
             specialize (B3 _ _ _ _ Hj). destruct pj; simpl in *; auto.
             rewrite E0 in B3. simpl in B3.
             destruct B3 as (p2 & H1 & H2 & H3). exists p2. rewrite lookup_aset_neq by auto. auto.
      + (* PSwBegin *)
        destruct (swm s || cpmw s); [discriminate|].
        destruct (nth_error (stacks s) (fparts s)) as [st|] eqn:Es; [|apply nth_error_None in Es; lia].
        inv Hs. eapply (Hfr _ _ [] []); simpl; rewrite ?app_nil_r; try reflexivity; try discriminate.
        intros k1 v1 ->; discriminate.
      + rewrite (Hsw n eq_refl) in Hs. inv Hs.
        eapply (Hfr _ _ [] []); simpl; rewrite ?app_nil_r; try reflexivity; try discriminate.
        intros k1 v1 ->; discriminate.
      + destruct o; simpl in *; discriminate.
      + destruct o; simpl in *; discriminate.
      + destruct o; simpl in *; discriminate.
      + destruct (tick s); [|discriminate]. inv Hs.
        eapply (Hfr _ _ [] []); simpl; rewrite ?app_nil_r; try reflexivity; try discriminate.
        intros k1 v1 ->; discriminate.
      + discriminate.
    - inv Hs. destruct Hpi; constructor; simpl; auto.
    - inv Hs. destruct Hpi; constructor; simpl; auto.
    - destruct (nth_error (threads s) i) as [[o p]|] eqn:Et; [|discriminate].
      destruct o; try discriminate. destruct p; try discriminate.
      destruct (cancelled s); [|discriminate]. inv Hs.
      eapply (pres_frame _ _ _ _ _ _ [] [] Hpi Et); simpl; rewrite ?app_nil_r; try reflexivity; discriminate.
  Qed.
  (* ---------- every schedule ---------- *)
  Definition set_arg (l : @label K V) : list (K * V) := match l with LSpawn (OSet k v) => [(k, v)] | _ => [] end.
  Definition set_args (ls : list (@label K V)) : list (K * V) := flat_map set_arg ls.

  Lemma step_setlog_ext s l s' : step c s l = Some s' -> setlog s' = set_arg l ++ setlog s.
  Proof.
    intros Hs. destruct l as [o|i| | |i]; simpl in Hs.
    - destruct o; inv Hs; reflexivity.
    - destruct (nth_error (threads s) i) as [[o p]|]; [|discriminate].
      apply (step_thread_setlog keqb zero _ _ _ _ _ _ Hs).
    - inv Hs; reflexivity.
    - inv Hs; reflexivity.
    - break_all. reflexivity.
  Qed.

  Lemma run_setlog_ext ls : forall s s', run c s ls = Some s' -> setlog s' = rev (set_args ls) ++ setlog s.
  Proof.
    induction ls as [|l t IH]; intros s s' Hr; simpl in Hr; [inv Hr; reflexivity|].
    destruct (step c s l) as [s1|] eqn:E; [|discriminate].
    rewrite (IH _ _ Hr), (step_setlog_ext _ _ _ E). unfold set_args. simpl. fold (set_args t).
    rewrite rev_app_distr, <- app_assoc. f_equal.
    destruct l as [[]| | | |]; reflexivity.
  Qed.

  Lemma run_CapInv ls : forall s s',
    WF s -> CapInv s -> run c s ls = Some s' -> forallb wc_label ls = true ->
    length (setlog s') <= maxP c * capC c -> WF s' /\ CapInv s'.
  Proof.
    induction ls as [|l t IH]; intros s s' Hwf Hci Hr Hl Hlen; simpl in *; [inv Hr; auto|].
    destruct (step c s l) as [s1|] eqn:E; [|discriminate].
    apply andb_prop in Hl. destruct Hl as [Hl Ht].
    assert (Hlen1 : length (setlog s1) <= maxP c * capC c).
    { rewrite (run_setlog_ext _ _ _ Hr), app_length in Hlen. lia. }
    apply (IH s1 s'); auto.
    - eapply step_WF; eauto. 
    - eapply step_CapInv; eauto.
  Qed.

  Lemma run_PresInv ls : forall s s',
    WF s -> CapInv s -> PresInv s -> run c s ls = Some s' -> forallb wc_label ls = true ->
    length (setlog s') <= maxP c * capC c -> NoDup (map fst (setlog s')) -> PresInv s'.
  Proof.
    induction ls as [|l t IH]; intros s s' Hwf Hci Hpi Hr Hl Hlen Hnd; simpl in *; [inv Hr; auto|].
    destruct (step c s l) as [s1|] eqn:E; [|discriminate].
    apply andb_prop in Hl. destruct Hl as [Hl Ht].
    assert (Hlen1 : length (setlog s1) <= maxP c * capC c).
    { rewrite (run_setlog_ext _ _ _ Hr), app_length in Hlen. lia. }
    assert (Hnd1 : NoDup (map fst (setlog s1))).
    { rewrite (run_setlog_ext _ _ _ Hr), map_app in Hnd. eapply NoDup_app_r; eauto. }
    apply (IH s1 s'); auto.
    - eapply step_WF; eauto.
    - eapply step_CapInv; eauto.
    - eapply step_PresInv; eauto.
  Qed.

  Lemma map_fst_ents_of m : map fst (ents_of m) = seq 1 m.
  Proof. unfold ents_of. rewrite map_map. simpl. rewrite <- seq_shift. reflexivity. Qed.

  (* After fix F15, for EVERY schedule without Delete/Clear in which at most maxP*capC Sets are called (any number of
     Get/Contains/Sweep calls, ticks, the ticker, cancellation, interleaved in any way):
       - no partition is ever evicted: the stack holds exactly the partitions with ids 1..ctr, all ever opened,
         and there are at most maxP of them;
       - if moreover the keys of the Sets are pairwise distinct, every Set that has returned is visible: Get k on
         that state yields its value and Keys() contains k. *)
  Theorem cache_within_capacity ls s :
    run c init ls = Some s -> forallb wc_label ls = true ->
    length (set_args ls) <= maxP c * capC c ->
    (exists st, stacks s = [st] /\ fparts s = 0 /\ map fst (ents st) = seq 1 (ctr st)
                /\ ctr st = length (pmaps s) /\ ctr st <= maxP c)
    /\ (NoDup (map fst (set_args ls)) ->
        forall i k v r, nth_error (threads s) i = Some (OSet k v, PDone r) ->
                        get_now keqb zero s k = v /\ In k (keys_now s)).
  Proof.
    intros Hr Hl Hlen.
    assert (Esl : setlog s = rev (set_args ls)).
    { rewrite (run_setlog_ext _ _ _ Hr). simpl. apply app_nil_r. }
    assert (Hlen' : length (setlog s) <= maxP c * capC c) by (rewrite Esl, rev_length; exact Hlen).
    destruct (run_CapInv ls _ _ (WF_init) CapInv_init Hr Hl Hlen') as [Hwf Hci].
    split.
    - destruct (ci_stacks _ Hci) as (st & Est & Eents & Ectr). exists st.
      repeat split; auto.
      + apply (ci_fparts _ Hci).
      + rewrite Eents, Ectr. apply map_fst_ents_of.
      + rewrite Ectr. apply (ci_max _ Hci).
    - intros Hnd i k v r Hi.
      assert (Hnd' : NoDup (map fst (setlog s))) by (rewrite Esl, map_rev; apply NoDup_rev; exact Hnd).
      pose proof (run_PresInv ls _ _ WF_init CapInv_init PresInv_init Hr Hl Hlen' Hnd') as Hpi.
      destruct (pi_set _ Hpi _ _ _ _ Hi) as (p' & Hix & Hp & Hlk).
      destruct (ci_stacks _ Hci) as (st & Est & Eents & Ectr).
      destruct (ci_idxs _ Hci) as (ix & Eix). rewrite Eix in Hix. simpl in Hix.
      split.
      + unfold get_now. rewrite Eix, Est, (ci_findex _ Hci), (ci_fparts _ Hci). simpl. rewrite Hix.
        unfold stk_peek. rewrite Eents, peek_ents_of. destruct (Nat.ltb_spec p' (length (pmaps s))); [|lia].
        rewrite Hlk. reflexivity.
      + unfold keys_now, live_parts. rewrite Est, (ci_fparts _ Hci). simpl. rewrite Eents.
        apply in_flat_map. exists (nth p' (pmaps s) []). split.
        * apply in_map_iff. exists (S p', p'). split; [reflexivity|].
          unfold ents_of. apply in_map_iff. exists p'. split; auto. apply in_seq. lia.
        * apply in_map_iff. exists (k, v). split; auto. eapply lookup_In; eauto.
  Qed.
End Cap.
