(* Proofs for Model/MapOps.v: insertion sort satisfies the sort contract for every strict weak order;
   any sorter satisfying the contract yields an admissible result; the executable monitor accepts
   exactly the admissible results. *)
From Coq Require Import List Bool Arith Sorted Permutation Lia.
From TC.Lib Require Import Assoc AssocProofs.
From TC.Model Require Import MapOps.
Import ListNotations.

Section Sorting.
  Context {P : Type}.
  Variable less : P -> P -> bool.
  (* strict weak order, as sort.Sort requires of Less *)
  Hypothesis less_asym : forall x y, less x y = true -> less y x = false.
  Hypothesis less_ntrans : forall x y z, less y x = false -> less z y = false -> less z x = false.

  Lemma ins_perm x l : Permutation (ins less x l) (x :: l).
  Proof.
    induction l as [|y t IH]; simpl; [apply Permutation_refl|].
    destruct (less y x); [|apply Permutation_refl].
    eapply Permutation_trans; [apply perm_skip, IH|apply perm_swap].
  Qed.

  Lemma isort_perm l : Permutation (isort less l) l.
  Proof.
    induction l as [|x t IH]; simpl; [constructor|].
    eapply Permutation_trans; [apply ins_perm|apply perm_skip, IH].
  Qed.

  Lemma ins_sorted x l :
    StronglySorted (fun a b => less b a = false) l -> StronglySorted (fun a b => less b a = false) (ins less x l).
  Proof using less_asym less_ntrans.
    induction l as [|y t IH]; simpl; intros H.
    - constructor; constructor.
    - inversion H as [|? ? Hs Hf]; subst. destruct (less y x) eqn:E.
      + constructor; [apply IH, Hs|].
        rewrite Forall_forall. intros z Hz.
        apply (Permutation_in _ (ins_perm x t)) in Hz. destruct Hz as [<- | Hz].
        * apply less_asym, E.
        * rewrite Forall_forall in Hf. apply Hf, Hz.
      + constructor; [exact H|]. constructor; [exact E|].
        rewrite Forall_forall in *. intros z Hz. apply (less_ntrans x y z); [exact E|apply Hf, Hz].
  Qed.

  Lemma isort_sorted l : StronglySorted (fun a b => less b a = false) (isort less l).
  Proof using less_asym less_ntrans. induction l as [|x t IH]; simpl; [constructor|apply ins_sorted, IH]. Qed.

  Lemma isort_contract : sort_contract less (isort less).
  Proof using less_asym less_ntrans. intros l. split; [apply isort_perm|apply isort_sorted]. Qed.
End Sorting.

Lemma SS_map {A B} (R : B -> B -> Prop) (f : A -> B) l :
  StronglySorted R (map f l) <-> StronglySorted (fun a b => R (f a) (f b)) l.
Proof.
  induction l as [|x t IH]; simpl; [split; constructor|]. split; intros H; inversion H; subst; constructor.
  - apply IH; assumption.
  - rewrite Forall_forall in *. intros y Hy. auto using in_map.
  - apply IH; assumption.
  - rewrite Forall_forall in *. intros y Hy. apply in_map_iff in Hy. destruct Hy as [z [<- Hz]]. auto.
Qed.

Section MapOps.
  Context {K V : Type}.
  Variable keqb : K -> K -> bool.
  Variable ltb : V -> V -> bool.
  Hypothesis keqb_spec : forall x y, reflect (x = y) (keqb x y).
  Hypothesis ltb_asym : forall x y, ltb x y = true -> ltb y x = false.
  Hypothesis ltb_ntrans : forall x y z, ltb y x = false -> ltb z y = false -> ltb z x = false.

  Notation pair_less := (@pair_less K V ltb).
  Notation rev_less := (@rev_less K V ltb).

  Lemma admissible_perm (le : V -> V -> Prop) (m m' : list (K * V)) out :
    Permutation m m' -> admissible le m out -> admissible le m' out.
  Proof.
    intros Hp [ps [H1 [H2 H3]]]. exists ps. split; [|split; assumption].
    eapply Permutation_trans; eassumption.
  Qed.

  Lemma any_sorter_asc sorter (m it : list (K * V)) :
    sort_contract pair_less sorter -> Permutation m it -> admissible (le_asc ltb) m (sort_keys_with sorter it).
  Proof.
    intros C Hp. destruct (C it) as [Hperm Hs]. exists (sorter it). split; [|split].
    - eapply Permutation_trans; [exact Hperm|apply Permutation_sym, Hp].
    - reflexivity.
    - exact Hs.
  Qed.

  Lemma any_sorter_desc sorter (m it : list (K * V)) :
    sort_contract rev_less sorter -> Permutation m it -> admissible (le_desc ltb) m (sort_keys_with sorter it).
  Proof.
    intros C Hp. destruct (C it) as [Hperm Hs]. exists (sorter it). split; [|split].
    - eapply Permutation_trans; [exact Hperm|apply Permutation_sym, Hp].
    - reflexivity.
    - exact Hs.
  Qed.

  Lemma pair_less_contract : sort_contract pair_less (isort pair_less).
  Proof using ltb_asym ltb_ntrans.
    apply isort_contract; unfold MapOps.pair_less.
    - intros x y. apply ltb_asym.
    - intros x y z. apply ltb_ntrans.
  Qed.

  Lemma rev_less_contract : sort_contract rev_less (isort rev_less).
  Proof using ltb_asym ltb_ntrans.
    apply isort_contract; unfold MapOps.rev_less, MapOps.pair_less.
    - intros x y. apply ltb_asym.
    - intros x y z H1 H2. apply (ltb_ntrans (snd z) (snd y) (snd x)); assumption.
  Qed.

  Lemma asc_model (m it : list (K * V)) : Permutation m it -> admissible (le_asc ltb) m (sort_asc_keys ltb it).
  Proof using ltb_asym ltb_ntrans. apply any_sorter_asc, pair_less_contract. Qed.

  Lemma desc_model (m it : list (K * V)) : Permutation m it -> admissible (le_desc ltb) m (sort_desc_keys ltb it).
  Proof using ltb_asym ltb_ntrans. apply any_sorter_desc, rev_less_contract. Qed.

  (* consequences of admissibility in API terms *)
  Lemma admissible_keys le (m : list (K * V)) out :
    admissible le m out -> Permutation out (keys m) /\ length out = length m.
  Proof.
    intros [ps [Hp [-> _]]]. split.
    - apply Permutation_map, Hp.
    - rewrite map_length. apply Permutation_length, Hp.
  Qed.

  Lemma admissible_values le (m : list (K * V)) out :
    NoDup (keys m) -> admissible le m out ->
    forall i j ki kj vi vj, i < j -> nth_error out i = Some ki -> nth_error out j = Some kj ->
      lookup keqb ki m = Some vi -> lookup keqb kj m = Some vj -> le vi vj.
  Proof using keqb_spec.
    intros Hnd [ps [Hp [-> Hs]]] i j ki kj vi vj Hij Hi Hj Li Lj.
    rewrite nth_error_map in Hi, Hj.
    destruct (nth_error ps i) as [[ki' vi']|] eqn:Ei; [|discriminate].
    destruct (nth_error ps j) as [[kj' vj']|] eqn:Ej; [|discriminate].
    simpl in Hi, Hj. injection Hi as ->. injection Hj as ->.
    assert (vi' = vi).
    { apply nth_error_In in Ei. apply (Permutation_in _ Hp) in Ei.
      apply (In_lookup keqb keqb_spec _ _ _ Hnd) in Ei. congruence. }
    assert (vj' = vj).
    { apply nth_error_In in Ej. apply (Permutation_in _ Hp) in Ej.
      apply (In_lookup keqb keqb_spec _ _ _ Hnd) in Ej. congruence. }
    subst.
    (* strongly sorted: element i related to element j for i < j *)
    clear Hp Li Lj Hnd. revert i j Hij Ei Ej. induction Hs as [|a l Hs IH Hf]; intros i j Hij Ei Ej.
    - destruct i; discriminate.
    - destruct j; [lia|]. destruct i; simpl in *.
      + injection Ei as Ea. subst a. rewrite Forall_forall in Hf. apply (Hf (kj, vj)). eapply nth_error_In, Ej.
      + apply (IH i j); [lia|assumption|assumption].
  Qed.

  (* the monitor *)
  Lemma kmem_In k l : kmem keqb k l = true <-> In k l.
  Proof using keqb_spec.
    induction l as [|x t IH]; simpl; [split; [discriminate|tauto]|].
    rewrite orb_true_iff, IH. destruct (keqb_spec k x); split; intros [H|H]; auto; congruence.
  Qed.

  Lemma knodup_NoDup l : knodup keqb l = true <-> NoDup l.
  Proof using keqb_spec.
    induction l as [|x t IH]; simpl; [split; [constructor|reflexivity]|].
    rewrite andb_true_iff, negb_true_iff, IH. split.
    - intros [H1 H2]. constructor; [|assumption]. rewrite <- kmem_In. congruence.
    - intros H. inversion H; subst. split; [|assumption].
      destruct (kmem keqb x t) eqn:E; [|reflexivity]. apply kmem_In in E. contradiction.
  Qed.

  Lemma adj_sorted_Sorted (le : V -> V -> bool) vs :
    adj_sorted le vs = true <-> Sorted (fun a b => le a b = true) vs.
  Proof.
    induction vs as [|a t IH]; [split; [constructor|reflexivity]|].
    change (adj_sorted le (a :: t)) with (match t with b :: _ => le a b | [] => true end && adj_sorted le t).
    rewrite andb_true_iff, IH. split.
    - intros [H1 H2]. constructor; [assumption|]. destruct t; constructor. assumption.
    - intros H. inversion H as [|? ? Hs Hh]; subst. split; [|assumption].
      destruct t; [reflexivity|]. inversion Hh; assumption.
  Qed.

  Lemma values_of_spec (m : list (K * V)) out vs :
    values_of keqb m out = Some vs ->
    length vs = length out /\ map fst (combine out vs) = out /\ map snd (combine out vs) = vs
    /\ forall p, In p (combine out vs) -> In p m.
  Proof using keqb_spec.
    revert vs. induction out as [|k t IH]; simpl; intros vs H.
    - injection H as <-. simpl. repeat split. intros p [].
    - destruct (lookup keqb k m) as [v|] eqn:L; [|discriminate].
      destruct (values_of keqb m t) as [vs'|] eqn:E; [|discriminate].
      injection H as <-. destruct (IH vs' eq_refl) as [H1 [H2 [H3 H4]]]. simpl.
      repeat split; try congruence.
      intros p [<- | Hp]; [apply (lookup_In keqb keqb_spec), L|apply H4, Hp].
  Qed.

  Lemma values_of_perm (m ps : list (K * V)) :
    NoDup (keys m) -> (forall p, In p ps -> In p m) -> values_of keqb m (map fst ps) = Some (map snd ps).
  Proof using keqb_spec.
    intros Hnd. induction ps as [|[k v] t IH]; simpl; intros Hin; [reflexivity|].
    rewrite (In_lookup keqb keqb_spec k v m Hnd) by (apply Hin; auto).
    rewrite IH by (intros p Hp; apply Hin; auto). reflexivity.
  Qed.

  Lemma monitor_iff (leb : V -> V -> bool) (m : list (K * V)) out :
    (forall x y z, leb x y = true -> leb y z = true -> leb x z = true) ->
    NoDup (keys m) ->
    (sorted_keys_ok keqb leb m out = true <-> admissible (fun a b => leb a b = true) m out).
  Proof using keqb_spec.
    intros Htr Hnd. unfold sorted_keys_ok. split.
    - rewrite !andb_true_iff. intros [[Hlen Hnd'] Hs].
      destruct (values_of keqb m out) as [vs|] eqn:E; [|discriminate].
      destruct (values_of_spec m out vs E) as [H1 [H2 [H3 H4]]].
      exists (combine out vs). split; [|split].
      + apply NoDup_Permutation_bis.
        * apply (NoDup_map_inv fst). rewrite H2. apply knodup_NoDup, Hnd'.
        * rewrite combine_length, H1, Nat.min_id. apply Nat.eqb_eq in Hlen. lia.
        * exact H4.
      + symmetry. exact H2.
      + apply (SS_map (fun a b => leb a b = true) snd). rewrite H3.
        apply Sorted_StronglySorted; [exact Htr|]. apply adj_sorted_Sorted, Hs.
    - intros [ps [Hp [-> Hs]]].
      rewrite (values_of_perm m ps Hnd) by (intros p; apply Permutation_in, Hp).
      rewrite !andb_true_iff. split; [split|].
      + rewrite map_length. apply Nat.eqb_eq, Permutation_length, Hp.
      + apply knodup_NoDup. eapply Permutation_NoDup; [|exact Hnd].
        apply Permutation_sym, Permutation_map, Hp.
      + apply adj_sorted_Sorted, StronglySorted_Sorted. apply (SS_map (fun a b => leb a b = true) snd) in Hs. exact Hs.
  Qed.

  Lemma asc_ok_iff (m : list (K * V)) out :
    NoDup (keys m) -> (asc_ok keqb ltb m out = true <-> admissible (le_asc ltb) m out).
  Proof using keqb_spec ltb_ntrans.
    intros Hnd. unfold asc_ok. rewrite monitor_iff; [| |exact Hnd].
    - unfold admissible, le_asc. split; intros [ps [H1 [H2 H3]]]; exists ps; (split; [assumption|split; [assumption|]]);
        eapply StronglySorted_ind; try eassumption; try constructor; auto;
        rewrite Forall_forall in *; intros q Hq; specialize (H4 q Hq); simpl in *;
        [apply negb_true_iff in H4 | apply negb_true_iff]; assumption.
    - intros x y z. rewrite !negb_true_iff. intros. eapply ltb_ntrans; eassumption.
  Qed.

  Lemma desc_ok_iff (m : list (K * V)) out :
    NoDup (keys m) -> (desc_ok keqb ltb m out = true <-> admissible (le_desc ltb) m out).
  Proof using keqb_spec ltb_ntrans.
    intros Hnd. unfold desc_ok. rewrite monitor_iff; [| |exact Hnd].
    - unfold admissible, le_desc. split; intros [ps [H1 [H2 H3]]]; exists ps; (split; [assumption|split; [assumption|]]);
        eapply StronglySorted_ind; try eassumption; try constructor; auto;
        rewrite Forall_forall in *; intros q Hq; specialize (H4 q Hq); simpl in *;
        [apply negb_true_iff in H4 | apply negb_true_iff]; assumption.
    - intros x y z. rewrite !negb_true_iff. intros H1 H2. apply (ltb_ntrans z y x); assumption.
  Qed.
End MapOps.
