(* The HAND-WRITTEN footprints of Model/CacheConc.v (on which C08_partial_race_free_core rests) against the
   skeleton GENERATED from storage/fifoMapCache.go (Gen/CacheSkeleton_gen.v), at the level of the cache's own
   fields and its two mutexes (object internals — OStack/OPmap/OIdx — are GenericStack's / SafeMap's own locking):

   * [footprints_in_source]: for EVERY state and EVERY pc, every field access the model declares (location,
     read/write, locks held with their mode) occurs in the generated skeleton: same field, same read/write,
     same set of held locks — the model does not claim a lock the source does not take;
   * [source_in_footprints]: conversely, every field access the translator found in the methods the model has
     as threads (Get, Contains, Set — which contains the private getCurrentPartition —, Delete, Sweep, Clear) is declared by
     some pc with the same held locks (a declared write also accounts for a read) — the model does not forget
     an access.  Keys/Values/Len/Capacity/Resize are not threads of the model (notes/C08.md). *)
From Coq Require Import List String Bool Arith.
From TC.Lib Require Import Conc LocksetDiag.
From TC.Model Require Import CacheConc.
From TC.Gen Require Import CacheSkeleton_gen.
Import ListNotations.
Local Open Scope string_scope.
Local Open Scope list_scope.

Definition field_name (l : CacheConc.loc) : option string :=
  match l with
  | FParts => Some "partitions" | FIndex => Some "valuePartitionIndex" | FCur => Some "currentPartitionId"
  | FMaxP => Some "maxPartitions" | FCapC => Some "partitionCapacity"
  | _ => None
  end.
Definition lock_name (m : CacheConc.lock * bool) : list (string * mode) :=
  match fst m with
  | MCpm => [("currentPartitionMux", if snd m then Wr else Rd)]
  | MSwm => [("sweepingMux", if snd m then Wr else Rd)]
  | _ => []
  end.

(* (field, write?, locks of the cache held) *)
Definition facc := (string * bool * list (string * mode))%type.
Definition field_part (l : list CacheConc.access) : list facc :=
  flat_map (fun a => match field_name (aloc a) with
                     | Some f => [(f, awr a, flat_map lock_name (aheld a))]
                     | None => []
                     end) l.

Definition lm_eqb (x y : string * mode) : bool := String.eqb (fst x) (fst y) && mode_eqb (snd x) (snd y).
Definition held_eqb (h1 h2 : list (string * mode)) : bool :=
  forallb (fun x => existsb (lm_eqb x) h2) h1 && forallb (fun y => existsb (lm_eqb y) h1) h2.

(* the skeleton has a section with exactly these locks that contains the access *)
Definition in_skeleton (sk : skeleton) (a : facc) : bool :=
  existsb (fun ns => match snd ns with
                     | Sec h accs => held_eqb (snd a) h
                                     && existsb (fun x => String.eqb (Conc.loc x) (fst (fst a)) && Bool.eqb (Conc.wr x) (snd (fst a))) accs
                     | Unknown => false
                     end) (named_sections sk).

Section Footprints.
  Context {K V : Type}.
  Notation state := (@CacheConc.state K V).
  Notation pc := (@CacheConc.pc V).

  (* one representative per constructor: the field-level part of a footprint depends on nothing else *)
  Definition rep (p : pc) : pc :=
    match p with
    | PRdParts _ => PRdParts 0 | PPeek _ _ => PPeek 0 0 | PRead _ => PRead 0 | PDel _ => PDel 0
    | PInPlace _ => PInPlace 0 | PWrite _ _ => PWrite 0 0 | PIndex _ => PIndex 0
    | PSwPop (S _) => PSwPop 1 | PDone _ => PTkWait
    | p' => p'
    end.
  Definition rep_pcs : list pc :=
    [PIdx; PRdParts 0; PPeek 0 0; PRead 0; PDel 0; PDelIdx; PInPlace 0; PFast; PSlow; PWrite 0 0; PIndex 0;
     PSwBegin; PSwPop 1; PSwPop 0; PCl1; PCl2; PCl3; PTkWait].

  Lemma rep_in p : In (rep p) rep_pcs.
  Proof. destruct p as [| | | | | | | | | | | |[|n]| | | | |]; simpl; auto 20. Qed.

  Lemma field_part_app a b : field_part (a ++ b) = field_part a ++ field_part b.
  Proof. unfold field_part. apply flat_map_app. Qed.

  Lemma field_part_rep (s : state) (p : pc) : field_part (footprint s p) = field_part (footprint (@init K V) (rep p)).
  Proof.
    destruct p as [| | | | | | | | | | | |[|n]| | | | |]; try reflexivity.
    - (* PFast *) simpl. destruct (nth_error (stacks s) (fparts s)) as [st|]; [destruct (stk_peek (cur s) st)|]; reflexivity.
    - (* PSlow *) simpl. destruct (nth_error (stacks s) (fparts s)) as [st|]; [destruct (stk_peek (cur s) st)|]; reflexivity.
  Qed.

  Definition model_faccs : list facc := flat_map (fun p => field_part (footprint (@init K V) p)) rep_pcs.
End Footprints.

(* the methods of the source that the model has as threads *)
Definition modelled_methods : list string := ["Get"; "Contains"; "Set"; "Delete"; "Sweep"; "Clear"].

Definition source_faccs : list facc :=
  flat_map (fun ns => if existsb (String.eqb (fst ns)) modelled_methods
                      then match snd ns with
                           | Sec h accs => map (fun x => (Conc.loc x, Conc.wr x, h)) accs
                           | Unknown => [("?", true, [])]
                           end
                      else []) (named_sections cache_skeleton).

(* a declared access accounts for a source access: same field, same locks, and write covers read *)
Definition covered_by_model (a : facc) : bool :=
  existsb (fun m => String.eqb (fst (fst m)) (fst (fst a)) && held_eqb (snd m) (snd a)
                    && (snd (fst m) || negb (snd (fst a)))) (@model_faccs nat nat).

Theorem footprints_in_source {K V} (s : @CacheConc.state K V) (p : @CacheConc.pc V) (a : facc) :
  In a (field_part (footprint s p)) -> in_skeleton cache_skeleton a = true.
Proof.
  rewrite field_part_rep. intros Hin.
  assert (H : forallb (in_skeleton cache_skeleton) (@model_faccs K V) = true) by (vm_compute; reflexivity).
  rewrite forallb_forall in H. apply H. unfold model_faccs. apply in_flat_map. exists (rep p). split; [apply rep_in|exact Hin].
Qed.

Theorem source_in_footprints : forallb covered_by_model source_faccs = true.
Proof. vm_compute. reflexivity. Qed.

(* non-vacuity: there is something to compare on both sides *)
Eval vm_compute in (List.length (@model_faccs nat nat), List.length source_faccs).

Print Assumptions footprints_in_source.
Print Assumptions source_in_footprints.
