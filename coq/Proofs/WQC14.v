(* C14: error fan-out accounting for the (fixed) work-queue model. *)
From Coq Require Import List Arith ZArith Bool Lia.
From TC.Lib Require Import GoHeap GoHeapProofs.
From TC.Model Require Import WQ.
From TC.Proofs Require Import WQHeap WQInv WQCons.
Import ListNotations.

(* deliveries of error e to subscriber sub *)
Fixpoint ndeliv (sub e : nat) (tr : list event) : nat :=
  match tr with
  | [] => 0
  | EvErr s0 (Some e0) :: r => (if (s0 =? sub) && (e0 =? e) then 1 else 0) + ndeliv sub e r
  | _ :: r => ndeliv sub e r
  end.
(* fan-outs of e that include sub *)
Fixpoint nsent (sub e : nat) (tr : list event) : nat :=
  match tr with
  | [] => 0
  | EvSent _ e0 to :: r => (if e0 =? e then cntn sub to else 0) + nsent sub e r
  | _ :: r => nsent sub e r
  end.
(* the part of the current fan-out still owed to sub *)
Definition pending (sub e : nat) (s : state) : nat :=
  match mon s with
  | MFan (Some e0) rest => if e0 =? e then cntn sub rest else 0
  | _ => 0
  end.

Definition fan_inv (s : state) : Prop :=
  forall sub e, ndeliv sub e (trace s) + pending sub e s = nsent sub e (trace s).

Lemma fan_step s l s' : fan_inv s -> step fixed s l = Some s' -> fan_inv s'.
Proof.
  intros Hf H. step_inv H; intros sub0 e0; specialize (Hf sub0 e0); unfold pending in *; unset;
    repeat match goal with
      | D : decide _ _ _ = Some _ |- _ => apply decide_frame in D; destruct D as (? & ->); unset
      | E : mon s = _ |- _ => rewrite E in *; clear E
      end;
    cbn [ndeliv nsent mon set_mon] in *; try assumption; try lia.
  - (* ErrRecv *)
    apply Nat.eqb_eq in Heqb0. subst n. destruct e as [e1|]; cbn [cntn] in Hf.
    + destruct l; cbn [cntn]; destruct (Nat.eqb_spec sub sub0), (Nat.eqb_spec e1 e0); cbn [andb cntn] in *; lia.
    + destruct l; exact Hf.
  - (* WSendErr *)
    destruct (subs s) eqn:Es; cbn [cntn]; destruct (n =? e0); lia.
  - (* MRecvClosed *)
    destruct (subs s); lia.
Qed.

Theorem fan_reach s : reach fixed s -> fan_inv s.
Proof. induction 1; [intros sub e; reflexivity|eapply fan_step; eauto]. Qed.

(* subscribers are numbered in registration order: subs = 0 .. nextsub-1 *)
Lemma subs_step s l s' : subs s = seq 0 (nextsub s) -> step fixed s l = Some s' -> subs s' = seq 0 (nextsub s').
Proof.
  intros Hs H. step_inv H; unset;
    repeat match goal with D : decide _ _ _ = Some _ |- _ => apply decide_frame in D; destruct D as (? & ->); unset end;
    try assumption.
  rewrite seq_S, Hs. reflexivity.
Qed.
Theorem subs_reach s : reach fixed s -> subs s = seq 0 (nextsub s).
Proof. induction 1; [reflexivity|eapply subs_step; eauto]. Qed.

Lemma cntn_seq k n : cntn k (seq 0 n) = if k <? n then 1 else 0.
Proof.
  induction n as [|n IH]; [reflexivity|]. rewrite seq_S, cntn_app, IH. cbn [cntn plus].
  destruct (Nat.ltb_spec k n), (Nat.ltb_spec k (S n)), (Nat.eqb_spec n k); lia.
Qed.

(* every fan-out goes to the subscribers registered so far, each once; every EvSub precedes its subscriber's
   inclusion: trace invariant (older events are further right) *)
Definition sent_ok (tr : list event) : Prop :=
  forall t1 id e to t2, tr = t1 ++ EvSent id e to :: t2 ->
    (exists n, to = seq 0 n) /\ (forall sub, In (EvSub sub) t2 -> In sub to).

Lemma sub_events_step s l s' :
  (forall sub, In (EvSub sub) (trace s) -> In sub (subs s)) -> step fixed s l = Some s' ->
  (forall sub, In (EvSub sub) (trace s') -> In sub (subs s')).
Proof.
  intros Hs H. step_inv H; unset;
    repeat match goal with D : decide _ _ _ = Some _ |- _ => apply decide_frame in D; destruct D as (? & ->); unset end;
    try assumption; intros sub0 Hin; cbn [In] in Hin;
    repeat match goal with Hx : _ \/ _ |- _ => destruct Hx as [Hx|Hx]; try discriminate Hx end; auto.
  - injection Hin as <-. apply in_or_app. right. left. reflexivity.
  - apply in_or_app. left. auto.
Qed.
Theorem sub_events_reach s : reach fixed s -> forall sub, In (EvSub sub) (trace s) -> In sub (subs s).
Proof. induction 1; [intros sub []|eapply sub_events_step; eauto]. Qed.

Lemma sent_ok_cons e0 tr :
  sent_ok tr ->
  (forall id e to, e0 = EvSent id e to -> (exists n, to = seq 0 n) /\ (forall sub, In (EvSub sub) tr -> In sub to)) ->
  sent_ok (e0 :: tr).
Proof.
  intros Ht He t1 id e to t2 E. destruct t1 as [|a t1]; cbn in E; injection E as E1 E2.
  - subst. eapply He. reflexivity.
  - eapply Ht. exact E2.
Qed.

Lemma sent_ok_step s l s' :
  subs s = seq 0 (nextsub s) -> (forall sub, In (EvSub sub) (trace s) -> In sub (subs s)) ->
  sent_ok (trace s) -> step fixed s l = Some s' -> sent_ok (trace s').
Proof.
  intros Hsub Hev Hs H. step_inv H; unset;
    repeat match goal with D : decide _ _ _ = Some _ |- _ => apply decide_frame in D; destruct D as (? & ->); unset end;
    try assumption;
    repeat (apply sent_ok_cons; [|try (intros ? ? ? E; discriminate E)]); try assumption.
  intros id0 e1 to E. injection E as <- <- <-. split; [eauto|exact Hev].
Qed.
Theorem sent_ok_reach s : reach fixed s -> sent_ok (trace s).
Proof.
  induction 1 as [|s l s' R IH H]; [intros [|? ?] ? ? ? ? E; discriminate E|].
  eapply sent_ok_step; eauto using subs_reach, sub_events_reach.
Qed.

(* an error is fanned out only after a work function returned it *)
Definition origin_inv (s : state) : Prop :=
  (forall x e, In (x, e) (senderr s) -> In (EvDone (iid x) (Some e)) (trace s)) /\
  (forall id e to, In (EvSent id e to) (trace s) -> In (EvDone id (Some e)) (trace s)).

Lemma origin_step s l s' : origin_inv s -> step fixed s l = Some s' -> origin_inv s'.
Proof.
  intros [H1 H2] H. unfold origin_inv. step_inv H; unset;
    repeat match goal with
      | D : decide _ _ _ = Some _ |- _ => apply decide_frame in D; destruct D as (? & ->); unset
      | T : take_err _ _ = Some _ |- _ => apply take_err_spec in T; destruct T as (? & ? & _ & _ & _ & _ & ?)
      | T : take_item _ _ = Some _ |- _ => apply take_item_spec in T; destruct T as (? & _ & _ & _ & _)
      end;
    (split; [intros x0 e1 Hin|intros id0 e1 to Hin]); cbn [In] in *;
    try (apply in_app_or in Hin);
    repeat match goal with Hx : _ \/ _ |- _ => destruct Hx as [Hx|Hx]; try discriminate Hx end;
    try (right; eauto; fail); eauto.
  - destruct Hin as [E|[]]. injection E as <- <-. left. rewrite H. reflexivity.
  - right. injection Hin as <- <- <-. rewrite <- H. apply H1. exact H0.
Qed.
Theorem origin_reach s : reach fixed s -> origin_inv s.
Proof. induction 1; [split; [intros x e []|intros id e to []]|eapply origin_step; eauto]. Qed.

(* the monitor's state does not influence the dispatcher or any worker that holds no error: every label except
   WSendErr / ErrRecv / MCancel / MRecvClosed is enabled or not, and has the same effect, whatever the monitor does *)
Definition mon_label (l : label) : bool :=
  match l with WSendErr _ | ErrRecv _ | MCancel | MRecvClosed => true | _ => false end.

Lemma mon_independent s l m :
  mon_label l = false ->
  step fixed (set_mon m s) l = option_map (set_mon m) (step fixed s l).
Proof.
  intros Hl. destruct l; try discriminate Hl; unfold step; unset; cbn [panicked set_mon];
    destruct (panicked s); try reflexivity;
    unfold find_item, all_items, no_handoff, buffer_room, decide, do_panic, ev, map_items; unset;
    cbn [set_mon producers disp heap buffer tokens idle running senderr deleting posting wexited workitems removed
         dropped subs nextsub stopped breaked cancelled sem_closed wch_closed err_closed work_closed panicked done
         trace sW sL nextid nextseq set_tokens set_trace].
  all: try (repeat match goal with
              | |- context[match ?x with _ => _ end] =>
                  match x with
                  | context[set_mon] => fail 1
                  | _ => destruct x eqn:?
                  end
              | |- context[if ?x then _ else _] =>
                  match x with
                  | context[set_mon] => fail 1
                  | _ => destruct x eqn:?
                  end
              end; reflexivity).
Qed.
