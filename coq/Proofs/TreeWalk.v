(* Walk: the callback sees every node exactly once, in pre-order, with its depth.
   Nodes are identified by their position (list of child indices from the root). *)
From Coq Require Import List Bool Arith Lia Sorted.
From TC.Model Require Import Tree.
From TC.Proofs Require Import TreeProofs.
Import ListNotations.

Section TreeWalk.
  Context {A : Type}.
  Notation rtree := (rtree A).

  Section PosChildren.
    Variable f : rtree -> list (list nat).
    Fixpoint pos_children (i : nat) (cs : list rtree) : list (list nat) :=
      match cs with
      | [] => []
      | c :: t => map (cons i) (f c) ++ pos_children (S i) t
      end.
  End PosChildren.

  (* all positions of a tree, parent before children, children left to right *)
  Fixpoint positions (node : rtree) : list (list nat) :=
    match node with Node _ cs => [] :: pos_children positions 0 cs end.

  Fixpoint subtree_at (pos : list nat) (node : rtree) : option rtree :=
    match pos with
    | [] => Some node
    | i :: p => match nth_error (children node) i with Some c => subtree_at p c | None => None end
    end.

  (* what Walk must report for the node at [pos] when the root is at level l *)
  Definition label_at (node : rtree) (l : nat) (pos : list nat) : option (A * nat) :=
    match subtree_at pos node with Some s => Some (value s, l + length pos) | None => None end.

  (* pre-order = lexicographic order on positions, a proper prefix first *)
  Inductive lex_lt : list nat -> list nat -> Prop :=
  | lex_nil x t : lex_lt [] (x :: t)
  | lex_head i j p q : i < j -> lex_lt (i :: p) (j :: q)
  | lex_tail i p q : lex_lt p q -> lex_lt (i :: p) (i :: q).

  Lemma lex_irrefl p : ~ lex_lt p p.
  Proof. induction p as [|i p IH]; intros H; inversion H; subst; [lia|auto]. Qed.

  Lemma label_cons v cs l i p :
    label_at (Node v cs) l (i :: p) = match nth_error cs i with Some c => label_at c (S l) p | None => None end.
  Proof.
    unfold label_at. simpl. destruct (nth_error cs i) as [c|]; [|reflexivity].
    destruct (subtree_at p c); [|reflexivity]. do 2 f_equal. lia.
  Qed.

  Lemma walk_children v full l : forall cs i,
    Forall (fun c => forall l, map Some (walk_from l c) = map (label_at c l) (positions c)) cs ->
    (forall j c, nth_error cs j = Some c -> nth_error full (i + j) = Some c) ->
    map Some (flat_map (walk_from (S l)) cs) = map (label_at (Node v full) l) (pos_children positions i cs).
  Proof.
    induction cs as [|c t IHt]; intros i F Hn; simpl; [reflexivity|].
    inversion F as [|? ? Hc Ht]; subst. rewrite !map_app. f_equal.
    - rewrite Hc, map_map. apply map_ext. intros p. rewrite label_cons.
      rewrite <- (Nat.add_0_r i), (Hn 0 c eq_refl). reflexivity.
    - apply IHt; [exact Ht|]. intros j x Hj. replace (S i + j) with (i + S j) by lia. apply Hn. exact Hj.
  Qed.

  (* Walk reports, in order, exactly (value, depth) of the node at each position of [positions] *)
  Lemma walk_positions node : forall l, map Some (walk_from l node) = map (label_at node l) (positions node).
  Proof.
    induction node as [v cs IH] using rtree_ind'. intros l. simpl. f_equal.
    - unfold label_at. simpl. do 2 f_equal. lia.
    - apply walk_children; [exact IH|]. intros j c Hj. exact Hj.
  Qed.

  Lemma in_pos_children (f : rtree -> list (list nat)) cs : forall k pos,
    In pos (pos_children f k cs) <->
    exists i p c, pos = i :: p /\ k <= i /\ nth_error cs (i - k) = Some c /\ In p (f c).
  Proof.
    induction cs as [|c t IHt]; intros k pos; simpl.
    - split; [tauto|]. intros [i [p [c [_ [_ [H _]]]]]]. destruct (i - k); discriminate.
    - rewrite in_app_iff, in_map_iff, IHt. split.
      + intros [[p [<- Hp]] | [i [p [x [-> [Hk [Hn Hp]]]]]]].
        * exists k, p, c. rewrite Nat.sub_diag. auto.
        * exists i, p, x. split; [reflexivity|]. split; [lia|]. split; [|exact Hp].
          replace (i - k) with (S (i - S k)) by lia. exact Hn.
      + intros [i [p [x [-> [Hk [Hn Hp]]]]]]. destruct (Nat.eq_dec i k) as [-> | Hne].
        * rewrite Nat.sub_diag in Hn. injection Hn as <-. left. exists p. auto.
        * right. exists i, p, x. split; [reflexivity|]. split; [lia|]. split; [|exact Hp].
          replace (i - k) with (S (i - S k)) in Hn by lia. exact Hn.
  Qed.

  (* every node is listed: a position is in [positions] iff it denotes a node *)
  Lemma positions_complete node : forall pos, In pos (positions node) <-> subtree_at pos node <> None.
  Proof.
    induction node as [v cs IH] using rtree_ind'. intros pos. simpl. destruct pos as [|i p].
    - split; [discriminate|auto].
    - rewrite in_pos_children. simpl. split.
      + intros [E | [i' [p' [c [E [_ [Hn Hp]]]]]]]; [discriminate|]. injection E as <- <-.
        rewrite Nat.sub_0_r in Hn. rewrite Hn. rewrite Forall_forall in IH.
        apply (IH c (nth_error_In _ _ Hn)), Hp.
      + intros H. right. destruct (nth_error cs i) as [c|] eqn:Hn; [|congruence].
        exists i, p, c. rewrite Nat.sub_0_r. split; [reflexivity|]. split; [lia|]. split; [exact Hn|].
        rewrite Forall_forall in IH. apply (IH c (nth_error_In _ _ Hn)), H.
  Qed.

  Lemma SS_map_cons i l : StronglySorted lex_lt l -> StronglySorted lex_lt (map (cons i) l).
  Proof.
    induction 1 as [|x t Hs IH Hf]; simpl; constructor; [exact IH|].
    rewrite Forall_forall in *. intros y Hy. apply in_map_iff in Hy. destruct Hy as [z [<- Hz]].
    apply lex_tail, Hf, Hz.
  Qed.

  Lemma SS_app {X} (R : X -> X -> Prop) l1 l2 :
    StronglySorted R l1 -> StronglySorted R l2 -> (forall a b, In a l1 -> In b l2 -> R a b) ->
    StronglySorted R (l1 ++ l2).
  Proof.
    induction l1 as [|x t IH]; simpl; intros H1 H2 H; [exact H2|].
    inversion H1 as [|? ? Hs Hf]; subst. constructor; [apply IH; auto|].
    rewrite Forall_forall in *. intros y Hy. apply in_app_or in Hy. destruct Hy; auto.
  Qed.

  Lemma pos_children_sorted cs : forall k,
    Forall (fun c => StronglySorted lex_lt (positions c)) cs ->
    StronglySorted lex_lt (pos_children positions k cs).
  Proof.
    induction cs as [|c t IHt]; intros k F; simpl; [constructor|].
    inversion F as [|? ? Hc Ht]; subst. apply SS_app; [apply SS_map_cons, Hc|apply IHt, Ht|].
    intros a b Ha Hb. apply in_map_iff in Ha. destruct Ha as [p [<- _]].
    apply in_pos_children in Hb. destruct Hb as [i [q [x [-> [Hk _]]]]]. apply lex_head. lia.
  Qed.

  (* ... in pre-order, hence each exactly once *)
  Lemma positions_sorted node : StronglySorted lex_lt (positions node).
  Proof.
    induction node as [v cs IH] using rtree_ind'. simpl. constructor; [apply pos_children_sorted, IH|].
    rewrite Forall_forall. intros pos Hp. apply in_pos_children in Hp.
    destruct Hp as [i [p [c [-> _]]]]. constructor.
  Qed.

  Lemma positions_NoDup node : NoDup (positions node).
  Proof.
    pose proof (positions_sorted node) as H. induction H as [|x t Hs IH Hf]; constructor; [|exact IH].
    intros Hin. rewrite Forall_forall in Hf. exact (lex_irrefl x (Hf x Hin)).
  Qed.

  Lemma positions_length node : length (positions node) = size node.
  Proof.
    transitivity (length (map (label_at node 0) (positions node))); [symmetry; apply map_length|].
    rewrite <- walk_positions, map_length. apply walk_length.
  Qed.

  (* ---- the Walk output determines the tree ---- *)
  Definition low (l : nat) (r : list (A * nat)) : Prop :=
    match r with [] => True | (_, lv) :: _ => lv <= l end.

  Lemma low_children l cs r : low l r -> low (S l) (flat_map (walk_from (S l)) cs ++ r).
  Proof.
    intros H. destruct cs as [|[v cs'] t]; simpl; [|lia].
    destruct r as [|[x lv] r']; simpl in *; [exact I|lia].
  Qed.

  Lemma walk_inj_gen (t1 : rtree) : forall l (t2 : rtree) r1 r2,
    walk_from l t1 ++ r1 = walk_from l t2 ++ r2 -> low l r1 -> low l r2 -> t1 = t2 /\ r1 = r2.
  Proof.
    induction t1 as [v1 cs1 IH] using rtree_ind'. intros l [v2 cs2] r1 r2 E L1 L2.
    simpl in E. injection E as -> E.
    assert (G : forall cs2 r1 r2,
              flat_map (walk_from (S l)) cs1 ++ r1 = flat_map (walk_from (S l)) cs2 ++ r2 ->
              low l r1 -> low l r2 -> cs1 = cs2 /\ r1 = r2).
    { clear E L1 L2 r1 r2 cs2. induction cs1 as [|c1 t1 IHt]; intros cs2 r1 r2 E L1 L2.
      - destruct cs2 as [|[v cs] t]; [simpl in E; auto|].
        simpl in E. subst r1. simpl in L1. lia.
      - destruct cs2 as [|c2 t2].
        + destruct c1 as [v cs]. simpl in E. subst r2. simpl in L2. lia.
        + inversion IH as [|? ? Hc Ht]; subst. simpl in E. rewrite <- !app_assoc in E.
          destruct (Hc (S l) c2 _ _ E (low_children l t1 r1 L1) (low_children l t2 r2 L2)) as [-> E'].
          destruct (IHt Ht t2 r1 r2 E' L1 L2) as [-> ->]. auto. }
    destruct (G cs2 r1 r2 E L1 L2) as [-> ->]. auto.
  Qed.

  Lemma walk_from_inj l (t1 t2 : rtree) : walk_from l t1 = walk_from l t2 -> t1 = t2.
  Proof.
    intros E. apply (walk_inj_gen t1 l t2 [] []); [rewrite !app_nil_r; exact E|exact I|exact I].
  Qed.

  Lemma walk_inj (t1 t2 : tree A) : walk t1 = walk t2 -> t1 = t2.
  Proof.
    destruct t1 as [[v1 c1]|], t2 as [[v2 c2]|]; simpl; intros E; try discriminate; [|reflexivity].
    f_equal. apply (walk_from_inj 0). exact E.
  Qed.
End TreeWalk.
